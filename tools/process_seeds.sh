#!/bin/bash
# process_seeds.sh LOG item... where item = PROP:BUG:CHECK1,CHECK2
LOG=$1; shift
for item in "$@"; do
  IFS=: read p b checks <<< "$item"
  echo "== $p $b: $(/verif/tools/confirm_seed.sh /tmp/seed_$p /tmp/seed_$p/seedout/$b 2>&1 | tail -1)" >> $LOG
  echo "=== $p/$b vs $checks" >> $LOG
  (cd /verif && python3 tools/seedtest.py /tmp/seed_$p/seedout/$b/patch.diff ${checks//,/ } 2>&1 | head -14) >> $LOG
done
echo ALLDONE >> $LOG
