#!/bin/bash
# confirm_seed.sh <worktree> <bugdir> : re-confirms a seeded bug in its scratch worktree.
# Prints CONFIRMED or the step that failed. Leaves the worktree clean.
set -u
WT=$1; BUG=$2
cd "$WT" || exit 2
git checkout -q -- . 2>/dev/null; rm -f tests/seed_demo.rs
git apply --check "$BUG/patch.diff" || { echo "FAIL: patch does not apply"; exit 1; }
git apply "$BUG/patch.diff"
out=$(cargo test --workspace --no-fail-fast --offline 2>&1)
if echo "$out" | grep -q "^error"; then echo "FAIL: does not compile"; git checkout -q -- .; exit 1; fi
if echo "$out" | grep -E "^test result: FAILED" -q; then echo "FAIL: existing tests fail with the bug"; git checkout -q -- .; exit 1; fi
npass=$(echo "$out" | grep -E "^test result: ok" | sed -E 's/.*ok\. ([0-9]+) passed.*/\1/' | paste -sd+ | bc)
cp "$BUG/demo.rs" tests/seed_demo.rs
d1=$(cargo test --offline ${SEED_FEATURES:+--features $SEED_FEATURES} --test seed_demo 2>&1)
if echo "$d1" | grep -q "^test result: ok"; then echo "FAIL: demo passes WITH the bug"; rm -f tests/seed_demo.rs; git checkout -q -- .; exit 1; fi
if ! echo "$d1" | grep -q "^test result: FAILED"; then echo "FAIL: demo does not run with the bug: $(echo "$d1" | grep -E '^error' | head -3)"; rm -f tests/seed_demo.rs; git checkout -q -- .; exit 1; fi
git checkout -q -- .
d2=$(cargo test --offline ${SEED_FEATURES:+--features $SEED_FEATURES} --test seed_demo 2>&1)
rm -f tests/seed_demo.rs
if ! echo "$d2" | grep -q "^test result: ok"; then echo "FAIL: demo fails WITHOUT the bug"; exit 1; fi
echo "CONFIRMED: suite passes with bug ($npass tests ok), demo fails with bug, passes without"
