#!/usr/bin/env python3
"""seedtest.py <patch.diff> <check> [<check>...]: applies a seeded change to /repo, runs the quick
checks, restores /repo. Prints which checks raised a VIOLATION."""
import subprocess, sys, os
patch = os.path.abspath(sys.argv[1]); checks = sys.argv[2:]
def sh(c, **k): return subprocess.run(c, shell=True, capture_output=True, text=True, **k)
st = sh("git -C /repo status --porcelain --untracked-files=no").stdout.strip()
if st:
    print("REFUSING: /repo has local modifications"); sys.exit(2)
r = sh("git -C /repo apply --check %s" % patch)
if r.returncode != 0:
    print("PATCH-DOES-NOT-APPLY:", r.stderr.strip()[:300]); sys.exit(3)
sh("git -C /repo apply %s" % patch)
res = {}
try:
    for c in checks:
        tier = os.environ.get("SEED_TIER", "quick")
        r = sh("cd /verif && ./check %s --tier %s" % (c, tier))
        keys = [l.strip() for l in r.stdout.splitlines() if l.strip().startswith("key:")]
        res[c] = (r.returncode, keys, r.stdout.splitlines()[-1] if r.stdout else "")
finally:
    sh("git -C /repo checkout -- .")
for c, (rc, keys, last) in res.items():
    print("%s: exit=%d %s" % (c, rc, "DETECTED" if rc == 1 else ("BROKEN" if rc == 2 else "missed")))
    for k in keys[:6]: print("     ", k)
    print("     ", last)
