#!/usr/bin/env python3
"""Regenerates /verif/MANIFEST.json from the table below (keeps it schema-valid)."""
import json, subprocess, os
ROOT = os.path.dirname(os.path.dirname(os.path.abspath(__file__)))
props = [json.loads(l)['id'] for l in open(os.path.join(ROOT, 'properties.jsonl'))]

# id -> (level text, level note, technique)
CLAIMED = {
 "C01": ("held on N executions: every satisfaction returned by get_satisfaction(_mall) and by plan+Plan::satisfy for generated descriptors of every output type x asset worlds was executed in an independent Script VM under STANDARD and CONSENSUS flags with real signatures over the real transaction; bounded by fragment size, 8-key universe and sampled worlds (see evidence)",
         "trusted base: refvm (own VM, validated by ./check selftest), secp256k1, bitcoin::sighash; generators guided by the specification typing model",
         "runtime monitoring: reference-model monitor (independent Script VM executes every produced satisfaction)"),
 "C02": ("held on N executions: every refusal of the satisfier/planner was challenged by an exhaustive lazy witness search over the caller's own assets in the reference VM; budget exhaustion is inconclusive",
         "trusted base: refvm + lazy search (cross-checked against plain enumeration in ./check selftest and against the library's own witnesses on positive cases)",
         "runtime monitoring: reference-model monitor (lazy symbolic witness search as ground truth for 'a witness exists')"),
 "C03": ("held on N executions: for every non-malleable satisfaction of a sane descriptor the adversary-alphabet search over all spending paths found no second accepted witness; insane descriptors serve as positive control of the oracle",
         "trusted base: refvm + lazy search; STANDARD flags",
         "runtime monitoring: reference-model monitor (adversarial witness search in an independent Script VM)"),
 "C05": ("complete for the rule functions: every public typing rule on every tuple of reachable child types (closure of the specification model) for arity <= 3, thresholds to n<=3/4 exhaustively and sampled to n=20; plus parser dispatch on generated fragments",
         "trusted base: oracle::spec_types (hand transcription of the specification tables, validated against the repository's 23k Alloy-derived vectors); only the listed deliberate conservatism (d: never u) may be weaker",
         "runtime monitoring: exhaustive differential execution of the real rule functions against a specification model"),
 "C09": ("held on N executions: every produced satisfaction was measured (bytes, elements, weight, executed opcodes and stack depth from the VM trace) and compared with the declared static figures",
         "trusted base: refvm trace (opcode counting as in Bitcoin Core); known finding: Plan::witness_size omits the witness script for wsh (pinned by repository tests)",
         "runtime monitoring: conservation-style inequalities (measured <= declared) checked on VM traces of real satisfactions"),
 "C04": ("held on N executions: encode/decode round trips of generated fragments in all four contexts and every byte string the decoder accepted re-encoded to exactly the input; bounded by fragment size and by the mutation operators listed in the evidence",
         "trusted base: refvm::script parser for push minimality; structural identity is not demanded (several miniscripts share a script)",
         "runtime monitoring: differential round-trip monitor over generated and mutated inputs"),
 "C13": ("held on N executions: interpreter verdicts and reported constraints compared with an independent Script VM on library satisfactions, 1-3-step witness mutations and re-signed lock-time worlds",
         "trusted base: refvm (consensus flags) and its trace; tx version 2 only",
         "runtime monitoring: reference-model monitor (interpreter accept => VM accept; constraint multiset == VM trace)"),
 "C18": ("held on N executions: every transformation compared with full truth tables over <= 8-10 atoms and with path enumeration",
         "trusted base: pol.rs evaluator and independent policy text parser; atoms are independent propositional variables",
         "runtime monitoring: differential execution against a truth-table model"),
 "C19": ("held on N pairs/triples incl. targeted mutation pairs: equality, order and hash laws against canonical-string identity",
         "trusted base: Display output as structural identity",
         "runtime monitoring: algebraic-law monitor over generated and mutated object pairs"),
}
REASON_PENDING = "check not built yet in this round (runtime-monitoring design in DESIGN.md section 6); will be claimed when its monitor lands"

fixes = subprocess.run("git -C /repo log --format=%h --grep='^fix:'", shell=True, capture_output=True, text=True).stdout.split()
m = {
 "version": 1,
 "setup_cmd": "./check build",
 "notes": "Runtime monitoring: the real library is driven by seeded hostile workloads; deterministic oracles (own Script VM, lazy witness search, specification models) decide. See DESIGN.md. fix: commits in /repo: " + " ".join(fixes),
 "hooks": {"guard": "miniscript_verif", "enable": "RUSTFLAGS=--cfg miniscript_verif (set by ./check for every harness build)",
           "baseline_off_cmd": "cd /repo && cargo test --workspace --no-fail-fast --offline", "source_commits": [], "add_only": True},
 "engines": [{"name": "msverif", "path": "harness", "serves_properties": sorted(CLAIMED),
              "kind_free_text": "Rust harness: generators, reference Script VM + lazy witness search, specification models, per-property monitors; python driver ./check shards, watches, aggregates, applies known_findings.json"}],
 "checks": [], "not_applicable": []}
for p in props:
    if p in CLAIMED:
        text, note, tech = CLAIMED[p]
        m["checks"].append({
            "property_id": p, "quick_cmd": "./check %s --tier quick" % p, "thorough_cmd": "./check %s --tier thorough" % p,
            "evidence_file": "evidence/%s.json" % p, "replay_cmd_template": "./check %s --replay {path}" % p, "engine": "msverif",
            "level_claimed": {"category": "exploration", "text": text, "design_ref": "DESIGN.md section 6, " + p},
            "level_note": note, "technique": tech})
    else:
        m["not_applicable"].append({"property_id": p, "reason": REASON_PENDING})
json.dump(m, open(os.path.join(ROOT, 'MANIFEST.json'), 'w'), indent=1)
print("claimed:", sorted(CLAIMED))
