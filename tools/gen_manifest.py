#!/usr/bin/env python3
"""Regenerates /verif/MANIFEST.json from the table below (keeps it schema-valid)."""
import json, subprocess, os
ROOT = os.path.dirname(os.path.dirname(os.path.abspath(__file__)))
props = [json.loads(l)['id'] for l in open(os.path.join(ROOT, 'properties.jsonl'))]

# id -> (level text, level note, technique)
CLAIMED = {
 "C01": ("held on N executions: every satisfaction returned by get_satisfaction(_mall) and by plan+Plan::satisfy for generated descriptors of every output type x asset worlds was executed in an independent Script VM under STANDARD and CONSENSUS flags with real signatures over the real transaction; bounded by fragment size, 8-key universe and sampled worlds (see evidence)",
         "trusted base: refvm (own VM, validated by ./check selftest), secp256k1, bitcoin::sighash; generators guided by the specification typing model",
         "runtime monitoring: reference-model monitor (independent Script VM executes every produced satisfaction)"),
 "C02": ("held on N executions: every refusal of the satisfier/planner (harness signer, the library's own lock-time and map satisfiers) was challenged by an exhaustive lazy witness search over the caller's own assets in the reference VM, and every refusal of the PSBT finalizer (all signers, and a subset of signers and preimages) by the direct satisfier holding the same material; budget exhaustion is inconclusive",
         "trusted base: refvm + lazy search (cross-checked against plain enumeration in ./check selftest and against the library's own witnesses on positive cases)",
         "runtime monitoring: reference-model monitor (lazy symbolic witness search as ground truth for 'a witness exists')"),
 "C03": ("held on N executions: for every non-malleable satisfaction of a sane descriptor the adversary-alphabet search over all spending paths found no second accepted witness; insane descriptors serve as positive control of the oracle",
         "trusted base: refvm + lazy search; STANDARD flags",
         "runtime monitoring: reference-model monitor (adversarial witness search in an independent Script VM)"),
 "C05": ("complete for the rule functions: every public typing rule on every tuple of reachable child types (closure of the specification model) for arity <= 3, thresholds to n<=3/4 exhaustively and sampled to n=20; plus parser dispatch on generated fragments and the leaf constructors against the dispatcher",
         "trusted base: oracle::spec_types (hand transcription of the specification tables, validated against the repository's 23k Alloy-derived vectors); only the listed deliberate conservatism (d: never u) may be weaker",
         "runtime monitoring: exhaustive differential execution of the real rule functions against a specification model"),
 "C09": ("held on N executions: every produced satisfaction was measured (bytes, elements, weight, executed opcodes and stack depth from the VM trace) and compared with the declared static figures",
         "trusted base: refvm trace (opcode counting as in Bitcoin Core); known finding: Plan::witness_size omits the witness script for wsh (pinned by repository tests)",
         "runtime monitoring: conservation-style inequalities (measured <= declared) checked on VM traces of real satisfactions"),
 "C04": ("held on N executions: encode/decode round trips of generated fragments in all four contexts and every byte string the decoder accepted re-encoded to exactly the input; bounded by fragment size and by the mutation operators listed in the evidence",
         "trusted base: refvm::script parser for push minimality; structural identity is not demanded (several miniscripts share a script)",
         "runtime monitoring: differential round-trip monitor over generated and mutated inputs"),
 "C13": ("held on N executions: interpreter verdicts and reported constraints compared with an independent Script VM on library satisfactions, 1-3-step witness mutations and re-signed lock-time worlds",
         "trusted base: refvm (consensus flags) and its trace; transaction version 2; relative locks compared by their BIP-68/112 meaning",
         "runtime monitoring: reference-model monitor (interpreter accept => VM accept; constraint multiset == VM trace)"),
 "C18": ("held on N executions: every transformation compared with full truth tables over <= 8-10 atoms and with path enumeration",
         "trusted base: pol.rs evaluator and independent policy text parser; atoms are independent propositional variables",
         "runtime monitoring: differential execution against a truth-table model"),
 "C19": ("held on N pairs/triples incl. targeted mutation pairs: equality, order and hash laws against canonical-string identity, transitivity over every triple of a bag, used (caches filled) against fresh equal values",
         "trusted base: Display output as structural identity",
         "runtime monitoring: algebraic-law monitor over generated and mutated object pairs"),
}

CLAIMED.update({
 "C11": ("held on N executions: no panic, abort, stack overflow (8 MiB stack), endless loop (40 CPU s watchdog), CPU-time or allocation bound overrun on the hostile inputs generated for every entry point named by the property; a clean run is 'no crash on these inputs'",
         "trusted base: the process monitor itself (catch_unwind, counting allocator, CPU clocks, watchdog thread, driver restart) is exercised by injected abort / overflow / hang / allocation faults in ./check selftest",
         "runtime monitoring: process-level crash / hang / allocation monitor over generated, mutated and amplified inputs (sanitizer-style: observes executions, no model)"),
 "C06": ("held on N executions: every execution of every generated fragment's script that the lazy exploration reached over the alphabet (usually exhaustively; budget overruns are counted) agreed with the library's label: consumed elements, result shape per base type, unit, signed, forced, and existence of a signature-free dissatisfaction",
         "trusted base: refvm + lazy exploration; forged labels are refuted in every run as oracle control; bounded by fragment size (<= 9 / 14 nodes)",
         "runtime monitoring: reference-model monitor (each explored input stack is a concrete VM execution checked against the static label)"),
 "C07": ("held on N executions: the lifted policy of generated descriptors evaluated in sampled asset worlds equals the existence of a STANDARD-valid witness (library witness executed in the VM, else lazy search to exhaustion); budget exhaustion is inconclusive",
         "trusted base: refvm + lazy search, pol.rs evaluator and own policy parser; lift() refusing a descriptor is counted, not judged",
         "runtime monitoring: reference-model monitor (policy truth vs witness existence in an independent Script VM)"),
 "C08": ("held on N executions: every output of every compiler entry point for generated policies compared with the input policy on full truth tables, walked by an independent sanity/ context-rule checker, re-parsed, and sampled outputs spent in the VM",
         "trusted base: pol.rs evaluator, frag.rs walker and spec typing model; optimality not judged; compiler panics are judged by C11",
         "runtime monitoring: differential execution against a truth-table model + independent AST walker + VM ground truth on samples"),
 "C10": ("held on N executions: string round trips of every text-bearing type incl. checksum model and ALL single-character substitutions of one checksummed string per case",
         "trusted base: oracle::descsum (BIP-380 transcription), own miniscript/policy text parsers",
         "runtime monitoring: round-trip and checksum-model monitor over generated and mutated strings"),
 "C12": ("held on N executions: every object accepted by any entry point from hostile generated fragments was re-checked by an independent AST walker; single-switch tightening compared with independent defect predicates",
         "trusted base: frag.rs walker + oracle::spec_types; known finding: sh() accepts or_i / d: which the Legacy miniscript parser rejects (pinned by a repository test)",
         "runtime monitoring: invariant monitor at the client boundary of every accepting entry point"),
 "C14": ("held on N histories: PSBT operation histories with snapshots after each call checked against a sequential model (atomic failure, final inputs frozen, idempotence, order independence, single == all) and every final input / extracted tx executed in the VM",
         "trusted base: refvm, oracle::bip341/bip32; signer-side field additions are harness actions, not judged",
         "runtime monitoring: history recording at the client boundary + offline sequential-model checker + VM execution"),
 "C15": ("held on N trees incl. ALL shapes <= 6 leaves and chains to the depth limit: merkle root, output key, address, control blocks and leaf order against the BIP-341 model; every way of driving the leaf iterators; trees of cloned leaf objects; constructors at the depth limit; spend_info cache raced by 16 threads",
         "trusted base: oracle::bip341 (validated against BIP-341 wallet vectors in selftest); tagged hashes / secp tweak from dependencies",
         "runtime monitoring: reference-model monitor + concurrent stress on the shared cache with pointer-equality oracle"),
 "C16": ("held on N executions: scripts, addresses and derived keys of generated descriptors of every wrapper against byte templates and a BIP-32 model (public derivation by the harness's own model, private derivation over mixed hardened / unhardened paths by rust-bitcoin); sortedmulti through parser and constructors in every key order",
         "trusted base: oracle::bip32 (CKDpub/CKDpriv transcription), template builders; secp256k1/HMAC from dependencies",
         "runtime monitoring: reference-model monitor (templates and BIP-32 model)"),
 "C17": ("held on N executions: plans computed from generated Assets were satisfied with exactly the planned material and executed in the VM; plan existence compared with key-source coverage; sizes with measured witnesses",
         "trusted base: refvm; availability modelled by the library's own key-source matching rule; known finding: Plan::witness_size omits the witness script",
         "runtime monitoring: reference-model monitor (plan => VM-valid witness from the declared assets only)"),
 "C20": ("held on N executions: translation laws (identity, substitution, composition, call multiset, failure propagation) and key-iteration laws on generated descriptors/policies",
         "trusted base: textual token substitution on the Display form as the model of translation",
         "runtime monitoring: algebraic-law monitor with a call-recording translator (exactly-once over key positions)"),
})
REASON_PENDING = "check not built yet in this round (runtime-monitoring design in DESIGN.md section 6); will be claimed when its monitor lands"

fixes = subprocess.run("git -C /repo log --format=%h --grep='^fix:'", shell=True, capture_output=True, text=True).stdout.split()
m = {
 "version": 1,
 "setup_cmd": "./check build",
 "notes": "Runtime monitoring: the real library is driven by seeded hostile workloads; deterministic oracles (own Script VM, lazy witness search, specification models) decide. See DESIGN.md. fix: commits in /repo: " + " ".join(fixes),
 "hooks": {"guard": "miniscript_verif", "enable": "RUSTFLAGS=--cfg miniscript_verif (set by ./check for every harness build)",
           "baseline_off_cmd": "cd /repo && cargo test --workspace --no-fail-fast --offline", "source_commits": [], "add_only": True},
 "engines": [{"name": "msverif", "path": "harness", "serves_properties": sorted(CLAIMED),
              "kind_free_text": "Rust harness: generators, reference Script VM + lazy witness search, specification models, per-property monitors; python driver ./check shards, watches, aggregates, applies known_findings.json"}],
 "checks": [], "not_applicable": []}
for p in props:
    if p in CLAIMED:
        text, note, tech = CLAIMED[p]
        m["checks"].append({
            "property_id": p, "quick_cmd": "./check %s --tier quick" % p, "thorough_cmd": "./check %s --tier thorough" % p,
            "evidence_file": "evidence/%s.json" % p, "replay_cmd_template": "./check %s --replay {path}" % p, "engine": "msverif",
            "level_claimed": {"category": "exploration", "text": text, "design_ref": "DESIGN.md section 6, " + p},
            "level_note": note, "technique": tech})
    else:
        m["not_applicable"].append({"property_id": p, "reason": REASON_PENDING})
json.dump(m, open(os.path.join(ROOT, 'MANIFEST.json'), 'w'), indent=1)
print("claimed:", sorted(CLAIMED))
