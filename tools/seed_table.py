#!/usr/bin/env python3
"""Regenerates the seeded-change table in DESIGN.md (between the SEED-TABLE markers) from seeded/*/meta.json."""
import json, glob, os, re
ROOT = os.path.dirname(os.path.dirname(os.path.abspath(__file__)))
rows = ["| id | property | change (one line) | caught by | missed at first by ⇒ what was added |", "|---|---|---|---|---|"]
n = missed = 0
for d in sorted(glob.glob(os.path.join(ROOT, "seeded", "S*"))):
    m = json.load(open(os.path.join(d, "meta.json")))
    sid = os.path.basename(d)
    summ = re.sub(r"\s+", " ", m.get("summary", "")).replace("|", "/")
    if len(summ) > 170:
        summ = summ[:167] + "..."
    note = re.sub(r"\s+", " ", m.get("note", "")).replace("|", "/")
    mb = ",".join(m.get("missed_by_at_first", []))
    rows.append("| %s | %s | %s | %s | %s |" % (sid, m.get("property"), summ, ", ".join(m.get("detected_by", [])), (mb + " ⇒ " + note) if mb else note))
    n += 1
    missed += 1 if mb else 0
rows.append("")
rows.append("%d seeded changes kept; %d of them were missed by the property's own check when first tried and led to the strengthening named in the last column; all %d are detected by the quick tier of the listed check(s) now." % (n, missed, n))
p = os.path.join(ROOT, "DESIGN.md")
s = open(p).read()
b, e = "<!-- SEED-TABLE-BEGIN -->", "<!-- SEED-TABLE-END -->"
assert b in s and e in s
s = s[:s.index(b) + len(b)] + "\n" + "\n".join(rows) + "\n" + s[s.index(e):]
open(p, "w").write(s)
print(n, "rows;", missed, "missed at first")
