#!/usr/bin/env python3
"""keep_seed.py <seed dir (with patch.diff demo.rs meta.json)> <id> <confirm text> <detected-by (comma list)> [<missed-by>] [note]"""
import json, os, shutil, sys
src, sid, confirm, detected = sys.argv[1:5]
missed = sys.argv[5] if len(sys.argv) > 5 else ""
note = sys.argv[6] if len(sys.argv) > 6 else ""
dst = os.path.join("/verif/seeded", sid)
os.makedirs(dst, exist_ok=True)
shutil.copy(os.path.join(src, "patch.diff"), dst)
shutil.copy(os.path.join(src, "demo.rs"), dst)
m = json.load(open(os.path.join(src, "meta.json")))
m["id"] = sid
m["confirmed_by_me"] = confirm
m["what_i_ran"] = [
  "tools/confirm_seed.sh <scratch worktree> <seed dir>: git apply patch; cargo test --workspace --no-fail-fast --offline (all pass); cp demo.rs tests/seed_demo.rs; cargo test --offline --test seed_demo (FAILS); git checkout -- .; cargo test --offline --test seed_demo (passes)",
  "tools/seedtest.py <patch> <checks>: git -C /repo apply patch; ./check <Cxx> --tier quick; git -C /repo checkout -- .",
]
m["detected_by"] = [x for x in detected.split(",") if x]
m["missed_by_at_first"] = [x for x in missed.split(",") if x]
if note: m["note"] = note
json.dump(m, open(os.path.join(dst, "meta.json"), "w"), indent=1)
print("kept", sid)
