#!/usr/bin/env python3
"""seed_regress.py [Sxx ...]: re-runs every kept seeded change (or the named ones) against the checks
recorded in its meta.json (detected_by), in isolation (tools/seedtest_iso.py), on the CURRENT /repo HEAD
and the CURRENT /verif. Prints one line per seed; exit 1 if a seed is no longer detected.
A patch that no longer applies to HEAD is reported as STALE (not a miss)."""
import json, glob, os, subprocess, sys
ROOT = os.path.dirname(os.path.dirname(os.path.abspath(__file__)))
want = set(sys.argv[1:])
bad = 0
for d in sorted(glob.glob(os.path.join(ROOT, "seeded", "S*"))):
    sid = os.path.basename(d).split("-")[0]
    if want and sid not in want and os.path.basename(d) not in want:
        continue
    m = json.load(open(os.path.join(d, "meta.json")))
    checks = m.get("detected_by") or [m["property"]]
    r = subprocess.run([sys.executable, os.path.join(ROOT, "tools", "seedtest_iso.py"), os.path.join(d, "patch.diff")] + checks,
                       capture_output=True, text=True)
    out = r.stdout
    if "PATCH-DOES-NOT-APPLY" in out:
        print("%-44s STALE (patch does not apply to HEAD)" % os.path.basename(d)); continue
    res = []
    for c in checks:
        line = next((l for l in out.splitlines() if l.startswith(c + ":")), c + ": ?")
        res.append(line.split("exit=")[0] + line.split(" ")[-1] if "exit=" in line else line)
    ok = any("DETECTED" in x for x in res)
    print("%-44s %s   %s" % (os.path.basename(d), "ok    " if ok else "MISSED", " | ".join(res)), flush=True)
    bad += 0 if ok else 1
sys.exit(1 if bad else 0)
