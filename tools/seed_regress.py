#!/usr/bin/env python3
"""seed_regress.py [-j N] [Sxx ...]: re-runs every kept seeded change (or the named ones) against the checks
recorded in its meta.json (detected_by), in isolation (tools/seedtest_iso.py), on the CURRENT /repo HEAD
and the CURRENT /verif. Prints one line per seed; exit 1 if a seed is no longer detected.
A patch that no longer applies to HEAD is reported as STALE (not a miss)."""
import json, glob, os, subprocess, sys
from concurrent.futures import ThreadPoolExecutor
ROOT = os.path.dirname(os.path.dirname(os.path.abspath(__file__)))
args = sys.argv[1:]
jobs = 1
if args and args[0] == "-j":
    jobs = int(args[1]); args = args[2:]
want = set(args)
dirs = []
for d in sorted(glob.glob(os.path.join(ROOT, "seeded", "S*"))):
    sid = os.path.basename(d).split("-")[0]
    if want and sid not in want and os.path.basename(d) not in want:
        continue
    dirs.append(d)

def one(d):
    m = json.load(open(os.path.join(d, "meta.json")))
    checks = m.get("detected_by") or [m["property"]]
    r = subprocess.run([sys.executable, os.path.join(ROOT, "tools", "seedtest_iso.py"), os.path.join(d, "patch.diff")] + checks,
                       capture_output=True, text=True)
    out = r.stdout
    if "PATCH-DOES-NOT-APPLY" in out:
        return (os.path.basename(d), "STALE", "patch does not apply to HEAD")
    res = []
    for c in checks:
        line = next((l for l in out.splitlines() if l.startswith(c + ":")), c + ": ?")
        res.append(line)
    ok = any("DETECTED" in x for x in res)
    return (os.path.basename(d), "ok" if ok else "MISSED", " | ".join(res))

bad = 0
with ThreadPoolExecutor(max_workers=jobs) as ex:
    for name, st, info in ex.map(one, dirs):
        print("%-52s %-6s %s" % (name, st, info), flush=True)
        bad += 1 if st == "MISSED" else 0
sys.exit(1 if bad else 0)
