#!/usr/bin/env python3
"""seedtest_iso.py <patch.diff> <check> [<check>...]
Runs the quick checks against a seeded change WITHOUT touching /repo or /verif: a scratch
worktree of /repo HEAD gets the patch, a scratch copy of /verif (harness pointed at the scratch
worktree, build cache copied) runs the checks. Everything is removed afterwards."""
import os, shutil, subprocess, sys, tempfile
patch = os.path.abspath(sys.argv[1]); checks = sys.argv[2:]
def sh(c, **k): return subprocess.run(c, shell=True, capture_output=True, text=True, **k)
base = tempfile.mkdtemp(prefix="iso_", dir="/tmp")
repo = os.path.join(base, "repo"); verif = os.path.join(base, "verif")
try:
    r = sh("git -C /repo worktree add -q --detach %s HEAD" % repo)
    if r.returncode != 0: print("worktree failed", r.stderr); sys.exit(2)
    r = sh("git -C %s apply %s" % (repo, patch))
    if r.returncode != 0:
        print("PATCH-DOES-NOT-APPLY:", r.stderr.strip()[:300]); sys.exit(3)
    sh("rsync -a --exclude out --exclude .git --exclude evidence --exclude target-asan --exclude target-tsan --exclude target-miri --exclude seeded %s/ %s/" % (os.environ.get("VERIF_SRC", "/verif"), verif))
    os.makedirs(os.path.join(verif, "evidence"), exist_ok=True)
    ct = os.path.join(verif, "harness", "Cargo.toml")
    s = open(ct).read().replace('path = "/repo"', 'path = "%s"' % repo)
    open(ct, "w").write(s)
    tier = os.environ.get("SEED_TIER", "quick")
    for c in checks:
        r = sh("cd %s && ./check %s --tier %s" % (verif, c, tier))
        keys = [l.strip() for l in r.stdout.splitlines() if l.strip().startswith("key:")]
        rc = r.returncode
        print("%s: exit=%d %s" % (c, rc, "DETECTED" if rc == 1 else ("BROKEN" if rc == 2 else "missed")))
        for k in keys[:6]: print("     ", k)
        lines = r.stdout.splitlines()
        print("     ", lines[-1] if lines else r.stderr[-300:])
        if rc == 2:
            for l in lines[-6:]: print("      |", l)
finally:
    sh("git -C /repo worktree remove --force %s" % repo)
    shutil.rmtree(base, ignore_errors=True)
