//! Shared workload of C01/C02/C03/C09/C13: generated descriptors, asset worlds,
//! produced satisfactions and their execution in the reference VM.

use std::collections::BTreeSet;
use std::str::FromStr;

use miniscript::bitcoin;
use miniscript::descriptor::Descriptor;

use crate::frag::{Cx, Frag, Gen, GenCfg, KeyForm, KeyRef, Names};
use crate::oracle::spec_types::{Base, STy};
use crate::prng::Rng;
use crate::refvm::search::{Alphabet, Tag};
use crate::target::{Path, Target, Wrap};
use crate::world::{Assets, Dk, Spend, World, WorldSat};

#[derive(Clone, Debug, PartialEq, Eq)]
pub enum DescKind {
    Pk,
    Pkh,
    Wpkh,
    ShWpkh,
    Bare,
    Sh,
    Wsh,
    ShWsh,
    Tr,
}

#[derive(Clone, Debug)]
pub struct DescCase {
    pub kind: DescKind,
    /// descriptor string (no checksum)
    pub desc: String,
    /// fragments: one for ms-based descriptors, leaves for tr
    pub frags: Vec<Frag>,
    /// tr internal key
    pub internal: Option<KeyRef>,
    pub cx: Option<Cx>,
}

impl DescCase {
    /// distinct logical key ids
    pub fn key_ids(&self) -> Vec<usize> {
        let mut s = BTreeSet::new();
        for f in &self.frags {
            for k in f.keys() {
                s.insert(k.id);
            }
        }
        if let Some(k) = self.internal {
            s.insert(k.id);
        }
        s.into_iter().collect()
    }
    pub fn pre_ids(&self) -> Vec<usize> {
        let mut s = BTreeSet::new();
        for f in &self.frags {
            for p in f.preimages() {
                s.insert(p);
            }
        }
        s.into_iter().collect()
    }
    pub fn timelocks(&self) -> (Vec<u32>, Vec<u32>) {
        let mut a = vec![];
        let mut o = vec![];
        for f in &self.frags {
            let (x, y) = f.timelocks();
            a.extend(x);
            o.extend(y);
        }
        (a, o)
    }
    pub fn n_nodes(&self) -> usize { self.frags.iter().map(|f| f.n_nodes()).sum() }
    /// spec types of the fragments (None if ill-typed in the model)
    pub fn spec_types(&self) -> Vec<Option<STy>> {
        let tap = self.kind == DescKind::Tr;
        self.frags.iter().map(|f| f.spec_type(tap).ok()).collect()
    }
}

/// Shape of a tap tree over `n` leaves as a nested string.
fn tap_tree_string(rng: &mut Rng, leaves: &[String]) -> String {
    if leaves.len() == 1 {
        return leaves[0].clone();
    }
    let split = 1 + rng.below(leaves.len() - 1);
    format!(
        "{{{},{}}}",
        tap_tree_string(rng, &leaves[..split]),
        tap_tree_string(rng, &leaves[split..])
    )
}

#[derive(Clone)]
pub struct CaseCfg {
    pub max_nodes: usize,
    pub max_leaves: usize,
    pub chaos_pct: u32,
    pub repeat_keys: bool,
    /// about half of the B leaves are time locks (mixed units on one path become common)
    pub timelock_heavy: bool,
}

/// Generate a descriptor case. Keys are drawn from the world's universe.
pub fn gen_desc_case(rng: &mut Rng, world: &World, cfg: &CaseCfg) -> DescCase {
    gen_desc_case_with(rng, world, cfg, world)
}

/// Same, printing keys through `names` (e.g. xpub expressions for some key ids).
pub fn gen_desc_case_with(rng: &mut Rng, world: &World, cfg: &CaseCfg, names: &dyn Names) -> DescCase {
    let r = rng.below(100);
    let kind = match r {
        0..=2 => DescKind::Pk,
        3..=5 => DescKind::Pkh,
        6..=8 => DescKind::Wpkh,
        9..=11 => DescKind::ShWpkh,
        12..=16 => DescKind::Bare,
        17..=34 => DescKind::Sh,
        35..=62 => DescKind::Wsh,
        63..=72 => DescKind::ShWsh,
        _ => DescKind::Tr,
    };
    let kid = rng.below(world.keys.len());
    let form_legacy = if rng.chance(1, 4) { KeyForm::Uncompressed } else { KeyForm::Compressed };
    match kind {
        DescKind::Pk | DescKind::Pkh => {
            let k = KeyRef { id: kid, form: form_legacy };
            let name = if kind == DescKind::Pk { "pk" } else { "pkh" };
            let inner = if kind == DescKind::Pk { Frag::PkK(k) } else { Frag::PkH(k) };
            DescCase {
                kind,
                desc: format!("{}({})", name, names.key(&k)),
                frags: vec![Frag::Check(Box::new(inner))],
                internal: None,
                cx: None,
            }
        }
        DescKind::Wpkh | DescKind::ShWpkh => {
            let k = KeyRef { id: kid, form: KeyForm::Compressed };
            let s = if kind == DescKind::Wpkh {
                format!("wpkh({})", names.key(&k))
            } else {
                format!("sh(wpkh({}))", names.key(&k))
            };
            DescCase {
                kind,
                desc: s,
                frags: vec![Frag::Check(Box::new(Frag::PkH(k)))],
                internal: None,
                cx: None,
            }
        }
        DescKind::Bare => {
            // bare top level allows only pk, pkh and multi
            let g = Gen::new(rng, GenCfg::new(Cx::Bare, 1));
            let f = match g.rng.below(3) {
                0 => Frag::Check(Box::new(Frag::PkK(KeyRef { id: kid, form: form_legacy }))),
                1 => Frag::Check(Box::new(Frag::PkH(KeyRef { id: kid, form: form_legacy }))),
                _ => {
                    let n = g.rng.range(1, 3);
                    let k = g.rng.range(1, n);
                    let mut ids: Vec<usize> = (0..world.keys.len()).collect();
                    g.rng.shuffle(&mut ids);
                    let ks = ids[..n]
                        .iter()
                        .map(|i| KeyRef {
                            id: *i,
                            form: if g.rng.chance(1, 5) {
                                KeyForm::Uncompressed
                            } else {
                                KeyForm::Compressed
                            },
                        })
                        .collect();
                    Frag::Multi(k, ks)
                }
            };
            DescCase {
                kind,
                desc: f.to_string_with(names),
                frags: vec![f],
                internal: None,
                cx: Some(Cx::Bare),
            }
        }
        DescKind::Sh | DescKind::Wsh | DescKind::ShWsh => {
            let cx = if kind == DescKind::Sh { Cx::Legacy } else { Cx::Segwitv0 };
            let mut gc = GenCfg::new(cx, cfg.max_nodes);
            gc.chaos_pct = cfg.chaos_pct;
            gc.repeat_keys = cfg.repeat_keys;
            gc.timelock_heavy = cfg.timelock_heavy;
            let budget = 1 + rng.below(cfg.max_nodes);
            let f = if rng.chance(1, 6) {
                crate::frag::ladder(rng, cx)
            } else {
                let mut g = Gen::new(rng, gc);
                g.gen(Base::B, budget)
            };
            let ms = f.to_string_with(names);
            let desc = match kind {
                DescKind::Sh => format!("sh({})", ms),
                DescKind::Wsh => format!("wsh({})", ms),
                _ => format!("sh(wsh({}))", ms),
            };
            DescCase { kind, desc, frags: vec![f], internal: None, cx: Some(cx) }
        }
        DescKind::Tr => {
            let internal = KeyRef { id: kid, form: KeyForm::XOnly };
            // one tree in twelve is a deep chain (8-11 small leaves): control blocks beyond 252 bytes
            let deep_chain = rng.chance(1, 12);
            let n_leaves = if deep_chain { 8 + rng.below(4) } else if rng.chance(1, 5) { 0 } else { 1 + rng.below(cfg.max_leaves) };
            let mut frags = vec![];
            let mut gc = GenCfg::new(Cx::Tap, cfg.max_nodes);
            gc.chaos_pct = cfg.chaos_pct;
            gc.repeat_keys = cfg.repeat_keys;
            gc.timelock_heavy = cfg.timelock_heavy;
            {
                let budget_total = 1 + rng.below(cfg.max_nodes);
                let mut g = Gen::new(rng, gc);
                for _ in 0..n_leaves {
                    let b = if deep_chain { 1 + g.rng.below(2) } else { (budget_total / n_leaves.max(1)).max(1) };
                    if g.rng.chance(1, 8) {
                        frags.push(crate::frag::ladder(g.rng, Cx::Tap));
                    } else {
                        frags.push(g.gen(Base::B, b));
                    }
                }
            }
            // In a tr() descriptor a key may also be written as a full 33-byte key (either parity);
            // the script still commits to its x-only form. One descriptor in four writes some of its
            // keys that way (the harness AST keeps the x-only form: the meaning is the same).
            struct FullKeys<'a> {
                inner: &'a dyn Names,
                world: &'a World,
                mask: u64,
            }
            impl Names for FullKeys<'_> {
                fn key(&self, k: &KeyRef) -> String {
                    let plain = self.inner.key(k);
                    let ki = &self.world.keys[k.id % self.world.keys.len()];
                    if k.form == KeyForm::XOnly && plain == ki.xonly_hex && self.mask & (1 << (k.id % 64)) != 0 {
                        ki.compressed_hex.clone()
                    } else {
                        plain
                    }
                }
                fn sha256(&self, i: usize) -> String { self.inner.sha256(i) }
                fn hash256(&self, i: usize) -> String { self.inner.hash256(i) }
                fn ripemd160(&self, i: usize) -> String { self.inner.ripemd160(i) }
                fn hash160(&self, i: usize) -> String { self.inner.hash160(i) }
            }
            let mask = if rng.chance(1, 4) { rng.next_u64() } else { 0 };
            let fk = FullKeys { inner: names, world, mask };
            let names: &dyn Names = &fk;
            let desc = if n_leaves == 0 {
                format!("tr({})", names.key(&internal))
            } else {
                let ls: Vec<String> = frags.iter().map(|f| f.to_string_with(names)).collect();
                let tree = if deep_chain {
                    let left = rng.coin();
                    let mut t = ls[ls.len() - 1].clone();
                    for l in ls[..ls.len() - 1].iter().rev() {
                        t = if left { format!("{{{},{}}}", t, l) } else { format!("{{{},{}}}", l, t) };
                    }
                    t
                } else {
                    tap_tree_string(rng, &ls)
                };
                format!("tr({},{})", names.key(&internal), tree)
            };
            DescCase { kind, desc, frags, internal: Some(internal), cx: Some(Cx::Tap) }
        }
    }
}

/// Lock-time worlds for a case: (nLockTime, nSequence) pairs around its time locks.
pub fn timelock_worlds(rng: &mut Rng, case: &DescCase, n: usize) -> Vec<(u32, u32)> {
    let (afters, olders) = case.timelocks();
    let mut lts: Vec<u32> = vec![0];
    for a in &afters {
        lts.extend([*a, a.wrapping_sub(1), a.saturating_add(1)]);
    }
    if !afters.is_empty() {
        lts.extend([499_999_999, 500_000_000, 0x7fff_ffff, 0xffff_ffff]);
    }
    let mut seqs: Vec<u32> = vec![0xffff_ffff, 0xffff_fffe];
    for o in &olders {
        seqs.extend([*o, o.wrapping_sub(1), o.saturating_add(1), o | (1 << 31)]);
    }
    if !olders.is_empty() {
        seqs.extend([0, 65_535, (1 << 22) | 65_535, 1 << 22]);
    }
    if !afters.is_empty() {
        seqs.push(0);
    }
    let mut out = vec![];
    // first world: everything that can be met is met (max values, non-final sequence)
    let best_lt = afters.iter().cloned().max().unwrap_or(0);
    let best_seq = olders.iter().cloned().max().unwrap_or(0xffff_fffe);
    out.push((best_lt, best_seq));
    while out.len() < n {
        let w = (*rng.pick(&lts), *rng.pick(&seqs));
        if !out.contains(&w) {
            out.push(w);
        } else if lts.len() * seqs.len() <= out.len() {
            break;
        } else if rng.chance(1, 8) {
            break;
        }
    }
    out
}

/// Subsets of `n` items: all if n <= max_bits, else `samples` sampled masks incl. none/all/singletons.
pub fn subsets(rng: &mut Rng, n: usize, max_bits: usize, samples: usize) -> Vec<u64> {
    if n <= max_bits {
        return (0..(1u64 << n)).collect();
    }
    let all = if n >= 64 { u64::MAX } else { (1u64 << n) - 1 };
    let mut v = vec![0, all];
    for i in 0..n {
        v.push(1 << i);
        v.push(all & !(1 << i));
    }
    while v.len() < samples {
        v.push(rng.next_u64() & all);
    }
    v.sort();
    v.dedup();
    v
}

pub fn parse_desc(s: &str) -> Result<Descriptor<Dk>, String> {
    Descriptor::<Dk>::from_str(s).map_err(|e| e.to_string())
}

/// Build `Assets` for key mask / preimage mask over the case's ids.
pub fn make_assets<'w>(
    world: &'w World,
    spend: &'w Spend,
    target: &Target,
    case: &DescCase,
    key_mask: u64,
    pre_mask: u64,
) -> Assets<'w> {
    let mut a = Assets::new(world, spend, target.ecdsa.clone());
    let mut salt = 0xcbf2_9ce4_8422_2325u64;
    for b in case.desc.bytes() {
        salt = (salt ^ b as u64).wrapping_mul(0x100_0000_01b3);
    }
    salt ^= key_mask.wrapping_mul(0x9e37_79b9_7f4a_7c15) ^ pre_mask.rotate_left(23);
    a.vary_hashtypes(salt >> 7);
    for (i, id) in case.key_ids().iter().enumerate() {
        if key_mask & (1 << i) != 0 {
            a.keys.insert(*id);
        }
    }
    for (i, id) in case.pre_ids().iter().enumerate() {
        if pre_mask & (1 << i) != 0 {
            a.pre.insert(*id);
        }
    }
    a
}

pub fn satisfier<'a, 'w>(assets: &'a Assets<'w>, target: &Target) -> WorldSat<'a, 'w> {
    WorldSat { assets, tr_merkle_root: target.tr_merkle_root }
}

/// The alphabet of a party holding `assets` for one spending path: every
/// signature they can make for keys occurring in the case, every public key of
/// the case, every preimage they hold, plus the basic constants.
pub fn party_alphabet(
    world: &World,
    assets: &Assets,
    target: &Target,
    case: &DescCase,
    path: &Path,
    include_two: bool,
) -> Alphabet {
    let mut a = Alphabet::with_basics(include_two);
    // public keys are public
    for f in &case.frags {
        for k in f.keys() {
            let ki = &world.keys[k.id];
            match k.form {
                KeyForm::Compressed => a.add(ki.pk.serialize().to_vec(), Tag::Key),
                KeyForm::Uncompressed => a.add(ki.pk.serialize_uncompressed().to_vec(), Tag::Key),
                KeyForm::XOnly => a.add(ki.xonly.serialize().to_vec(), Tag::Key),
            }
        }
    }
    for id in case.pre_ids() {
        if assets.pre.contains(&id) {
            a.add(world.pre[id].pre.to_vec(), Tag::Preimage);
        }
    }
    // signatures
    match &path.wrap {
        Wrap::TrKey => {
            if let Some(k) = case.internal {
                if let Some(s) =
                    assets.schnorr_sig(&world.keys[k.id].xonly, None, target.tr_merkle_root)
                {
                    a.add(s.to_vec(), Tag::Sig);
                }
            }
        }
        Wrap::TrLeaf { .. } => {
            let lh = path.leaf_hash;
            for id in case.key_ids() {
                if let Some(s) = assets.schnorr_sig(&world.keys[id].xonly, lh, None) {
                    a.add(s.to_vec(), Tag::Sig);
                }
            }
        }
        _ => {
            for f in &case.frags {
                for k in f.keys() {
                    let ki = &world.keys[k.id];
                    let pk = match k.form {
                        KeyForm::Uncompressed => bitcoin::PublicKey::new_uncompressed(ki.pk),
                        _ => bitcoin::PublicKey::new(ki.pk),
                    };
                    if let Some(s) = assets.ecdsa_sig(&pk) {
                        a.add(s.to_vec(), Tag::Sig);
                    }
                }
            }
        }
    }
    a
}
