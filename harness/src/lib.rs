//! msverif: runtime monitors for rust-miniscript (see /verif/DESIGN.md).
pub mod astbuild;
pub mod frag;
pub mod monitors;
pub mod pol;
pub mod oracle;
pub mod prng;
pub mod procmon;
pub mod refvm;
pub mod satcase;
pub mod target;
pub mod world;

#[global_allocator]
static ALLOC: procmon::Counting = procmon::Counting;
