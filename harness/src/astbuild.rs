//! Builds library miniscripts programmatically (`Miniscript::from_ast` bottom-up) from the
//! harness AST: the entry point that neither a string nor a script parser guards.

use std::sync::Arc;

use miniscript::bitcoin::hashes::{hash160, ripemd160, sha256, Hash};
use miniscript::{hash256, AbsLockTime, Miniscript, MiniscriptKey, RelLockTime, ScriptContext, Terminal, Threshold};

use crate::frag::{Frag, KeyRef};
use crate::world::World;

pub fn build<Pk, Ctx>(f: &Frag, world: &World, key: &dyn Fn(&KeyRef) -> Option<Pk>) -> Result<Miniscript<Pk, Ctx>, String>
where
    Pk: MiniscriptKey<Sha256 = sha256::Hash, Hash256 = hash256::Hash, Ripemd160 = ripemd160::Hash, Hash160 = hash160::Hash>,
    Ctx: ScriptContext,
{
    build_ext(f, world, key, false)
}

/// `unchecked_key_leaves`: key leaves come from the library's unchecked leaf constructors
/// (`Miniscript::pk_k` / `pk_h`), so only the wrappers' own checks stand between a
/// context-illegal key and an accepted object.
pub fn build_ext<Pk, Ctx>(f: &Frag, world: &World, key: &dyn Fn(&KeyRef) -> Option<Pk>, unchecked_key_leaves: bool) -> Result<Miniscript<Pk, Ctx>, String>
where
    Pk: MiniscriptKey<Sha256 = sha256::Hash, Hash256 = hash256::Hash, Ripemd160 = ripemd160::Hash, Hash160 = hash160::Hash>,
    Ctx: ScriptContext,
{
    let sub = |x: &Frag| -> Result<Arc<Miniscript<Pk, Ctx>>, String> { build_ext::<Pk, Ctx>(x, world, key, unchecked_key_leaves).map(Arc::new) };
    let k = |r: &KeyRef| key(r).ok_or_else(|| "key form not available for this key type".to_string());
    if unchecked_key_leaves {
        match f {
            Frag::PkK(r) => return Ok(Miniscript::pk_k(k(r)?)),
            Frag::PkH(r) => return Ok(Miniscript::pk_h(k(r)?)),
            _ => {}
        }
    }
    let ks = |v: &Vec<KeyRef>| -> Result<Vec<Pk>, String> { v.iter().map(|r| k(r)).collect() };
    let e = |x: &dyn std::fmt::Display| x.to_string();
    let t: Terminal<Pk, Ctx> = match f {
        Frag::False => Terminal::False,
        Frag::True => Terminal::True,
        Frag::PkK(r) => Terminal::PkK(k(r)?),
        Frag::PkH(r) => Terminal::PkH(k(r)?),
        Frag::After(n) => Terminal::After(AbsLockTime::from_consensus(*n).map_err(|x| e(&x))?),
        Frag::Older(n) => Terminal::Older(RelLockTime::from_consensus(*n).map_err(|x| e(&x))?),
        Frag::Sha256(i) => Terminal::Sha256(sha256::Hash::from_byte_array(world.pre[*i].sha256)),
        Frag::Hash256(i) => Terminal::Hash256(hash256::Hash::from_byte_array(world.pre[*i].hash256)),
        Frag::Ripemd160(i) => Terminal::Ripemd160(ripemd160::Hash::from_byte_array(world.pre[*i].ripemd160)),
        Frag::Hash160(i) => Terminal::Hash160(hash160::Hash::from_byte_array(world.pre[*i].hash160)),
        Frag::Alt(x) => Terminal::Alt(sub(x)?),
        Frag::Swap(x) => Terminal::Swap(sub(x)?),
        Frag::Check(x) => Terminal::Check(sub(x)?),
        Frag::DupIf(x) => Terminal::DupIf(sub(x)?),
        Frag::Verify(x) => Terminal::Verify(sub(x)?),
        Frag::NonZero(x) => Terminal::NonZero(sub(x)?),
        Frag::ZeroNotEqual(x) => Terminal::ZeroNotEqual(sub(x)?),
        Frag::AndV(a, b) => Terminal::AndV(sub(a)?, sub(b)?),
        Frag::AndB(a, b) => Terminal::AndB(sub(a)?, sub(b)?),
        Frag::AndOr(a, b, c) => Terminal::AndOr(sub(a)?, sub(b)?, sub(c)?),
        Frag::OrB(a, b) => Terminal::OrB(sub(a)?, sub(b)?),
        Frag::OrC(a, b) => Terminal::OrC(sub(a)?, sub(b)?),
        Frag::OrD(a, b) => Terminal::OrD(sub(a)?, sub(b)?),
        Frag::OrI(a, b) => Terminal::OrI(sub(a)?, sub(b)?),
        Frag::Thresh(kk, xs) => {
            let v: Result<Vec<_>, String> = xs.iter().map(|x| sub(x)).collect();
            Terminal::Thresh(Threshold::new(*kk, v?).map_err(|x| e(&x))?)
        }
        Frag::Multi(kk, v) => Terminal::Multi(Threshold::new(*kk, ks(v)?).map_err(|x| e(&x))?),
        Frag::SortedMulti(kk, v) => Terminal::SortedMulti(Threshold::new(*kk, ks(v)?).map_err(|x| e(&x))?),
        Frag::MultiA(kk, v) => Terminal::MultiA(Threshold::new(*kk, ks(v)?).map_err(|x| e(&x))?),
        Frag::SortedMultiA(kk, v) => Terminal::SortedMultiA(Threshold::new(*kk, ks(v)?).map_err(|x| e(&x))?),
    };
    Miniscript::from_ast(t).map_err(|x| x.to_string())
}
