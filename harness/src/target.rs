//! Bridges a `Descriptor<Dk>` to the reference VM: scriptPubKey, the scripts a
//! spend may execute (one per spending path), and how a bare stack of witness
//! elements is wrapped into (scriptSig, witness) for each output type.

use std::rc::Rc;

use miniscript::bitcoin;

use bitcoin::secp256k1::{self, Secp256k1};
use bitcoin::taproot::TapLeafHash;
use bitcoin::ScriptBuf;
use miniscript::descriptor::{Descriptor, ShInner};
use miniscript::ToPublicKey;

use crate::refvm::script::{parse, push_minimal};
use crate::refvm::search::{self, Alphabet, Finish, Found, SearchCfg};
use crate::refvm::verify::{p2pkh_script, verify_input, Verified};
use crate::refvm::vm::{Env, Fail, Flags, SigVersion};
use crate::world::{Dk, EcdsaMode, Spend};

#[derive(Clone, Debug)]
pub enum Wrap {
    /// scriptSig = pushes(stack)
    Bare,
    /// scriptSig = pushes(stack) push(redeem)
    P2sh { redeem: Vec<u8> },
    /// witness = stack ++ [script]
    P2wsh { script: Vec<u8> },
    /// scriptSig = push(redeem = 0x00 0x20 sha256(script)), witness = stack ++ [script]
    P2shP2wsh { script: Vec<u8>, redeem: Vec<u8> },
    /// witness = stack (sig, key)
    P2wpkh,
    /// scriptSig = push(redeem), witness = stack
    P2shP2wpkh { redeem: Vec<u8> },
    /// witness = [sig]
    TrKey,
    /// witness = stack ++ [script, control]
    TrLeaf { script: Vec<u8>, control: Vec<u8> },
}

#[derive(Clone, Debug)]
pub struct Path {
    pub wrap: Wrap,
    /// the script whose execution consumes the stack (empty for key path)
    pub script: Vec<u8>,
    pub sigversion: SigVersion,
    pub leaf_hash: Option<TapLeafHash>,
    /// index of the tap leaf (for reporting)
    pub leaf_index: Option<usize>,
}

impl Path {
    pub fn assemble(&self, stack: &[Vec<u8>]) -> (Vec<u8>, Vec<Vec<u8>>) {
        let pushes = |items: &[Vec<u8>]| {
            let mut s = vec![];
            for i in items {
                push_minimal(&mut s, i);
            }
            s
        };
        match &self.wrap {
            Wrap::Bare => (pushes(stack), vec![]),
            Wrap::P2sh { redeem } => {
                let mut s = pushes(stack);
                push_minimal(&mut s, redeem);
                (s, vec![])
            }
            Wrap::P2wsh { script } => {
                let mut w = stack.to_vec();
                w.push(script.clone());
                (vec![], w)
            }
            Wrap::P2shP2wsh { script, redeem } => {
                let mut s = vec![];
                push_minimal(&mut s, redeem);
                let mut w = stack.to_vec();
                w.push(script.clone());
                (s, w)
            }
            Wrap::P2wpkh => (vec![], stack.to_vec()),
            Wrap::P2shP2wpkh { redeem } => {
                let mut s = vec![];
                push_minimal(&mut s, redeem);
                (s, stack.to_vec())
            }
            Wrap::TrKey => (vec![], stack.to_vec()),
            Wrap::TrLeaf { script, control } => {
                let mut w = stack.to_vec();
                w.push(script.clone());
                w.push(control.clone());
                (vec![], w)
            }
        }
    }

    pub fn finish(&self, flags: &Flags) -> Finish {
        match self.sigversion {
            SigVersion::Base => {
                if flags.cleanstack {
                    Finish::ExactlyOneTrue
                } else {
                    Finish::TopTrue
                }
            }
            _ => Finish::ExactlyOneTrue,
        }
    }
}

#[derive(Clone, Debug)]
pub struct Target {
    pub spk: Vec<u8>,
    pub paths: Vec<Path>,
    pub ecdsa: EcdsaMode,
    /// Some(root) for tr descriptors (root may be None when there is no tree)
    pub tr_merkle_root: Option<Option<bitcoin::taproot::TapNodeHash>>,
    pub desc_type: &'static str,
}

impl Target {
    pub fn from_descriptor(d: &Descriptor<Dk>) -> Result<Target, String> {
        let spk = d.script_pubkey().to_bytes();
        let mut paths = vec![];
        let mut tr_merkle_root = None;
        let ecdsa;
        let desc_type;
        match d {
            Descriptor::Bare(_) => {
                desc_type = "bare";
                paths.push(Path {
                    wrap: Wrap::Bare,
                    script: spk.clone(),
                    sigversion: SigVersion::Base,
                    leaf_hash: None,
                    leaf_index: None,
                });
                ecdsa = EcdsaMode::Legacy(ScriptBuf::from_bytes(spk.clone()));
            }
            Descriptor::Pkh(_) => {
                desc_type = "pkh";
                paths.push(Path {
                    wrap: Wrap::Bare,
                    script: spk.clone(),
                    sigversion: SigVersion::Base,
                    leaf_hash: None,
                    leaf_index: None,
                });
                ecdsa = EcdsaMode::Legacy(ScriptBuf::from_bytes(spk.clone()));
            }
            Descriptor::Wpkh(w) => {
                desc_type = "wpkh";
                let pk = w.as_inner().to_public_key();
                let h = pk.wpubkey_hash().map_err(|e| e.to_string())?;
                let sc = p2pkh_script(&h[..]);
                paths.push(Path {
                    wrap: Wrap::P2wpkh,
                    script: sc.clone(),
                    sigversion: SigVersion::WitnessV0,
                    leaf_hash: None,
                    leaf_index: None,
                });
                ecdsa = EcdsaMode::Segwit(ScriptBuf::from_bytes(sc));
            }
            Descriptor::Wsh(_) => {
                desc_type = "wsh";
                let ws = d.explicit_script().map_err(|e| e.to_string())?.to_bytes();
                paths.push(Path {
                    wrap: Wrap::P2wsh { script: ws.clone() },
                    script: ws.clone(),
                    sigversion: SigVersion::WitnessV0,
                    leaf_hash: None,
                    leaf_index: None,
                });
                ecdsa = EcdsaMode::Segwit(ScriptBuf::from_bytes(ws));
            }
            Descriptor::Sh(sh) => match sh.as_inner() {
                ShInner::Wpkh(w) => {
                    desc_type = "sh-wpkh";
                    let pk = w.as_inner().to_public_key();
                    let h = pk.wpubkey_hash().map_err(|e| e.to_string())?;
                    let sc = p2pkh_script(&h[..]);
                    let mut redeem = vec![0x00, 0x14];
                    redeem.extend_from_slice(&h[..]);
                    paths.push(Path {
                        wrap: Wrap::P2shP2wpkh { redeem },
                        script: sc.clone(),
                        sigversion: SigVersion::WitnessV0,
                        leaf_hash: None,
                        leaf_index: None,
                    });
                    ecdsa = EcdsaMode::Segwit(ScriptBuf::from_bytes(sc));
                }
                ShInner::Wsh(_) => {
                    desc_type = "sh-wsh";
                    let ws = d.explicit_script().map_err(|e| e.to_string())?.to_bytes();
                    use bitcoin::hashes::{sha256, Hash};
                    let mut redeem = vec![0x00, 0x20];
                    redeem.extend_from_slice(&sha256::Hash::hash(&ws).to_byte_array());
                    paths.push(Path {
                        wrap: Wrap::P2shP2wsh { script: ws.clone(), redeem },
                        script: ws.clone(),
                        sigversion: SigVersion::WitnessV0,
                        leaf_hash: None,
                        leaf_index: None,
                    });
                    ecdsa = EcdsaMode::Segwit(ScriptBuf::from_bytes(ws));
                }
                ShInner::Ms(_) => {
                    desc_type = "sh";
                    let rs = d.explicit_script().map_err(|e| e.to_string())?.to_bytes();
                    paths.push(Path {
                        wrap: Wrap::P2sh { redeem: rs.clone() },
                        script: rs.clone(),
                        sigversion: SigVersion::Base,
                        leaf_hash: None,
                        leaf_index: None,
                    });
                    ecdsa = EcdsaMode::Legacy(ScriptBuf::from_bytes(rs));
                }
            },
            Descriptor::Tr(tr) => {
                desc_type = "tr";
                let info = tr.spend_info();
                tr_merkle_root = Some(info.merkle_root());
                paths.push(Path {
                    wrap: Wrap::TrKey,
                    script: vec![],
                    sigversion: SigVersion::Tapscript,
                    leaf_hash: None,
                    leaf_index: None,
                });
                for (i, leaf) in info.leaves().enumerate() {
                    let script = leaf.script().to_bytes();
                    let control = leaf.control_block().serialize();
                    paths.push(Path {
                        wrap: Wrap::TrLeaf { script: script.clone(), control },
                        script,
                        sigversion: SigVersion::Tapscript,
                        leaf_hash: Some(leaf.leaf_hash()),
                        leaf_index: Some(i),
                    });
                }
                ecdsa = EcdsaMode::None;
            }
        }
        Ok(Target { spk, paths, ecdsa, tr_merkle_root, desc_type })
    }

    pub fn verify(
        &self,
        script_sig: &[u8],
        witness: &[Vec<u8>],
        spend: &Spend,
        flags: Flags,
        secp: &Secp256k1<secp256k1::All>,
    ) -> Result<Verified, Fail> {
        verify_input(&self.spk, script_sig, witness, &spend.txc(), flags, secp)
    }
}

#[derive(Clone, Debug)]
pub struct FoundSpend {
    pub path_index: usize,
    pub stack: Vec<Vec<u8>>,
    pub script_sig: Vec<u8>,
    pub witness: Vec<Vec<u8>>,
}

#[derive(Clone, Debug, Default)]
pub struct TargetSearch {
    pub found: Vec<FoundSpend>,
    pub inconclusive: bool,
    pub steps: usize,
    pub paths: usize,
    /// results from the search that failed concrete re-verification (oracle self-check; must stay 0)
    pub unconfirmed: usize,
}

/// Search every spending path of the target for witnesses over the given alphabets.
/// `alpha_for(path)` supplies the alphabet (signatures are path specific).
/// Every result is confirmed by a concrete `verify_input` run.
pub fn search_target<F: FnMut(&Path) -> Alphabet>(
    t: &Target,
    spend: &Spend,
    flags: Flags,
    secp: &Secp256k1<secp256k1::All>,
    cfg: &SearchCfg,
    mut alpha_for: F,
) -> TargetSearch {
    let mut out = TargetSearch::default();
    let txc = spend.txc();
    for (pi, p) in t.paths.iter().enumerate() {
        let alpha = alpha_for(p);
        if let Wrap::TrKey = p.wrap {
            // key path: any signature in the alphabet that verifies
            for (item, tag) in &alpha.items {
                if *tag != search::Tag::Sig {
                    continue;
                }
                let (ss, w) = p.assemble(&[(**item).clone()]);
                if t.verify(&ss, &w, spend, flags, secp).is_ok() {
                    out.found.push(FoundSpend {
                        path_index: pi,
                        stack: vec![(**item).clone()],
                        script_sig: ss,
                        witness: w,
                    });
                }
            }
            continue;
        }
        let ops = match parse(&p.script) {
            Ok(o) => Rc::new(o),
            Err(_) => continue,
        };
        let env = Env::new(&txc, p.sigversion, flags, p.script.clone(), p.leaf_hash, secp);
        let r = search::search(ops, &env, &alpha, cfg, p.finish(&flags), i64::MAX);
        out.steps += r.steps;
        out.paths += r.paths;
        if r.exhausted_budget || r.unsupported {
            out.inconclusive = true;
        }
        for Found { stack, .. } in r.found {
            let (ss, w) = p.assemble(&stack);
            match t.verify(&ss, &w, spend, flags, secp) {
                Ok(_) => out.found.push(FoundSpend { path_index: pi, stack, script_sig: ss, witness: w }),
                Err(f) => {
                    // limits (policy sizes, sigops budget) are only known on the assembled input
                    if !matches!(f, Fail::Limit(_)) {
                        out.unconfirmed += 1;
                    }
                }
            }
        }
    }
    out
}
