//! Process-level monitors: counting allocator (live / peak bytes, hard cap), CPU clocks,
//! "current case" file for the driver (a crash leaves the input behind), hang watchdog.

use std::alloc::{GlobalAlloc, Layout, System};
use std::sync::atomic::{AtomicU64, AtomicUsize, Ordering};

static LIVE: AtomicUsize = AtomicUsize::new(0);
static PEAK: AtomicUsize = AtomicUsize::new(0);
static ALLOCS: AtomicU64 = AtomicU64::new(0);
/// one request above this, or more than this live, aborts the process ("allocate without bound")
pub const HARD_CAP: usize = 6 << 30;

pub struct Counting;

fn cap_abort() -> ! {
    let msg = b"ALLOC-CAP: the process asked for more than the hard cap\n";
    unsafe {
        write(2, msg.as_ptr(), msg.len());
    }
    std::process::abort()
}

unsafe impl GlobalAlloc for Counting {
    unsafe fn alloc(&self, l: Layout) -> *mut u8 {
        if l.size() > HARD_CAP {
            cap_abort();
        }
        let p = System.alloc(l);
        if !p.is_null() {
            let now = LIVE.fetch_add(l.size(), Ordering::Relaxed) + l.size();
            if now > HARD_CAP {
                cap_abort();
            }
            PEAK.fetch_max(now, Ordering::Relaxed);
            ALLOCS.fetch_add(1, Ordering::Relaxed);
        }
        p
    }
    unsafe fn dealloc(&self, p: *mut u8, l: Layout) {
        System.dealloc(p, l);
        LIVE.fetch_sub(l.size(), Ordering::Relaxed);
    }
    unsafe fn realloc(&self, p: *mut u8, l: Layout, new: usize) -> *mut u8 {
        if new > HARD_CAP {
            cap_abort();
        }
        let q = System.realloc(p, l, new);
        if !q.is_null() {
            if new >= l.size() {
                let now = LIVE.fetch_add(new - l.size(), Ordering::Relaxed) + (new - l.size());
                if now > HARD_CAP {
                    cap_abort();
                }
                PEAK.fetch_max(now, Ordering::Relaxed);
            } else {
                LIVE.fetch_sub(l.size() - new, Ordering::Relaxed);
            }
        }
        q
    }
}

/// Start a measurement: peak := live; returns live.
pub fn alloc_mark() -> usize {
    let c = LIVE.load(Ordering::Relaxed);
    PEAK.store(c, Ordering::Relaxed);
    c
}
/// Bytes the peak rose above the mark.
pub fn alloc_peak_above(mark: usize) -> usize { PEAK.load(Ordering::Relaxed).saturating_sub(mark) }
pub fn alloc_count() -> u64 { ALLOCS.load(Ordering::Relaxed) }

#[repr(C)]
struct Timespec {
    sec: i64,
    nsec: i64,
}
extern "C" {
    fn clock_gettime(clk: i32, ts: *mut Timespec) -> i32;
    fn write(fd: i32, buf: *const u8, n: usize) -> isize;
}
fn clock(id: i32) -> u64 {
    let mut t = Timespec { sec: 0, nsec: 0 };
    unsafe {
        clock_gettime(id, &mut t);
    }
    t.sec as u64 * 1_000_000_000 + t.nsec as u64
}
/// CPU time of the calling thread (ns): decisions use this, never the wall clock.
pub fn thread_cpu_ns() -> u64 { clock(3) }
pub fn process_cpu_ns() -> u64 { clock(2) }

// ---- current case + watchdog

static CASE_SEQ: AtomicU64 = AtomicU64::new(0);
static CASE_ID: AtomicU64 = AtomicU64::new(0);
static CASE_START_CPU: AtomicU64 = AtomicU64::new(0);
static CUR_PATH: std::sync::Mutex<Option<String>> = std::sync::Mutex::new(None);
static CUR_TEXT: std::sync::Mutex<String> = std::sync::Mutex::new(String::new());

pub fn set_cur_path(p: Option<String>) { *CUR_PATH.lock().unwrap() = p; }

/// Announce the case about to run (id, family, input): written to the cur file so that the
/// driver can attribute a crash, and remembered for the watchdog.
pub fn begin_case(id: u64, family: &str, input: &str) {
    let text = format!("{}\n{}\n{}", id, family, input);
    if let Some(p) = CUR_PATH.lock().unwrap().as_ref() {
        let _ = std::fs::write(p, &text);
    }
    *CUR_TEXT.lock().unwrap() = text;
    CASE_ID.store(id, Ordering::SeqCst);
    CASE_START_CPU.store(process_cpu_ns(), Ordering::SeqCst);
    CASE_SEQ.fetch_add(1, Ordering::SeqCst);
}

/// A thread that reports a case which burns more than `limit_s` CPU seconds without returning
/// and ends the process with status 3 (the driver restarts the shard after that case).
pub fn start_watchdog(prop: String, seed: u64, shard: u64, nshards: u64, tier: String, limit_s: u64) {
    std::thread::spawn(move || loop {
        std::thread::sleep(std::time::Duration::from_millis(200));
        let seq = CASE_SEQ.load(Ordering::SeqCst);
        if seq == 0 {
            continue;
        }
        let used = process_cpu_ns().saturating_sub(CASE_START_CPU.load(Ordering::SeqCst));
        if used > limit_s * 1_000_000_000 && CASE_SEQ.load(Ordering::SeqCst) == seq {
            let text = CUR_TEXT.lock().map(|t| t.clone()).unwrap_or_default();
            let mut it = text.splitn(3, '\n');
            let id = it.next().unwrap_or("0").to_string();
            let fam = it.next().unwrap_or("?").to_string();
            let input = it.next().unwrap_or("").to_string();
            let esc = |s: &str| s.replace('\\', "\\\\").replace('"', "\\\"").replace('\n', "\\n").chars().filter(|c| !c.is_control()).collect::<String>();
            println!(
                "{{\"t\":\"viol\",\"prop\":\"{}\",\"key\":\"{}:hang:{}\",\"detail\":\"no return after {} CPU seconds on input: {}\",\"case\":{},\"seed\":{},\"shard\":{},\"nshards\":{},\"tier\":\"{}\"}}",
                prop,
                prop,
                esc(&fam),
                limit_s,
                esc(&input.chars().take(4000).collect::<String>()),
                id,
                seed,
                shard,
                nshards,
                tier
            );
            std::process::exit(3);
        }
    });
}
