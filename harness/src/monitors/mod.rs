//! Monitor infrastructure: reporting, verdict bookkeeping, per-case RNG.

use std::collections::{BTreeMap, BTreeSet};
use std::io::Write;

use crate::prng::Rng;

pub mod c01;
pub mod c16;
pub mod c14;
pub mod c08;
pub mod c06;
pub mod c07;
pub mod c02;
pub mod c03;
pub mod c04;
pub mod c05;
pub mod c09;
pub mod c10;
pub mod c11;
pub mod c12;
pub mod c13;
pub mod c15;
pub mod c17;
pub mod c18;
pub mod c19;
pub mod c20;
pub mod selftest;

#[derive(Clone, Debug)]
pub struct RunCfg {
    pub prop: String,
    pub tier: Tier,
    pub seed: u64,
    pub shard: u64,
    pub nshards: u64,
    /// run exactly this case index (replay)
    pub only_case: Option<u64>,
    pub verbose: bool,
    /// scale factor on case counts (testing)
    pub scale: f64,
    /// optional free-form argument of the replay (monitor specific)
    pub arg: Option<String>,
}

#[derive(Clone, Copy, Debug, PartialEq, Eq)]
pub enum Tier {
    Quick,
    Thorough,
}

impl RunCfg {
    /// Independent stream for case `i` of this run.
    pub fn case_rng(&self, i: u64) -> Rng {
        Rng::derive(self.seed, self.shard.wrapping_mul(1_000_003).wrapping_add(i), &self.prop)
    }
    pub fn n_cases(&self, quick: u64, thorough: u64) -> u64 {
        let n = match self.tier {
            Tier::Quick => quick,
            Tier::Thorough => thorough,
        };
        ((n as f64 * self.scale) as u64).max(1)
    }
    /// The case indices this shard runs.
    pub fn cases(&self, total: u64) -> Box<dyn Iterator<Item = u64>> {
        if let Some(c) = self.only_case {
            return Box::new(std::iter::once(c));
        }
        let per = (total + self.nshards - 1) / self.nshards;
        Box::new(0..per)
    }
}

pub fn json_escape(s: &str) -> String {
    let mut o = String::with_capacity(s.len() + 2);
    for c in s.chars() {
        match c {
            '"' => o.push_str("\\\""),
            '\\' => o.push_str("\\\\"),
            '\n' => o.push_str("\\n"),
            '\r' => o.push_str("\\r"),
            '\t' => o.push_str("\\t"),
            c if (c as u32) < 0x20 => o.push_str(&format!("\\u{:04x}", c as u32)),
            c => o.push(c),
        }
    }
    o
}

pub fn fnv(s: &str) -> u64 {
    let mut h: u64 = 0xcbf2_9ce4_8422_2325;
    for b in s.bytes() {
        h ^= b as u64;
        h = h.wrapping_mul(0x0000_0100_0000_01B3);
    }
    h
}

#[derive(Clone, Debug)]
pub struct Violation {
    /// stable identification: call site + failure class (matched against known_findings.json)
    pub key: String,
    /// one concrete witness, human readable
    pub detail: String,
    pub case: u64,
}

pub struct Report {
    pub cfg: RunCfg,
    pub evaluations: u64,
    pub nontrivial: BTreeSet<u64>,
    pub samples: Vec<String>,
    pub violations: Vec<Violation>,
    pub inconclusive: u64,
    pub counters: BTreeMap<String, u64>,
    pub max_samples: usize,
    viol_keys_seen: BTreeMap<String, u64>,
}

impl Report {
    pub fn new(cfg: &RunCfg) -> Self {
        Report {
            cfg: cfg.clone(),
            evaluations: 0,
            nontrivial: BTreeSet::new(),
            samples: vec![],
            violations: vec![],
            inconclusive: 0,
            counters: BTreeMap::new(),
            max_samples: 6,
            viol_keys_seen: BTreeMap::new(),
        }
    }
    pub fn eval(&mut self) { self.evaluations += 1; }
    pub fn nontrivial(&mut self, id: &str) { self.nontrivial.insert(fnv(id)); }
    pub fn count(&mut self, k: &str) { *self.counters.entry(k.to_string()).or_insert(0) += 1; }
    pub fn add(&mut self, k: &str, n: u64) { *self.counters.entry(k.to_string()).or_insert(0) += n; }
    pub fn max(&mut self, k: &str, n: u64) {
        let e = self.counters.entry(k.to_string()).or_insert(0);
        if n > *e {
            *e = n;
        }
    }
    pub fn sample(&mut self, s: String) {
        if self.samples.len() < self.max_samples {
            self.samples.push(s);
        }
    }
    pub fn inconclusive(&mut self, why: &str) {
        self.inconclusive += 1;
        self.count(&format!("inconclusive:{}", why));
    }
    pub fn violation(&mut self, case: u64, key: String, detail: String) {
        let n = self.viol_keys_seen.entry(key.clone()).or_insert(0);
        *n += 1;
        // keep at most 3 witnesses per key and shard
        if *n <= 3 {
            self.violations.push(Violation { key, detail, case });
        }
    }

    /// Emit the shard's result as JSON lines on stdout and the non-trivial ids to `nt_path`.
    pub fn emit(&self, nt_path: Option<&str>) {
        let out = std::io::stdout();
        let mut o = out.lock();
        for v in &self.violations {
            let _ = writeln!(
                o,
                "{{\"t\":\"viol\",\"prop\":\"{}\",\"key\":\"{}\",\"detail\":\"{}\",\"case\":{},\"seed\":{},\"shard\":{},\"nshards\":{},\"tier\":\"{}\"}}",
                self.cfg.prop,
                json_escape(&v.key),
                json_escape(&v.detail),
                v.case,
                self.cfg.seed,
                self.cfg.shard,
                self.cfg.nshards,
                match self.cfg.tier {
                    Tier::Quick => "quick",
                    Tier::Thorough => "thorough",
                }
            );
        }
        let mut counters = String::new();
        for (i, (k, v)) in self.counters.iter().enumerate() {
            if i > 0 {
                counters.push(',');
            }
            counters.push_str(&format!("\"{}\":{}", json_escape(k), v));
        }
        let mut samples = String::new();
        for (i, s) in self.samples.iter().enumerate() {
            if i > 0 {
                samples.push(',');
            }
            samples.push_str(&format!("\"{}\"", json_escape(s)));
        }
        let mut vk = String::new();
        for (i, (k, v)) in self.viol_keys_seen.iter().enumerate() {
            if i > 0 {
                vk.push(',');
            }
            vk.push_str(&format!("\"{}\":{}", json_escape(k), v));
        }
        let _ = writeln!(
            o,
            "{{\"t\":\"summary\",\"prop\":\"{}\",\"shard\":{},\"evaluations\":{},\"nontrivial\":{},\"inconclusive\":{},\"counters\":{{{}}},\"samples\":[{}],\"violation_keys\":{{{}}}}}",
            self.cfg.prop,
            self.cfg.shard,
            self.evaluations,
            self.nontrivial.len(),
            self.inconclusive,
            counters,
            samples,
            vk
        );
        if let Some(p) = nt_path {
            if let Ok(mut f) = std::fs::File::create(p) {
                let mut buf = String::new();
                for h in &self.nontrivial {
                    buf.push_str(&format!("{:016x}\n", h));
                }
                let _ = f.write_all(buf.as_bytes());
            }
        }
    }
}

/// Run `f` catching panics; returns Err(message) if it panicked.
pub fn guarded<T, F: FnOnce() -> T + std::panic::UnwindSafe>(f: F) -> Result<T, String> {
    match std::panic::catch_unwind(f) {
        Ok(v) => Ok(v),
        Err(e) => {
            let msg = if let Some(s) = e.downcast_ref::<&str>() {
                s.to_string()
            } else if let Some(s) = e.downcast_ref::<String>() {
                s.clone()
            } else {
                "panic".to_string()
            };
            Err(msg)
        }
    }
}

thread_local! {
    pub static LAST_PANIC_LOC: std::cell::RefCell<String> = std::cell::RefCell::new(String::new());
}

/// Install a panic hook that records the panic location (file:line) instead of printing.
pub fn install_quiet_panic_hook() {
    std::panic::set_hook(Box::new(|info| {
        let loc = info
            .location()
            .map(|l| format!("{}:{}", l.file(), l.line()))
            .unwrap_or_else(|| "?".to_string());
        LAST_PANIC_LOC.with(|c| *c.borrow_mut() = loc);
    }));
}

pub fn last_panic_loc() -> String { LAST_PANIC_LOC.with(|c| c.borrow().clone()) }

/// Strip the path prefix of /repo from a panic location, so keys are stable.
pub fn norm_loc(loc: &str) -> String {
    match loc.find("/src/") {
        Some(i) => loc[i + 1..].to_string(),
        None => loc.to_string(),
    }
}

/// Run the monitor named by cfg.prop. Returns false if unknown.
pub fn dispatch(cfg: &RunCfg, rep: &mut Report) -> bool {
    match cfg.prop.as_str() {
        "C01" => c01::run(cfg, rep),
        "C16" => c16::run(cfg, rep),
        "C06" => c06::run(cfg, rep),
        "C14" => c14::run(cfg, rep),
        "C08" => c08::run(cfg, rep),
        "C07" => c07::run(cfg, rep),
        "C02" => c02::run(cfg, rep),
        "C03" => c03::run(cfg, rep),
        "C04" => c04::run(cfg, rep),
        "C05" => c05::run(cfg, rep),
        "C09" => c09::run(cfg, rep),
        "C10" => c10::run(cfg, rep),
        "C11" => c11::run(cfg, rep),
        "C12" => c12::run(cfg, rep),
        "C13" => c13::run(cfg, rep),
        "C15" => c15::run(cfg, rep),
        "C17" => c17::run(cfg, rep),
        "C18" => c18::run(cfg, rep),
        "C19" => c19::run(cfg, rep),
        "C20" => c20::run(cfg, rep),
        "ST" => selftest::run(cfg, rep),
        // positive controls of the sanitizer stages (./check selftest --tier thorough): deliberate faults
        "RACECTL" => sanitizer_control_race(rep),
        "UAFCTL" => sanitizer_control_uaf(rep),
        _ => return false,
    }
    true
}


struct Racy(std::cell::UnsafeCell<u64>);
unsafe impl Sync for Racy {}

/// A deliberate data race (two threads, unsynchronised read-modify-write): ThreadSanitizer must report it.
fn sanitizer_control_race(rep: &mut Report) {
    let r = std::sync::Arc::new(Racy(std::cell::UnsafeCell::new(0)));
    let hs: Vec<_> = (0..2)
        .map(|_| {
            let r = r.clone();
            std::thread::spawn(move || {
                for _ in 0..100_000 {
                    unsafe {
                        let p = r.0.get();
                        std::ptr::write_volatile(p, std::ptr::read_volatile(p) + 1);
                    }
                }
            })
        })
        .collect();
    for h in hs {
        let _ = h.join();
    }
    rep.eval();
    rep.nontrivial("race-control-a");
    rep.nontrivial("race-control-b");
    rep.sample(format!("racy counter ended at {}", unsafe { *r.0.get() }));
}

/// A deliberate heap use-after-free: AddressSanitizer must report it.
fn sanitizer_control_uaf(rep: &mut Report) {
    let v = vec![1u8, 2, 3, 4, 5, 6, 7, 8];
    let p = v.as_ptr();
    drop(v);
    let x = unsafe { std::ptr::read_volatile(p.add(3)) };
    rep.eval();
    rep.nontrivial("uaf-control-a");
    rep.nontrivial("uaf-control-b");
    rep.sample(format!("read {} from freed memory", x));
}
