//! C05: fragment typing equals the specification's tables.
//! Part A (exhaustive): every public rule function of `types::Type` on the complete
//! domain of *reachable* child types (closure of the specification model), compared
//! with oracle::spec_types. Part B (dispatch): `Miniscript::from_str` on generated
//! (also deliberately ill-typed) fragments, per node type compared with the model.

use std::collections::BTreeSet;

use miniscript::iter::TreeLike as _;
use miniscript::miniscript::types::{self as lt, Type};
use miniscript::{BareCtx, Legacy, Miniscript, ScriptContext, Segwitv0, Tap, ValidationParams};

use super::{guarded, last_panic_loc, norm_loc, Report, RunCfg, Tier};
use crate::frag::{AbstractNames, Cx, Frag, Gen, GenCfg};
use crate::oracle::spec_types::{self as st, Base, Kind, STy};

pub fn to_lib(t: &STy) -> Type {
    let base = match t.base {
        Base::B => lt::Base::B,
        Base::V => lt::Base::V,
        Base::K => lt::Base::K,
        Base::W => lt::Base::W,
    };
    let input = if t.z {
        lt::Input::Zero
    } else if t.o && t.n {
        lt::Input::OneNonZero
    } else if t.o {
        lt::Input::One
    } else if t.n {
        lt::Input::AnyNonZero
    } else {
        lt::Input::Any
    };
    let dissat = if t.f {
        lt::Dissat::None
    } else if t.e {
        lt::Dissat::Unique
    } else {
        lt::Dissat::Unknown
    };
    Type {
        corr: lt::Correctness { base, input, dissatisfiable: t.d, unit: t.u },
        mall: lt::Malleability { dissat, signed: t.s, non_malleable: t.m },
    }
}

/// The claims a library type makes, in specification vocabulary.
pub fn from_lib(t: &Type) -> STy {
    let base = match t.corr.base {
        lt::Base::B => Base::B,
        lt::Base::V => Base::V,
        lt::Base::K => Base::K,
        lt::Base::W => Base::W,
    };
    let (z, o, n) = match t.corr.input {
        lt::Input::Zero => (true, false, false),
        lt::Input::One => (false, true, false),
        lt::Input::Any => (false, false, false),
        lt::Input::OneNonZero => (false, true, true),
        lt::Input::AnyNonZero => (false, false, true),
    };
    STy {
        base,
        z,
        o,
        n,
        d: t.corr.dissatisfiable,
        u: t.corr.unit,
        s: t.mall.signed,
        f: t.mall.dissat == lt::Dissat::None,
        e: t.mall.dissat == lt::Dissat::Unique,
        m: t.mall.non_malleable,
    }
}

/// Deliberate conservatisms of the library (rule, property): the library may claim
/// less than the specification grants here. Each entry is backed by a source comment
/// or a documented design decision in rust-miniscript; anything else that is weaker
/// than the specification is a violation ("exactly").
pub const CONSERVATISMS: &[(&str, char)] = &[
    // types/correctness.rs cast_dupif: "unit: false" - d: is never treated as `u`
    // (MINIMALIF is only policy for segwit v0; the library keeps the pre-tapscript rule everywhere)
    ("d:", 'u'),
];

fn props(t: &STy) -> [(char, bool); 9] {
    [
        ('z', t.z),
        ('o', t.o),
        ('n', t.n),
        ('d', t.d),
        ('u', t.u),
        ('s', t.s),
        ('f', t.f),
        ('e', t.e),
        ('m', t.m),
    ]
}

/// Closure of the specification model: every type some fragment can have.
pub fn reachable_types() -> Vec<STy> {
    let mut set: BTreeSet<STy> = BTreeSet::new();
    for k in [
        Kind::False,
        Kind::True,
        Kind::PkK,
        Kind::PkH,
        Kind::Older,
        Kind::Sha256,
        Kind::Multi,
        Kind::MultiA,
    ] {
        set.insert(st::leaf(k));
    }
    loop {
        let cur: Vec<STy> = set.iter().cloned().collect();
        let before = set.len();
        for x in &cur {
            for k in [
                Kind::Alt,
                Kind::Swap,
                Kind::Check,
                Kind::DupIf,
                Kind::Verify,
                Kind::NonZero,
                Kind::ZeroNotEqual,
            ] {
                for tap in [false, true] {
                    if let Ok(t) = st::wrapper(k, x, tap) {
                        set.insert(t);
                    }
                }
            }
            for y in &cur {
                for k in [Kind::AndV, Kind::AndB, Kind::OrB, Kind::OrC, Kind::OrD, Kind::OrI] {
                    if let Ok(t) = st::binary(k, x, y) {
                        set.insert(t);
                    }
                }
            }
        }
        // andor and thresh (n <= 3) closure
        let b: Vec<&STy> = cur.iter().filter(|t| t.base == Base::B && t.d && t.u).collect();
        for x in &b {
            for y in &cur {
                for z in &cur {
                    if y.base == z.base {
                        if let Ok(t) = st::andor(x, y, z) {
                            set.insert(t);
                        }
                    }
                }
            }
        }
        let w: Vec<&STy> = cur.iter().filter(|t| t.base == Base::W && t.d && t.u).collect();
        for x in &b {
            for k in 1..=1 {
                if let Ok(t) = st::thresh(k, &[**x]) {
                    set.insert(t);
                }
            }
            for y in &w {
                for k in 1..=2 {
                    if let Ok(t) = st::thresh(k, &[**x, **y]) {
                        set.insert(t);
                    }
                }
                for z in &w {
                    for k in 1..=3 {
                        if let Ok(t) = st::thresh(k, &[**x, **y, **z]) {
                            set.insert(t);
                        }
                    }
                }
            }
        }
        if set.len() == before {
            break;
        }
    }
    set.into_iter().collect()
}

struct Cmp<'r> {
    rep: &'r mut Report,
}

impl<'r> Cmp<'r> {
    /// Compare one rule application. `lib` = library result, `spec` = model result.
    fn judge(
        &mut self,
        rule: &'static str,
        inputs: &dyn Fn() -> String,
        lib: Result<Result<Type, String>, String>,
        spec: Result<STy, &'static str>,
    ) {
        self.rep.eval();
        let lib = match lib {
            Err(msg) => {
                let loc = norm_loc(&last_panic_loc());
                self.rep.violation(
                    0,
                    format!("C05:panic:{}:{}", rule, loc),
                    format!("{}({}) panicked: {} at {}", rule, inputs(), msg, loc),
                );
                return;
            }
            Ok(l) => l,
        };
        match (lib, spec) {
            (Err(_), Err(_)) => self.rep.count(&format!("reject:{}", rule)),
            (Ok(t), Err(e)) => self.rep.violation(
                0,
                format!("C05:accepts-what-spec-rejects:{}", rule),
                format!("{}({}) accepted as {} but the specification rejects it ({})", rule, inputs(), from_lib(&t).type_string(), e),
            ),
            (Err(e), Ok(t)) => self.rep.violation(
                0,
                format!("C05:rejects-what-spec-accepts:{}", rule),
                format!("{}({}) rejected ({}) but the specification gives {}", rule, inputs(), e, t.type_string()),
            ),
            (Ok(l), Ok(s)) => {
                self.rep.count(&format!("accept:{}", rule));
                let l = from_lib(&l);
                if l.base != s.base {
                    self.rep.violation(
                        0,
                        format!("C05:base:{}", rule),
                        format!("{}({}) has base {:?}, specification {:?}", rule, inputs(), l.base, s.base),
                    );
                    return;
                }
                for ((c, lv), (_, sv)) in props(&l).iter().zip(props(&s).iter()) {
                    if *lv && !*sv {
                        self.rep.violation(
                            0,
                            format!("C05:stronger:{}:{}", rule, c),
                            format!(
                                "{}({}) claims '{}' (library type {}) which the specification does not grant ({})",
                                rule, inputs(), c, l.type_string(), s.type_string()
                            ),
                        );
                    } else if !*lv && *sv {
                        if CONSERVATISMS.iter().any(|(r, p)| *r == rule && p == c) {
                            self.rep.count(&format!("conservatism:{}:{}", rule, c));
                        } else {
                            self.rep.violation(
                                0,
                                format!("C05:weaker:{}:{}", rule, c),
                                format!(
                                    "{}({}) does not claim '{}' (library type {}) although the specification grants it ({}); not a listed conservatism",
                                    rule, inputs(), c, l.type_string(), s.type_string()
                                ),
                            );
                        }
                    }
                }
            }
        }
    }
}

fn lib1(f: fn(Type) -> Result<Type, lt::ErrorKind>, x: &STy) -> Result<Result<Type, String>, String> {
    let xl = to_lib(x);
    guarded(move || f(xl).map_err(|e| format!("{:?}", e)))
}
fn lib2(
    f: fn(Type, Type) -> Result<Type, lt::ErrorKind>,
    x: &STy,
    y: &STy,
) -> Result<Result<Type, String>, String> {
    let (xl, yl) = (to_lib(x), to_lib(y));
    guarded(move || f(xl, yl).map_err(|e| format!("{:?}", e)))
}

pub fn run(cfg: &RunCfg, rep: &mut Report) {
    let reach = reachable_types();
    rep.add("reachable-types", reach.len() as u64);
    let shard = cfg.shard as usize;
    let nsh = cfg.nshards as usize;
    let mut cmp = Cmp { rep };

    // leaves (shard 0 only)
    if shard == 0 {
        let leaves: [(&'static str, Type, Kind); 8] = [
            ("0", Type::FALSE, Kind::False),
            ("1", Type::TRUE, Kind::True),
            ("pk_k", Type::pk_k(), Kind::PkK),
            ("pk_h", Type::pk_h(), Kind::PkH),
            ("multi", Type::multi(), Kind::Multi),
            ("multi_a", Type::multi_a(), Kind::MultiA),
            ("hash", Type::hash(), Kind::Sha256),
            ("time", Type::time(), Kind::Older),
        ];
        for (name, t, k) in leaves {
            cmp.judge(name, &|| String::new(), Ok(Ok(t)), Ok(st::leaf(k)));
            cmp.rep.nontrivial(&format!("leaf:{}", name));
        }
        cmp.judge("multi", &|| "sorted".into(), Ok(Ok(Type::sortedmulti())), Ok(st::leaf(Kind::Multi)));
        cmp.judge("multi_a", &|| "sorted".into(), Ok(Ok(Type::sortedmulti_a())), Ok(st::leaf(Kind::MultiA)));
    }

    // unary
    let unary: [(&'static str, fn(Type) -> Result<Type, lt::ErrorKind>, Kind); 7] = [
        ("a:", Type::cast_alt, Kind::Alt),
        ("s:", Type::cast_swap, Kind::Swap),
        ("c:", Type::cast_check, Kind::Check),
        ("d:", Type::cast_dupif, Kind::DupIf),
        ("v:", Type::cast_verify, Kind::Verify),
        ("j:", Type::cast_nonzero, Kind::NonZero),
        ("n:", Type::cast_zeronotequal, Kind::ZeroNotEqual),
    ];
    for (i, x) in reach.iter().enumerate() {
        if i % nsh != shard {
            continue;
        }
        for (name, f, k) in unary {
            // d: is compared with the Tapscript rule (strongest the spec ever grants); the
            // conservatism list covers the library's uniform "never u".
            let spec = st::wrapper(k, x, true);
            cmp.judge(name, &|| x.type_string(), lib1(f, x), spec);
            cmp.rep.nontrivial(&format!("{}{}", name, x.type_string()));
        }
        // sugar: t:X = and_v(X,1), l:X = or_i(0,X), u:X = or_i(X,0)
        let one = st::leaf(Kind::True);
        let zero = st::leaf(Kind::False);
        cmp.judge("t:", &|| x.type_string(), lib1(Type::cast_true, x), st::binary(Kind::AndV, x, &one));
        cmp.judge("l:", &|| x.type_string(), lib1(Type::cast_likely, x), st::binary(Kind::OrI, &zero, x));
        cmp.judge("u:", &|| x.type_string(), lib1(Type::cast_unlikely, x), st::binary(Kind::OrI, x, &zero));
    }

    // binary
    let binary: [(&'static str, fn(Type, Type) -> Result<Type, lt::ErrorKind>, Kind); 6] = [
        ("and_v", Type::and_v, Kind::AndV),
        ("and_b", Type::and_b, Kind::AndB),
        ("or_b", Type::or_b, Kind::OrB),
        ("or_c", Type::or_c, Kind::OrC),
        ("or_d", Type::or_d, Kind::OrD),
        ("or_i", Type::or_i, Kind::OrI),
    ];
    for (i, x) in reach.iter().enumerate() {
        if i % nsh != shard {
            continue;
        }
        for y in &reach {
            for (name, f, k) in binary {
                cmp.judge(
                    name,
                    &|| format!("{},{}", x.type_string(), y.type_string()),
                    lib2(f, x, y),
                    st::binary(k, x, y),
                );
            }
            cmp.rep.nontrivial(&format!("bin:{},{}", x.type_string(), y.type_string()));
        }
    }

    // ternary: complete reachable^3
    for (i, x) in reach.iter().enumerate() {
        if i % nsh != shard {
            continue;
        }
        for y in &reach {
            for z in &reach {
                let (xl, yl, zl) = (to_lib(x), to_lib(y), to_lib(z));
                let lib = guarded(move || Type::and_or(xl, yl, zl).map_err(|e| format!("{:?}", e)));
                cmp.judge(
                    "andor",
                    &|| format!("{},{},{}", x.type_string(), y.type_string(), z.type_string()),
                    lib,
                    st::andor(x, y, z),
                );
            }
        }
        cmp.rep.nontrivial(&format!("andor:{}", x.type_string()));
    }

    // thresholds: all k <= n <= 4 over children passing the base/du filter, plus
    // every reachable type in one position (rejection side); sampled for 5..=20.
    let bdu: Vec<STy> = reach.iter().filter(|t| t.base == Base::B && t.d && t.u).cloned().collect();
    let wdu: Vec<STy> = reach.iter().filter(|t| t.base == Base::W && t.d && t.u).cloned().collect();
    cmp.rep.add("thresh-Bdu-types", bdu.len() as u64);
    cmp.rep.add("thresh-Wdu-types", wdu.len() as u64);
    let max_n_full = if cfg.tier == Tier::Thorough { 4 } else { 3 };
    let thresh_judge = |cmp: &mut Cmp, k: usize, subs: &[STy]| {
        let ls: Vec<Type> = subs.iter().map(to_lib).collect();
        let lib = guarded(move || Type::threshold(k, ls.iter()).map_err(|e| format!("{:?}", e)));
        cmp.judge(
            "thresh",
            &|| {
                format!(
                    "k={},{}",
                    k,
                    subs.iter().map(|t| t.type_string()).collect::<Vec<_>>().join(",")
                )
            },
            lib,
            st::thresh(k, subs),
        );
    };
    for (i, x) in bdu.iter().enumerate() {
        if i % nsh != shard {
            continue;
        }
        thresh_judge(&mut cmp, 1, &[*x]);
        for y in &wdu {
            for k in 1..=2 {
                thresh_judge(&mut cmp, k, &[*x, *y]);
            }
            for z in &wdu {
                for k in 1..=3 {
                    thresh_judge(&mut cmp, k, &[*x, *y, *z]);
                }
                if max_n_full >= 4 {
                    for w in &wdu {
                        for k in 1..=4 {
                            thresh_judge(&mut cmp, k, &[*x, *y, *z, *w]);
                        }
                    }
                }
            }
        }
        cmp.rep.nontrivial(&format!("thresh:{}", x.type_string()));
    }
    // rejection side: any reachable type in one position of an otherwise valid 3-threshold
    if !bdu.is_empty() && !wdu.is_empty() {
        for (i, bad) in reach.iter().enumerate() {
            if i % nsh != shard {
                continue;
            }
            for pos in 0..3 {
                let mut subs = vec![bdu[i % bdu.len()], wdu[i % wdu.len()], wdu[(i / 2) % wdu.len()]];
                subs[pos] = *bad;
                for k in 1..=3 {
                    thresh_judge(&mut cmp, k, &subs);
                }
            }
        }
        // sampled wide thresholds
        let mut rng = cfg.case_rng(0x7000);
        let n_wide = if cfg.tier == Tier::Thorough { 20_000 } else { 2_000 };
        for _ in 0..n_wide {
            let n = rng.range(4, 20);
            let k = rng.range(1, n);
            let mut subs = vec![*rng.pick(&bdu)];
            for _ in 1..n {
                subs.push(*rng.pick(&wdu));
            }
            thresh_judge(&mut cmp, k, &subs);
        }
    }

    // Part B: dispatch through the parser / from_ast on generated fragments
    let total = cfg.n_cases(6_000, 120_000);
    for i in cfg.cases(total) {
        let mut rng = cfg.case_rng(i);
        let cx = Cx::ALL[rng.below(4)];
        let mut gc = GenCfg::new(cx, if cfg.tier == Tier::Thorough { 24 } else { 10 });
        gc.chaos_pct = if rng.coin() { 15 } else { 0 };
        gc.repeat_keys = true;
        let budget = 1 + rng.below(gc.max_nodes);
        let want = *rng.pick(&[Base::B, Base::B, Base::V, Base::K, Base::W]);
        let frag = {
            let mut g = Gen::new(&mut rng, gc);
            g.gen(want, budget)
        };
        dispatch_case(cx, &frag, cmp.rep, i);
    }
    // Part C: the leaf constructors (used by the parser and the script decoder instead of the
    // rule dispatcher) must label their fragment exactly as the dispatcher does
    constructors_case::<BareCtx>(cmp.rep, "bare");
    constructors_case::<Legacy>(cmp.rep, "legacy");
    constructors_case::<Segwitv0>(cmp.rep, "segwitv0");
    constructors_case::<Tap>(cmp.rep, "tap");
    if cmp.rep.samples.is_empty() {
        cmp.rep.sample(format!(
            "reachable types: {} e.g. {}",
            reach.len(),
            reach.iter().take(12).map(|t| t.type_string()).collect::<Vec<_>>().join(" ")
        ));
    }
}

fn constructors_case<Ctx: ScriptContext>(rep: &mut Report, cx: &str) {
    use miniscript::bitcoin::hashes::{hash160, Hash};
    use miniscript::miniscript::types::ExtData;
    use miniscript::{AbsLockTime, RelLockTime, Threshold};
    let k = |n: usize| format!("K{}", n);
    let h32 = "aa".repeat(32);
    let h20 = "bb".repeat(20);
    let mut items: Vec<(&str, Miniscript<String, Ctx>)> = vec![
        ("TRUE", Miniscript::TRUE),
        ("FALSE", Miniscript::FALSE),
        ("pk_k", Miniscript::pk_k(k(1))),
        ("pk_h", Miniscript::pk_h(k(1))),
        ("expr_raw_pkh", Miniscript::expr_raw_pkh(hash160::Hash::from_byte_array([7; 20]))),
        ("sha256", Miniscript::sha256(h32.clone())),
        ("hash256", Miniscript::hash256(h32.clone())),
        ("ripemd160", Miniscript::ripemd160(h20.clone())),
        ("hash160", Miniscript::hash160(h20.clone())),
    ];
    for v in [1u32, 16, 17, 65_535, 65_536, 499_999_999, 500_000_000, 0x7fff_ffff] {
        if let Ok(t) = AbsLockTime::from_consensus(v) {
            items.push(("after", Miniscript::after(t)));
        }
        if let Ok(t) = RelLockTime::from_consensus(v) {
            items.push(("older", Miniscript::older(t)));
        }
    }
    for (kk, n) in [(1usize, 1usize), (1, 2), (2, 3), (3, 3), (1, 20), (20, 20)] {
        let keys: Vec<String> = (0..n).map(k).collect();
        if let Ok(t) = Threshold::<String, 20>::new(kk, keys.clone()) {
            items.push(("multi", Miniscript::multi(t.clone())));
            items.push(("sortedmulti", Miniscript::sortedmulti(t)));
        }
        if let Ok(t) = Threshold::<String, 999>::new(kk, keys) {
            items.push(("multi_a", Miniscript::multi_a(t.clone())));
            items.push(("sortedmulti_a", Miniscript::sortedmulti_a(t)));
        }
    }
    for (name, ms) in items {
        rep.eval();
        let r = guarded(std::panic::AssertUnwindSafe(|| (Type::type_check(&ms.node).ok(), ExtData::type_check(&ms.node))));
        match r {
            Err(m) => rep.violation(0, format!("C05:panic:type_check:{}", norm_loc(&last_panic_loc())), format!("type_check panicked ({}) on the node built by Miniscript::{} [{}]", m, name, cx)),
            Ok((Some(t), e)) => {
                if t != ms.ty {
                    rep.violation(
                        0,
                        format!("C05:constructor-type-differs:{}", name),
                        format!("Miniscript::{} [{}] labels {} as {} but the rule dispatcher gives {}", name, cx, ms, from_lib(&ms.ty).type_string(), from_lib(&t).type_string()),
                    );
                } else if e != ms.ext {
                    rep.violation(0, format!("C05:constructor-extdata-differs:{}", name), format!("Miniscript::{} [{}] on {}: {:?} vs the dispatcher's {:?}", name, cx, ms, ms.ext, e));
                } else {
                    rep.count("constructor-labels-equal-dispatcher");
                    rep.nontrivial(&format!("ctor|{}|{}|{}", cx, name, ms));
                }
            }
            Ok((None, _)) => rep.count("constructor-node-rejected-by-dispatcher"),
        }
    }
}

fn dispatch_case(cx: Cx, frag: &Frag, rep: &mut Report, case: u64) {
    match cx {
        Cx::Bare => dispatch_ctx::<BareCtx>(cx, frag, rep, case),
        Cx::Legacy => dispatch_ctx::<Legacy>(cx, frag, rep, case),
        Cx::Segwitv0 => dispatch_ctx::<Segwitv0>(cx, frag, rep, case),
        Cx::Tap => dispatch_ctx::<Tap>(cx, frag, rep, case),
    }
}

fn dispatch_ctx<Ctx: ScriptContext>(cx: Cx, frag: &Frag, rep: &mut Report, case: u64) {
    rep.eval();
    let s = frag.to_string_with(&AbstractNames);
    let spec = frag.spec_type(false);
    let s2 = s.clone();
    let r = guarded(move || {
        Miniscript::<String, Ctx>::from_str_with_validation_params(&s2, &ValidationParams::MAX)
    });
    let lib = match r {
        Err(msg) => {
            let loc = norm_loc(&last_panic_loc());
            rep.violation(
                case,
                format!("C05:panic:from_str:{}", loc),
                format!("from_str panicked ({}) on {} [{}]", msg, s, cx.name()),
            );
            return;
        }
        Ok(r) => r,
    };
    match (lib, spec) {
        (Err(_), Err(_)) => rep.count("dispatch:both-reject"),
        (Ok(ms), Err(e)) => rep.violation(
            case,
            format!("C05:dispatch-accepts-ill-typed:{}", frag.name()),
            format!("{} [{}] accepted with type {} but ill-typed per specification: {}", s, cx.name(), from_lib(&ms.ty).type_string(), e),
        ),
        (Err(e), Ok(t)) => {
            // the parser may reject for non-typing reasons (resource limits of the context)
            let es = format!("{:?}", e);
            if es.contains("TypeCheck") || es.contains("ErrorKind") {
                rep.violation(
                    case,
                    format!("C05:dispatch-rejects-well-typed:{}", frag.name()),
                    format!("{} [{}] rejected ({}) but well-typed per specification: {}", s, cx.name(), e, t.type_string()),
                );
            } else {
                rep.count("dispatch:rejected-nontyping");
            }
        }
        (Ok(ms), Ok(_)) => {
            rep.count("dispatch:both-accept");
            rep.nontrivial(&format!("{}|{}", cx.name(), s));
            // per-node comparison, pre-order on both sides
            let mut nodes: Vec<&Frag> = vec![];
            frag.walk(&mut |n| nodes.push(n));
            let lib_nodes: Vec<&Miniscript<String, Ctx>> = ms.pre_order_iter().collect();
            if nodes.len() != lib_nodes.len() {
                rep.violation(
                    case,
                    "C05:dispatch-shape".to_string(),
                    format!("{}: parsed tree has {} nodes, generator tree {}", s, lib_nodes.len(), nodes.len()),
                );
                return;
            }
            for (f, l) in nodes.iter().zip(lib_nodes.iter()) {
                let st = match f.spec_type(false) {
                    Ok(t) => t,
                    Err(_) => continue,
                };
                let lt_ = from_lib(&l.ty);
                rep.count(&format!("node:{}", f.name()));
                if lt_.base != st.base {
                    rep.violation(
                        case,
                        format!("C05:dispatch-base:{}", f.name()),
                        format!("node {} of {}: library base {:?}, specification {:?}", f.to_string_with(&AbstractNames), s, lt_.base, st.base),
                    );
                    continue;
                }
                for ((c, lv), (_, sv)) in props(&lt_).iter().zip(props(&st).iter()) {
                    if *lv && !*sv {
                        rep.violation(
                            case,
                            format!("C05:dispatch-stronger:{}:{}", f.name(), c),
                            format!(
                                "node {} [{}]: library type {} claims '{}', specification type {}",
                                f.to_string_with(&AbstractNames), cx.name(), lt_.type_string(), c, st.type_string()
                            ),
                        );
                    }
                }
            }
        }
    }
}
