#![allow(deprecated)]
//! C11: no input can crash or hang the library.
//!
//! Process-level monitor. Every library call on hostile input runs under `catch_unwind`
//! (panic => violation), is timed on the thread CPU clock (bound 2 s + 1 ms per input byte,
//! confirmed by a second run) and metered by the counting allocator (bound 64 MiB + 4 KiB per
//! input byte). What escapes `catch_unwind` - stack overflow, abort, allocation failure, an
//! endless loop - is caught from outside: the case about to run is written to a file, a
//! watchdog thread reports a case that never returns, and the driver turns a dead worker into
//! a violation carrying that input, then restarts the shard behind it.

use std::str::FromStr;

use miniscript::bitcoin;
use miniscript::descriptor::{DescriptorSecretKey, WalletPolicy};
use miniscript::plan::Assets as LibAssets;
use miniscript::policy::{Concrete, Liftable, Semantic};
use miniscript::psbt::PsbtExt;
use miniscript::{
    BareCtx, DefiniteDescriptorKey, Descriptor, DescriptorPublicKey, Interpreter, Legacy, Miniscript, ScriptContext, Segwitv0, Tap,
    ValidationParams,
};

use bitcoin::hashes::Hash;
use bitcoin::psbt::Psbt;
use bitcoin::secp256k1::XOnlyPublicKey;
use bitcoin::{absolute, ScriptBuf, Sequence, Witness};

use super::c01::case_cfg;
use super::{guarded, last_panic_loc, norm_loc, Report, RunCfg, Tier};
use crate::frag::{AbstractNames, Cx, Gen, GenCfg};
use crate::oracle::spec_types::Base;
use crate::pol::{AbstractPolNames, PolGen, PolGenCfg};
use crate::prng::Rng;
use crate::procmon;
use crate::satcase::*;
use crate::target::Target;
use crate::world::{hex, unhex, Assets, Spend, World};

pub const ENTRY_POINTS: &str = "Descriptor<String|DescriptorPublicKey|DefiniteDescriptorKey|bitcoin::PublicKey>::from_str, Descriptor::parse_descriptor, \
Miniscript<String,{Bare,Legacy,Segwitv0,Tap}>::from_str/from_str_insane/from_str_with_validation_params(MAX), Miniscript<PublicKey,Segwitv0>, Miniscript<XOnlyPublicKey,Tap>, \
Concrete<String>, Semantic<String>, DescriptorPublicKey, DescriptorSecretKey, DefiniteDescriptorKey, WalletPolicy, expression::Tree, verify_checksum; \
Miniscript::decode/decode_consensus/decode_with_validation_params(MAX) in 4 contexts; Interpreter::from_txdata + iter + iter_assume_sigs + inferred_descriptor; \
PsbtExt::{update_input_with_descriptor, update_output_with_descriptor, finalize_mut, finalize_mall_mut, finalize_inp_mut, finalize_inp_mall_mut, sighash_msg, extract}, Psbt::deserialize; \
Descriptor::into_plan(_mall) + Plan::{satisfy, update_psbt_input, sizes}; policy compiler entry points; follow-up calls on every accepted object";

struct Mon<'a> {
    rep: &'a mut Report,
    case: u64,
    family: &'static str,
    input: String,
    input_len: usize,
    slow_judged: bool,
}

impl<'a> Mon<'a> {
    fn begin(rep: &'a mut Report, case: u64, family: &'static str, input: String, input_len: usize) -> Mon<'a> {
        procmon::begin_case(case, family, &input);
        rep.eval();
        Mon { rep, case, family, input, input_len, slow_judged: true }
    }

    /// One monitored library call. `f` may be run twice (slow results are confirmed).
    fn probe<T>(&mut self, entry: &str, f: &dyn Fn() -> T) -> Option<T> {
        let mark = procmon::alloc_mark();
        let t0 = procmon::thread_cpu_ns();
        let r = guarded(std::panic::AssertUnwindSafe(f));
        let dt = procmon::thread_cpu_ns() - t0;
        let peak = procmon::alloc_peak_above(mark);
        self.rep.count("library-calls");
        self.rep.max("max:call-cpu-us", dt / 1000);
        self.rep.max("max:call-peak-alloc-KiB", (peak / 1024) as u64);
        let shown = || {
            let s: String = self.input.chars().take(3000).collect();
            if self.input.len() > 3000 {
                format!("{}... ({} bytes)", s, self.input.len())
            } else {
                s
            }
        };
        let cpu_bound = 2_000_000_000u64 + 1_000_000 * self.input_len as u64;
        let alloc_bound = (64usize << 20) + 4096 * self.input_len;
        if peak > alloc_bound {
            self.rep.violation(
                self.case,
                format!("C11:allocation:{}:{}", self.family, entry),
                format!("{} allocated {} bytes above its starting point (bound {} for a {}-byte input) on: {}", entry, peak, alloc_bound, self.input_len, shown()),
            );
        }
        if dt > cpu_bound && self.slow_judged {
            // confirm on a second run: the minimum of two CPU-time measurements decides
            let t1 = procmon::thread_cpu_ns();
            let _ = guarded(std::panic::AssertUnwindSafe(f));
            let dt2 = procmon::thread_cpu_ns() - t1;
            if dt2.min(dt) > cpu_bound {
                self.rep.violation(
                    self.case,
                    format!("C11:cpu-time:{}:{}", self.family, entry),
                    format!("{} took {} ms and {} ms of CPU (bound {} ms for a {}-byte input) on: {}", entry, dt / 1_000_000, dt2 / 1_000_000, cpu_bound / 1_000_000, self.input_len, shown()),
                );
            } else {
                self.rep.inconclusive("slow-once-fast-on-rerun");
            }
        }
        match r {
            Ok(v) => Some(v),
            Err(m) => {
                self.rep.violation(
                    self.case,
                    format!("C11:panic:{}:{}:{}", self.family, entry, norm_loc(&last_panic_loc())),
                    format!("{} panicked ({}) on: {}", entry, m, shown()),
                );
                None
            }
        }
    }
}

// ------------------------------------------------------------------ strings

/// Tap trees around the depth limit: a left or right spine that ends in a complete subtree
/// ("crown") of height 0..3, so that 1, 2, 4 or 8 leaves sit at depth 125..=129. Real x-only
/// keys, so that the accepted ones reach `spend_info()` through `script_pubkey()`.
fn tap_boundary(rng: &mut Rng, world: &World) -> String {
    let total = 125 + rng.below(5);
    let h = rng.below(4);
    let left = rng.coin();
    let mut n = 0usize;
    let mut leaf = || {
        n += 1;
        format!("pk({})", world.keys[n % world.keys.len()].xonly_hex)
    };
    fn crown(h: usize, leaf: &mut dyn FnMut() -> String) -> String {
        if h == 0 {
            leaf()
        } else {
            format!("{{{},{}}}", crown(h - 1, leaf), crown(h - 1, leaf))
        }
    }
    let mut t = crown(h, &mut leaf);
    for _ in 0..total.saturating_sub(h) {
        t = if left { format!("{{{},{}}}", t, leaf()) } else { format!("{{{},{}}}", leaf(), t) };
    }
    format!("tr({},{})", world.keys[0].xonly_hex, t)
}

fn amplifier(rng: &mut Rng, world: &World) -> String {
    let n = *rng.pick(&[50usize, 200, 401, 402, 403, 404, 1000, 5000, 20_000]);
    let w = *rng.pick(&[10usize, 100, 1000, 10_000, 50_000]);
    match rng.below(18) {
        16 | 17 => tap_boundary(rng, world),
        0 => format!("{}pk(A)", "a:".repeat(n)),
        1 => format!("{}pk(A){}", "and_v(v:pk(B),".repeat(n), ")".repeat(n)),
        2 => format!("wsh({}pk(A){})", "or_i(0,".repeat(n), ")".repeat(n)),
        3 => format!("tr(A,{}pk(B){})", "{pk(C),".repeat(n.min(300)), "}".repeat(n.min(300))),
        4 => format!("thresh(1,pk(A){})", ",s:pk(B)".repeat(w)),
        5 => format!("wsh(multi(1{}))", ",A".repeat(w)),
        6 => format!("tr(A,multi_a(1{}))", ",B".repeat(w)),
        7 => format!("{}", "(".repeat(n)),
        8 => format!("pk(A{}", ")".repeat(n)),
        9 => format!("and({}pk(A){})", "and(pk(B),".repeat(n), ")".repeat(n)),
        10 => format!("thresh({},pk(A){})", w, ",pk(B)".repeat(w)),
        11 => format!("or({}pk(A){})", "or(1@pk(B),1@".repeat(n.min(2000)), ")".repeat(n.min(2000))),
        12 => format!("wsh({}:pk(A))", "asctvjnlud".repeat(n / 10 + 1)),
        13 => format!("after({})", "9".repeat(n)),
        14 => format!("[{}]A", "0/".repeat(n)),
        _ => format!("xpub661MyMwAqRbcFtXgS5sYJABqqG9YLmC4Q1Rdap9gSE8NqtwybGhePY2gZ29ESFjqJoCu1Rupje8YtGqsefD265TMg7usUDFdp6W1EGMcet8{}", "/0".repeat(n)),
    }
}

const NASTY: &[&str] = &[
    "\u{7f}", "\u{0}", "\u{e9}", "\u{20ac}", "\u{1f600}", "#", "##", "#aaaaaaaa", "(", ")", "{", "}", ",", ":", "@", "/", "*", "'", "h", "<", ">", ";", "[", "]", " ",
    "\t", "\n", "0", "-1", "4294967295", "4294967296", "2147483648", "18446744073709551616", "0x10", "+1", "01", "/*", "/**", "/<0;1>", "/<0;1>/<2;3>", "/<>", "/<0>",
    "/2147483648", "/2147483647h", "xpub", "tpub", "xprv", "@0", "@0/**", "@4294967295/<0;1>/*", "expr_raw_pkh(", "expr_raw_pk_h(", "sortedmulti(", "multi_a(", "rawtr(", "combo(",
    "addr(", "raw(", "TRIVIAL", "UNSATISFIABLE", "pk()", "()", "a:", "::", "t:", "tv:",
];

fn mutate_string(rng: &mut Rng, s: &str, donors: &[String]) -> String {
    let mut c: Vec<char> = s.chars().collect();
    let steps = 1 + rng.below(3);
    for _ in 0..steps {
        let n = c.len();
        match rng.below(13) {
            12 => {
                // give an atom (a number, a key name, a hash) children of its own
                let s2: String = c.iter().collect();
                let ends: Vec<usize> = s2
                    .char_indices()
                    .filter(|(i, ch)| (ch.is_ascii_alphanumeric()) && s2[i + ch.len_utf8()..].chars().next().map(|nx| nx == ',' || nx == ')').unwrap_or(false))
                    .map(|(i, ch)| i + ch.len_utf8())
                    .collect();
                if !ends.is_empty() {
                    let at = *rng.pick(&ends);
                    let kids = *rng.pick(&["(pk(A),pk(B))", "(1)", "()", "(pk(A))", "(2,pk(A),pk(B))", "(older(1),after(1),pk(Z))"]);
                    c = format!("{}{}{}", &s2[..at], kids, &s2[at..]).chars().collect();
                }
            }
            0 if n > 0 => {
                let i = rng.below(n);
                c.remove(i);
            }
            1 if n > 0 => {
                let i = rng.below(n);
                let x = c[i];
                c.insert(i, x);
            }
            2 if n > 0 => {
                let i = rng.below(n);
                c[i] = *rng.pick(&['(', ')', ',', ':', '{', '}', '#', '/', '*', '0', '9', 'a', 'z', 'A', '[', ']', '<', '>', ';', '@', '\'', 'h', ' ', '\u{7f}', '\u{e9}']);
            }
            3 => {
                let i = rng.below(n + 1);
                for (k, ch) in rng.pick(NASTY).chars().enumerate() {
                    c.insert((i + k).min(c.len()), ch);
                }
            }
            4 if n > 1 => {
                let i = rng.below(n);
                c.truncate(i);
            }
            5 if n > 1 => {
                let i = rng.below(n);
                c.drain(..i);
            }
            6 if n > 2 => {
                // duplicate a slice
                let i = rng.below(n - 1);
                let j = i + 1 + rng.below((n - i - 1).min(40));
                let sl: Vec<char> = c[i..j].to_vec();
                let at = rng.below(n);
                for (k, ch) in sl.into_iter().enumerate() {
                    c.insert(at + k, ch);
                }
            }
            7 if !donors.is_empty() => {
                // splice a piece of another valid string
                let d: Vec<char> = rng.pick(donors).chars().collect();
                if d.len() > 2 {
                    let i = rng.below(d.len() - 1);
                    let j = i + 1 + rng.below((d.len() - i - 1).min(60));
                    let at = rng.below(n + 1);
                    for (k, ch) in d[i..j].iter().enumerate() {
                        c.insert(at + k, *ch);
                    }
                }
            }
            8 if n > 0 => {
                // swap two characters
                let (i, j) = (rng.below(n), rng.below(n));
                c.swap(i, j);
            }
            9 => {
                // replace a number
                let s2: String = c.iter().collect();
                if let Some(pos) = s2.find(|ch: char| ch.is_ascii_digit()) {
                    let end = s2[pos..].find(|ch: char| !ch.is_ascii_digit()).map(|e| pos + e).unwrap_or(s2.len());
                    let rep = *rng.pick(&["0", "1", "21", "4294967295", "4294967296", "2147483648", "500000000", "65536", "99999999999999999999", "00", "-1"]);
                    c = format!("{}{}{}", &s2[..pos], rep, &s2[end..]).chars().collect();
                }
            }
            10 => {
                // checksum-shaped suffix
                for ch in format!("#{}", (0..8).map(|_| *rng.pick(&['q', 'p', 'z', 'a', '0', '7', 'l', '\u{7f}'])).collect::<String>()).chars() {
                    c.push(ch);
                }
            }
            _ => {
                let i = rng.below(n + 1);
                c.insert(i, *rng.pick(&['(', ')', ',', '{', '}']));
            }
        }
    }
    c.into_iter().collect()
}

fn follow_desc<Pk: miniscript::MiniscriptKey + FromStr>(m: &mut Mon, kind: &str, d: &Descriptor<Pk>) {
    m.probe(&format!("{}::to_string", kind), &|| d.to_string());
        m.probe(&format!("{}::max_weight_to_satisfy", kind), &|| d.max_weight_to_satisfy().ok());
    m.probe(&format!("{}::lift", kind), &|| d.lift().map(|p| p.to_string()).ok());
    m.probe(&format!("{}::desc_type", kind), &|| d.desc_type());
}

fn follow_ms<Pk: miniscript::MiniscriptKey, Ctx: ScriptContext>(m: &mut Mon, kind: &str, ms: &Miniscript<Pk, Ctx>) {
    m.probe(&format!("{}::to_string", kind), &|| ms.to_string());
        m.probe(&format!("{}::lift", kind), &|| ms.lift().map(|p| p.to_string()).ok());
    m.probe(&format!("{}::script_size", kind), &|| ms.script_size());
    m.probe(&format!("{}::max_satisfaction", kind), &|| (ms.max_satisfaction_witness_elements().ok(), ms.max_satisfaction_size().ok()));
    m.probe(&format!("{}::validate(MAX,SANE)", kind), &|| (ms.validate(&ValidationParams::MAX).is_ok(), ms.validate(&Ctx::SANE).is_ok()));
    m.probe(&format!("{}::eq-cmp", kind), &|| (ms == ms, ms.cmp(ms)));
}

fn ms_string_entries<Ctx: ScriptContext>(m: &mut Mon, cx: &str, s: &str) -> bool {
    let mut any = false;
    if let Some(Ok(ms)) = m.probe(&format!("Miniscript<String,{}>::from_str", cx), &|| Miniscript::<String, Ctx>::from_str(s)) {
        follow_ms(m, &format!("Miniscript<String,{}>", cx), &ms);
        any = true;
    }
    if let Some(Ok(ms)) = m.probe(&format!("Miniscript<String,{}>::from_str_insane", cx), &|| Miniscript::<String, Ctx>::from_str_insane(s)) {
        follow_ms(m, &format!("Miniscript<String,{}>", cx), &ms);
        any = true;
    }
    if let Some(Ok(ms)) = m.probe(&format!("Miniscript<String,{}>::from_str_with_validation_params(MAX)", cx), &|| {
        Miniscript::<String, Ctx>::from_str_with_validation_params(s, &ValidationParams::MAX)
    }) {
        follow_ms(m, &format!("Miniscript<String,{}>", cx), &ms);
        any = true;
    }
    any
}

fn string_case(cfg: &RunCfg, rep: &mut Report, world: &World, i: u64) {
    let mut rng = cfg.case_rng(i);
    let max_nodes = if cfg.tier == Tier::Thorough { 20 } else { 9 };
    // --- base strings of every text-bearing type
    let mut keygen = |rng: &mut Rng, cx: Cx| -> String {
        match rng.below(6) {
            0 => world.gen_xkey(rng, true, true, true).text,
            1 => world.gen_xkey(rng, false, false, false).text,
            2 => world.gen_xkey(rng, true, false, false).secret_text.unwrap_or_default(),
            _ => {
                let k = rng.pick(&world.keys);
                if cx == Cx::Tap {
                    k.xonly_hex.clone()
                } else if rng.chance(1, 5) && cx == Cx::Legacy {
                    k.uncompressed_hex.clone()
                } else {
                    k.compressed_hex.clone()
                }
            }
        }
    };
    let mut donors: Vec<String> = super::c10::desc_strings(&mut rng, world, &mut keygen, max_nodes);
    let cx = Cx::ALL[rng.below(4)];
    let frag = {
        let mut gc = GenCfg::new(cx, max_nodes);
        gc.repeat_keys = true;
        if rng.chance(1, 3) {
            gc.chaos_pct = 25;
        }
        let budget = 1 + rng.below(max_nodes);
        let want = *rng.pick(&[Base::B, Base::B, Base::V, Base::K, Base::W]);
        let mut g = Gen::new(&mut rng, gc);
        g.gen(want, budget)
    };
    donors.push(frag.to_string_with(&AbstractNames));
    donors.push(frag.to_string_sugared(world));
    let pcfg = PolGenCfg {
        max_leaves: 8,
        n_keys: 8,
        n_hash: 2,
        concrete: rng.coin(),
        constants: rng.chance(1, 4),
        repeat_atoms: rng.coin(),
        timelocks: true,
        hashes: true,
        max_depth: 5,
        timelock_heavy: rng.chance(1, 5),
    };
    let conc = pcfg.concrete;
    let leaves = 1 + rng.below(8);
    let p = PolGen::new(&mut rng, pcfg).gen(leaves, 0);
    donors.push(if conc { p.concrete(&AbstractPolNames) } else { p.semantic(&AbstractPolNames) });
    donors.push(world.gen_xkey(&mut rng, true, true, true).text);
    donors.push(world.gen_xkey(&mut rng, true, true, true).secret_text.unwrap_or_default());
    donors.push(format!("wsh(sortedmulti(2,@0/**,@1/<2;3>/*,@2/**))"));
    let s = match rng.below(10) {
        0 => amplifier(&mut rng, world),
        1 => rng.pick(&donors).clone(),
        _ => {
            let base = rng.pick(&donors).clone();
            mutate_string(&mut rng, &base, &donors)
        }
    };
    let s = s.as_str();
    let mut m = Mon::begin(rep, i, "string", s.to_string(), s.len());
    let mut accepted = 0;
    // descriptors
    if let Some(Ok(d)) = m.probe("Descriptor<String>::from_str", &|| Descriptor::<String>::from_str(s)) {
        follow_desc(&mut m, "Descriptor<String>", &d);
        accepted += 1;
    }
    if let Some(Ok(d)) = m.probe("Descriptor<DescriptorPublicKey>::from_str", &|| Descriptor::<DescriptorPublicKey>::from_str(s)) {
        follow_desc(&mut m, "Descriptor<DescriptorPublicKey>", &d);
        m.probe("Descriptor<DescriptorPublicKey>::derivation-api", &|| {
            let single = d.clone().into_single_descriptors().ok();
            let at = d.at_derivation_index(*[0u32, 1, 0x7fff_ffff, 0x8000_0000].get(d.to_string().len() % 4).unwrap()).ok();
            let spk = at.as_ref().map(|x| x.script_pubkey());
            let addr = at.as_ref().and_then(|x| x.address(bitcoin::Network::Bitcoin).ok());
            (d.has_wildcard(), d.is_multipath(), single.map(|v| v.len()), spk, addr)
        });
        m.probe("Descriptor<DescriptorPublicKey>::find_derivation_index_for_spk", &|| {
            d.find_derivation_index_for_spk(&world.secp, &ScriptBuf::from_bytes(vec![0x51]), 0..3).ok()
        });
        accepted += 1;
    }
    if let Some(Ok(d)) = m.probe("Descriptor<DefiniteDescriptorKey>::from_str", &|| Descriptor::<DefiniteDescriptorKey>::from_str(s)) {
        follow_desc(&mut m, "Descriptor<DefiniteDescriptorKey>", &d);
        m.probe("Descriptor<DefiniteDescriptorKey>::scripts", &|| (d.script_pubkey(), d.explicit_script().ok(), d.script_code().ok(), d.unsigned_script_sig()));
        m.probe("Descriptor<DefiniteDescriptorKey>::into_plan(empty assets)", &|| d.clone().into_plan(&LibAssets::new()).is_ok());
        accepted += 1;
    }
    if let Some(Ok(d)) = m.probe("Descriptor<bitcoin::PublicKey>::from_str", &|| Descriptor::<bitcoin::PublicKey>::from_str(s)) {
        follow_desc(&mut m, "Descriptor<bitcoin::PublicKey>", &d);
        accepted += 1;
    }
    if let Some(Ok((d, km))) = m.probe("Descriptor::parse_descriptor", &|| Descriptor::parse_descriptor(&world.secp, s)) {
        m.probe("Descriptor::to_string_with_secret", &|| d.to_string_with_secret(&km));
        accepted += 1;
    }
    // miniscripts
    let mut any_ms = false;
    any_ms |= ms_string_entries::<BareCtx>(&mut m, "Bare", s);
    any_ms |= ms_string_entries::<Legacy>(&mut m, "Legacy", s);
    any_ms |= ms_string_entries::<Segwitv0>(&mut m, "Segwitv0", s);
    any_ms |= ms_string_entries::<Tap>(&mut m, "Tap", s);
    if let Some(Ok(ms)) = m.probe("Miniscript<bitcoin::PublicKey,Segwitv0>::from_str_insane", &|| Miniscript::<bitcoin::PublicKey, Segwitv0>::from_str_insane(s)) {
        follow_ms(&mut m, "Miniscript<bitcoin::PublicKey,Segwitv0>", &ms);
        m.probe("Miniscript<bitcoin::PublicKey,Segwitv0>::encode+decode", &|| Miniscript::<bitcoin::PublicKey, Segwitv0>::decode_consensus(&ms.encode()).is_ok());
        any_ms = true;
    }
    if let Some(Ok(ms)) = m.probe("Miniscript<XOnlyPublicKey,Tap>::from_str_insane", &|| Miniscript::<XOnlyPublicKey, Tap>::from_str_insane(s)) {
        follow_ms(&mut m, "Miniscript<XOnlyPublicKey,Tap>", &ms);
        m.probe("Miniscript<XOnlyPublicKey,Tap>::encode+decode", &|| Miniscript::<XOnlyPublicKey, Tap>::decode_consensus(&ms.encode()).is_ok());
        any_ms = true;
    }
    if any_ms {
        accepted += 1;
    }
    // policies
    if let Some(Ok(p)) = m.probe("Concrete<String>::from_str", &|| Concrete::<String>::from_str(s)) {
        m.probe("Concrete::to_string", &|| p.to_string());
        m.probe("Concrete::is_valid+lift", &|| (p.is_valid().is_ok(), p.lift().map(|x| x.to_string()).ok()));
        m.probe("Concrete::is_safe_nonmalleable", &|| p.is_safe_nonmalleable());
        // compilation is bounded by policy size: its cost is not part of the property, panics are
        if p.to_string().len() < 400 {
            m.slow_judged = false;
            m.probe("Concrete::compile<Segwitv0>", &|| p.compile::<Segwitv0>().map(|x| x.to_string()).ok());
            m.probe("Concrete::compile<Tap>", &|| p.compile::<Tap>().map(|x| x.to_string()).ok());
            m.probe("Concrete::compile_tr", &|| p.compile_tr(Some("UNSPENDABLE".to_string())).map(|x| x.to_string()).ok());
            m.slow_judged = true;
        }
        accepted += 1;
    }
    if let Some(Ok(p)) = m.probe("Semantic<String>::from_str", &|| Semantic::<String>::from_str(s)) {
        m.probe("Semantic::to_string", &|| p.to_string());
        if p.to_string().len() < 600 {
            m.slow_judged = false;
            m.probe("Semantic::normalized", &|| p.clone().normalized().to_string());
            m.probe("Semantic::n_keys+minimum_n_keys", &|| (p.n_keys(), p.minimum_n_keys()));
            m.probe("Semantic::timelocks+at_age", &|| {
                (p.relative_timelocks(), p.absolute_timelocks(), p.clone().at_age(bitcoin::relative::LockTime::from_height(10)).to_string())
            });
            m.probe("Semantic::entails(self)", &|| p.clone().entails(p.clone()));
            m.probe("Semantic::is_trivial+is_unsatisfiable", &|| (p.is_trivial(), p.is_unsatisfiable()));
            m.slow_judged = true;
        }
        accepted += 1;
    }
    // keys
    if let Some(Ok(k)) = m.probe("DescriptorPublicKey::from_str", &|| DescriptorPublicKey::from_str(s)) {
        m.probe("DescriptorPublicKey::api", &|| {
            (
                k.to_string(),
                k.master_fingerprint(),
                k.full_derivation_path(),
                k.full_derivation_paths(),
                k.has_wildcard(),
                k.is_multipath(),
                k.clone().into_single_keys().len(),
                k.clone().at_derivation_index(5).map(|d| d.to_string()).ok(),
                k.clone().at_derivation_index(0x8000_0000).is_ok(),
            )
        });
        accepted += 1;
    }
    if let Some(Ok(k)) = m.probe("DescriptorSecretKey::from_str", &|| DescriptorSecretKey::from_str(s)) {
        m.probe("DescriptorSecretKey::api", &|| (k.to_string().len(), k.to_public(&world.secp).map(|p| p.to_string()).ok(), k.is_multipath(), k.clone().into_single_keys().len()));
        accepted += 1;
    }
    if let Some(Ok(k)) = m.probe("DefiniteDescriptorKey::from_str", &|| DefiniteDescriptorKey::from_str(s)) {
        m.probe("DefiniteDescriptorKey::api", &|| (k.to_string(), k.derive_public_key(&world.secp).to_string(), k.master_fingerprint(), k.full_derivation_path()));
        accepted += 1;
    }
    if let Some(Ok(w)) = m.probe("WalletPolicy::from_str", &|| WalletPolicy::from_str(s)) {
        m.probe("WalletPolicy::to_string", &|| w.to_string());
        accepted += 1;
    }
    if let Some(Ok(t)) = m.probe("expression::Tree::from_str", &|| miniscript::expression::Tree::from_str(s).map(|t| t.root().n_children())) {
        let _ = t;
        accepted += 1;
    }
    m.probe("verify_checksum", &|| miniscript::descriptor::checksum::verify_checksum(s).is_ok());
    if accepted > 0 {
        rep.nontrivial(&format!("str|{}", s));
        rep.count("strings-accepted-by-some-parser");
    } else {
        rep.count("strings-rejected-by-all-parsers");
    }
}

// ------------------------------------------------------------------ scripts

fn script_amplifier(rng: &mut Rng) -> Vec<u8> {
    let n = *rng.pick(&[100usize, 201, 402, 1000, 5000, 10_001]);
    if rng.chance(1, 3) {
        // attacker-chosen counts in front of NUMEQUAL / CHECKMULTISIG / EQUAL: five bytes of script
        // must not buy megabytes of memory
        let big = *rng.pick(&[21i64, 999, 1000, 65_535, 8_388_607, 0x7fff_ffff, 0x7fff_ffff_ff]);
        let num = crate::refvm::script::num_encode(big);
        let mut s = vec![];
        let key = [2u8; 32];
        match rng.below(5) {
            0 => {
                crate::refvm::script::push_minimal(&mut s, &num);
                s.push(0x9c);
            }
            1 => {
                crate::refvm::script::push_minimal(&mut s, &key);
                s.push(0xac);
                crate::refvm::script::push_minimal(&mut s, &key);
                s.push(0xba);
                crate::refvm::script::push_minimal(&mut s, &num);
                s.push(0x9c);
            }
            2 => {
                s.push(0x51);
                crate::refvm::script::push_minimal(&mut s, &[3u8; 33]);
                crate::refvm::script::push_minimal(&mut s, &num);
                s.push(0xae);
            }
            3 => {
                crate::refvm::script::push_minimal(&mut s, &num);
                crate::refvm::script::push_minimal(&mut s, &[3u8; 33]);
                s.push(0x51);
                s.push(0xae);
            }
            _ => {
                // thresh-like tail: <pk> CHECKSIG <huge k> EQUAL
                crate::refvm::script::push_minimal(&mut s, &[3u8; 33]);
                s.push(0xac);
                crate::refvm::script::push_minimal(&mut s, &num);
                s.push(0x87);
            }
        }
        return s;
    }
    match rng.below(8) {
        0 => [vec![0x63u8; n], vec![0x68u8; n]].concat(),              // IF^n ENDIF^n
        1 => [vec![0x6bu8; n], vec![0x51], vec![0x6cu8; n]].concat(), // TOALTSTACK^n 1 FROMALTSTACK^n
        2 => (0..n).flat_map(|_| vec![0x00u8, 0x9b]).collect(),        // (0 BOOLOR)^n
        3 => [vec![0x51u8], (0..n).flat_map(|_| vec![0x51u8, 0x9a]).collect::<Vec<u8>>()].concat(), // 1 (1 BOOLAND)^n
        4 => [vec![0x4e, 0xff, 0xff, 0xff, 0xff], vec![0u8; 40]].concat(), // PUSHDATA4 with a lying length
        5 => [vec![0x4d, 0xff, 0xff], vec![0u8; n]].concat(),
        6 => (0..n).flat_map(|_| vec![0x82u8, 0x92, 0x63]).chain(std::iter::repeat(0x68u8).take(n)).collect(), // (SIZE 0NOTEQUAL IF)^n ENDIF^n
        _ => [vec![0x51u8], (0..n).flat_map(|_| vec![0x20u8].into_iter().chain([7u8; 32])).collect::<Vec<u8>>(), vec![0x60, 0xae]].concat(),
    }
}

fn decode_entries<Ctx: ScriptContext>(m: &mut Mon, cx: &str, b: &[u8]) -> bool
where
    Ctx::Key: miniscript::ToPublicKey,
{
    let script = bitcoin::Script::from_bytes(b);
    let mut any = false;
    if let Some(Ok(ms)) = m.probe(&format!("Miniscript<{}>::decode", cx), &|| Miniscript::<Ctx::Key, Ctx>::decode(script)) {
        follow_ms(m, &format!("decoded<{}>", cx), &ms);
        any = true;
    }
    if let Some(Ok(ms)) = m.probe(&format!("Miniscript<{}>::decode_consensus", cx), &|| Miniscript::<Ctx::Key, Ctx>::decode_consensus(script)) {
        follow_ms(m, &format!("decoded<{}>", cx), &ms);
        m.probe(&format!("decoded<{}>::encode", cx), &|| ms.encode().len());
        any = true;
    }
    if let Some(Ok(ms)) = m.probe(&format!("Miniscript<{}>::decode_with_validation_params(MAX)", cx), &|| {
        Miniscript::<Ctx::Key, Ctx>::decode_with_validation_params(script, &ValidationParams::MAX)
    }) {
        follow_ms(m, &format!("decoded<{}>", cx), &ms);
        any = true;
    }
    any
}

fn script_case(cfg: &RunCfg, rep: &mut Report, world: &World, i: u64) {
    let mut rng = cfg.case_rng(i);
    let max_nodes = if cfg.tier == Tier::Thorough { 24 } else { 10 };
    let b: Vec<u8> = match rng.below(10) {
        0 => script_amplifier(&mut rng),
        1 | 2 => super::c04::random_script(&mut rng, world),
        3 => rbytes(&mut rng, 80),
        _ => {
            // a valid encoding, then 0-3 byte-level mutations
            let cx = Cx::ALL[rng.below(4)];
            let mut gc = GenCfg::new(cx, max_nodes);
            gc.repeat_keys = true;
            let budget = 1 + rng.below(max_nodes);
            let frag = {
                let mut g = Gen::new(&mut rng, gc);
                g.gen(Base::B, budget)
            };
            let s = frag.to_string_with(world);
            let enc = match cx {
                Cx::Tap => Miniscript::<XOnlyPublicKey, Tap>::from_str_insane(&s).ok().map(|m| m.encode().to_bytes()),
                _ => Miniscript::<bitcoin::PublicKey, Segwitv0>::from_str_with_validation_params(&s, &ValidationParams::MAX).ok().map(|m| m.encode().to_bytes()),
            };
            let mut b = enc.unwrap_or_else(|| super::c04::random_script(&mut rng, world));
            for _ in 0..rng.below(4) {
                b = super::c04::mutate_script(&mut rng, &b);
            }
            b
        }
    };
    let mut m = Mon::begin(rep, i, "script", hex(&b), b.len());
    let mut any = false;
    any |= decode_entries::<BareCtx>(&mut m, "Bare", &b);
    any |= decode_entries::<Legacy>(&mut m, "Legacy", &b);
    any |= decode_entries::<Segwitv0>(&mut m, "Segwitv0", &b);
    any |= decode_entries::<Tap>(&mut m, "Tap", &b);
    if any {
        rep.nontrivial(&format!("script|{}", hex(&b)));
        rep.count("scripts-accepted-by-some-decoder");
    } else {
        rep.count("scripts-rejected-by-all-decoders");
    }
}

// ------------------------------------------------------------------ interpreter

fn rbytes(rng: &mut Rng, max: usize) -> Vec<u8> {
    let n = rng.below(max);
    rng.bytes(n)
}

fn hostile_spk(rng: &mut Rng, good: &[u8]) -> Vec<u8> {
    match rng.below(10) {
        0 => [vec![0x51, 0x20], rng.bytes(32)].concat(),
        1 => [vec![0x00, 0x20], rng.bytes(32)].concat(),
        2 => [vec![0x00, 0x14], rng.bytes(20)].concat(),
        3 => [vec![0xa9, 0x14], rng.bytes(20), vec![0x87]].concat(),
        4 => [vec![0x76, 0xa9, 0x14], rng.bytes(20), vec![0x88, 0xac]].concat(),
        5 => {
            let mut g = good.to_vec();
            if !g.is_empty() {
                let i = rng.below(g.len());
                g[i] ^= 1 << rng.below(8);
            }
            g
        }
        6 => rbytes(rng, 40),
        7 => [vec![0x51, 0x21], rng.bytes(33)].concat(),
        8 => [vec![0x52, 0x20], rng.bytes(32)].concat(),
        _ => good.to_vec(),
    }
}

fn interpreter_case(cfg: &RunCfg, rep: &mut Report, world: &World, i: u64) {
    let mut rng = cfg.case_rng(i);
    let ccfg = case_cfg(cfg.tier);
    let case = gen_desc_case(&mut rng, world, &ccfg);
    let desc = match guarded(|| parse_desc(&case.desc)) {
        Ok(Ok(d)) => d,
        _ => return,
    };
    let target = match Target::from_descriptor(&desc) {
        Ok(t) => t,
        Err(_) => return,
    };
    let tlw = timelock_worlds(&mut rng, &case, 3);
    let (lt, seq) = *rng.pick(&tlw);
    let spend = Spend::simple(ScriptBuf::from_bytes(target.spk.clone()), lt, seq);
    let mut assets = Assets::new(world, &spend, target.ecdsa.clone());
    assets.keys = (0..world.keys.len()).collect();
    assets.pre = (0..world.pre.len()).collect();
    let sat = satisfier(&assets, &target);
    let (wit, ss): (Vec<Vec<u8>>, Vec<u8>) = match guarded(std::panic::AssertUnwindSafe(|| desc.get_satisfaction_mall(&sat))) {
        Ok(Ok((w, s))) => (w, s.to_bytes()),
        _ => (vec![], vec![]),
    };
    // hostile edits
    let mut pool: Vec<Vec<u8>> = world.all_pubkey_bytes();
    pool.extend(wit.iter().cloned());
    pool.extend([vec![], vec![0], vec![1], vec![0x80], vec![0x50], vec![0x50, 1, 2], rng.bytes(32), rng.bytes(64), rng.bytes(65), rng.bytes(73), rng.bytes(521)]);
    for n in [0usize, 1, 32, 33, 34, 64, 65, 66, 97, 33 + 32 * 128, 33 + 32 * 129] {
        let mut cb = rng.bytes(n);
        if !cb.is_empty() {
            cb[0] = *rng.pick(&[0xc0u8, 0xc1, 0xc2, 0x50, 0x00]);
        }
        pool.push(cb);
    }
    let (wit0, ss0) = (wit.clone(), ss.clone());
    let n_variants = if cfg.tier == Tier::Thorough { 24 } else { 10 };
    for variant in 0..n_variants {
    let (mut wit, mut ss) = (wit0.clone(), ss0.clone());
    let mut spk = target.spk.clone();
    let n_edits = if variant == 0 { 0 } else { 1 + rng.below(3) };
    for _ in 0..n_edits {
        match rng.below(7) {
            6 => {
                // a tiny or truncated inner script that the output really commits to (P2SH, P2WSH or
                // P2SH-P2WSH): the hash checks pass and the front end has to cope with the script
                use bitcoin::hashes::{hash160, sha256, Hash};
                let mut inner: Vec<u8> = match rng.below(12) {
                    0 => vec![0x00],
                    1 => vec![0x51],
                    2 => vec![],
                    3 => vec![0x00, 0x14],
                    4 => vec![0x00, 0x20],
                    5 => [vec![0x00, 0x14], vec![0x11; 19]].concat(),
                    6 => [vec![0x00, 0x14], vec![0x11; 20]].concat(),
                    7 => [vec![0x00, 0x20], vec![0x22; 31]].concat(),
                    8 => [vec![0x51, 0x20], vec![0x33; 32]].concat(),
                    9 => vec![0xac],
                    10 => [vec![0x21], vec![0x02; 20]].concat(),
                    _ => rbytes(&mut rng, 4),
                };
                if rng.chance(1, 6) {
                    inner.push(rng.below(256) as u8);
                }
                let p2sh = |script: &[u8]| [vec![0xa9, 0x14], hash160::Hash::hash(script).to_byte_array().to_vec(), vec![0x87]].concat();
                let p2wsh = |script: &[u8]| [vec![0x00, 0x20], sha256::Hash::hash(script).to_byte_array().to_vec()].concat();
                match rng.below(3) {
                    0 => {
                        let mut s = vec![];
                        for _ in 0..rng.below(3) {
                            crate::refvm::script::push_minimal(&mut s, &rng.pick(&pool)[..]);
                        }
                        crate::refvm::script::push_minimal(&mut s, &inner);
                        ss = s;
                        spk = p2sh(&inner);
                    }
                    1 => {
                        wit.push(inner.clone());
                        ss = vec![];
                        spk = p2wsh(&inner);
                    }
                    _ => {
                        wit.push(inner.clone());
                        let prog = p2wsh(&inner);
                        let mut s = vec![];
                        crate::refvm::script::push_minimal(&mut s, &prog);
                        ss = s;
                        spk = p2sh(&prog);
                    }
                }
            }
            0 => wit = super::c13::mutate(&mut rng, &wit, &pool),
            1 if !wit.is_empty() => {
                // drop or blank one element (the CHECKMULTISIG dummy, a signature, a branch selector)
                let k = rng.below(wit.len());
                if rng.coin() {
                    wit.remove(k);
                } else {
                    wit[k] = vec![];
                }
            }
            2 => {
                // scriptSig as raw bytes: pushes of pool items, or garbage
                ss = if rng.coin() {
                    let mut s = vec![];
                    for _ in 0..rng.below(4) {
                        crate::refvm::script::push_minimal(&mut s, &rng.pick(&pool)[..]);
                    }
                    s
                } else {
                    rbytes(&mut rng, 60)
                };
            }
            3 if !ss.is_empty() => {
                let k = rng.below(ss.len());
                ss[k] ^= 1 << rng.below(8);
            }
            4 => spk = hostile_spk(&mut rng, &target.spk),
            _ => {
                if let Some(l) = wit.last_mut() {
                    if !l.is_empty() {
                        let k = rng.below(l.len());
                        l[k] ^= 1 << rng.below(8);
                    }
                }
            }
        }
    }
    let input = format!("spk={} scriptSig={} witness=[{}] nLockTime={} nSequence={:#x}", hex(&spk), hex(&ss), wit.iter().map(|w| hex(w)).collect::<Vec<_>>().join(","), lt, seq);
    let len = spk.len() + ss.len() + wit.iter().map(|w| w.len()).sum::<usize>();
    let mut m = Mon::begin(rep, i, "interpreter", input.clone(), len);
    let spk_s = ScriptBuf::from_bytes(spk.clone());
    let ss_s = ScriptBuf::from_bytes(ss.clone());
    let w = Witness::from_slice(&wit);
    let r = m.probe("Interpreter::from_txdata+iter", &|| {
        let interp = Interpreter::from_txdata(&spk_s, &ss_s, &w, Sequence(seq), absolute::LockTime::from_consensus(lt)).ok()?;
        let prevouts = bitcoin::sighash::Prevouts::All(&spend.prevouts);
        let n_ok = interp.iter(&world.secp, &spend.tx, spend.idx, &prevouts).take_while(|x| x.is_ok()).count();
        let n_assume = interp.iter_assume_sigs().take_while(|x| x.is_ok()).count();
        let inf = interp.inferred_descriptor().map(|d| d.to_string()).ok();
        let _ = (interp.is_legacy(), interp.is_segwit_v0(), interp.is_taproot_v1_key_spend(), interp.is_taproot_v1_script_spend());
        Some((n_ok, n_assume, inf))
    });
    if let Some(Some(_)) = r {
        rep.nontrivial(&format!("interp|{}", input));
        rep.count("txdata-accepted-by-from_txdata");
    } else {
        rep.count("txdata-rejected-by-from_txdata");
    }
    }
}

// ------------------------------------------------------------------ PSBT

/// A script whose hash lock commits to the hash of a value that is NOT 32 bytes long, and a PSBT
/// that carries exactly that value as the preimage: the pair is consistent (it survives
/// serialisation, which only checks hash(value) == key), the spend is impossible, and no
/// finalizer entry point may do anything but refuse.
fn odd_preimage_case(rep: &mut Report, world: &World, rng: &mut Rng, i: u64) {
    use bitcoin::hashes::{hash160, ripemd160, sha256, sha256d, Hash};
    use bitcoin::{Transaction, TxOut};
    let len = *rng.pick(&[0usize, 1, 19, 20, 31, 33, 64, 80]);
    let v: Vec<u8> = (0..len).map(|j| (j as u8).wrapping_mul(7) ^ 0xa5).collect();
    let which = rng.below(4);
    let frag = match which {
        0 => format!("sha256({})", hex(&sha256::Hash::hash(&v).to_byte_array())),
        1 => format!("hash256({})", hex(&sha256d::Hash::hash(&v).to_byte_array())),
        2 => format!("ripemd160({})", hex(&ripemd160::Hash::hash(&v).to_byte_array())),
        _ => format!("hash160({})", hex(&hash160::Hash::hash(&v).to_byte_array())),
    };
    let kid = rng.below(world.keys.len());
    let wrap = rng.below(4);
    let key = if wrap == 3 { world.keys[kid].xonly_hex.clone() } else { world.keys[kid].compressed_hex.clone() };
    let ms = match rng.below(3) {
        0 => format!("and_v(v:pk({}),{})", key, frag),
        1 => format!("or_d(pk({}),{})", key, frag),
        _ => format!("andor({},pk({}),0)", frag, key),
    };
    let ds = match wrap {
        0 => format!("wsh({})", ms),
        1 => format!("sh(wsh({}))", ms),
        2 => format!("sh({})", ms),
        _ => format!("tr({},{})", world.keys[(kid + 1) % world.keys.len()].xonly_hex, ms),
    };
    let desc = match guarded(|| Descriptor::<DefiniteDescriptorKey>::from_str(&ds)) {
        Ok(Ok(d)) => d,
        _ => return,
    };
    let utxo = TxOut { value: bitcoin::Amount::from_sat(70_000), script_pubkey: desc.script_pubkey() };
    let prev = Transaction {
        version: bitcoin::transaction::Version(2),
        lock_time: bitcoin::absolute::LockTime::ZERO,
        input: vec![bitcoin::TxIn { previous_output: bitcoin::OutPoint::null(), script_sig: ScriptBuf::from_bytes(vec![0x01, 0x07]), sequence: bitcoin::Sequence::MAX, witness: Witness::new() }],
        output: vec![utxo.clone()],
    };
    let tx = Transaction {
        version: bitcoin::transaction::Version(2),
        lock_time: bitcoin::absolute::LockTime::ZERO,
        input: vec![bitcoin::TxIn { previous_output: bitcoin::OutPoint { txid: prev.compute_txid(), vout: 0 }, script_sig: ScriptBuf::new(), sequence: bitcoin::Sequence(0xffff_fffd), witness: Witness::new() }],
        output: vec![TxOut { value: bitcoin::Amount::from_sat(60_000), script_pubkey: ScriptBuf::from_bytes(vec![0x6a, 0x01, 0x2a]) }],
    };
    let mut psbt = match Psbt::from_unsigned_tx(tx) {
        Ok(p) => p,
        Err(_) => return,
    };
    if wrap == 2 {
        psbt.inputs[0].non_witness_utxo = Some(prev);
    } else {
        psbt.inputs[0].witness_utxo = Some(utxo);
    }
    let _ = guarded(std::panic::AssertUnwindSafe(|| psbt.update_input_with_descriptor(0, &desc).is_ok()));
    // the key signs (the library computes the message)
    if rng.chance(2, 3) {
        let secp = &world.secp;
        let mut cache = bitcoin::sighash::SighashCache::new(psbt.unsigned_tx.clone());
        if wrap == 3 {
            let leaves: Vec<_> = psbt.inputs[0].tap_scripts.values().map(|(sc, ver)| bitcoin::taproot::TapLeafHash::from_script(sc, *ver)).collect();
            for lh in leaves {
                if let Ok(Ok(msg)) = guarded(std::panic::AssertUnwindSafe(|| psbt.sighash_msg(0, &mut cache, Some(lh)).map(|m| m.to_secp_msg()))) {
                    let kp = bitcoin::secp256k1::Keypair::from_secret_key(secp, &world.keys[kid].sk);
                    let sig = secp.sign_schnorr_no_aux_rand(&msg, &kp);
                    psbt.inputs[0].tap_script_sigs.insert((world.keys[kid].xonly, lh), bitcoin::taproot::Signature { signature: sig, sighash_type: bitcoin::TapSighashType::Default });
                }
            }
        } else if let Ok(Ok(msg)) = guarded(std::panic::AssertUnwindSafe(|| psbt.sighash_msg(0, &mut cache, None).map(|m| m.to_secp_msg()))) {
            let sig = secp.sign_ecdsa(&msg, &world.keys[kid].sk);
            psbt.inputs[0].partial_sigs.insert(bitcoin::PublicKey::new(world.keys[kid].pk), bitcoin::ecdsa::Signature { signature: sig, sighash_type: bitcoin::EcdsaSighashType::All });
        }
    }
    let inp = &mut psbt.inputs[0];
    inp.sha256_preimages.insert(sha256::Hash::hash(&v), v.clone());
    inp.hash256_preimages.insert(sha256d::Hash::hash(&v), v.clone());
    inp.ripemd160_preimages.insert(ripemd160::Hash::hash(&v), v.clone());
    inp.hash160_preimages.insert(hash160::Hash::hash(&v), v.clone());
    let bytes = psbt.serialize();
    let input = format!("preimage of {} bytes for {}; psbt {}", len, ds, hex(&bytes));
    let mut m = Mon::begin(rep, i, "psbt", input, bytes.len());
    let p0 = match m.probe("Psbt::deserialize", &|| Psbt::deserialize(&bytes).ok()) {
        Some(Some(p)) => p,
        _ => {
            rep.count("psbt-odd-preimage: not deserializable");
            return;
        }
    };
    let secp = &world.secp;
    let r = m.probe("PsbtExt::finalize", &|| {
        let mut a = p0.clone();
        let mut b = p0.clone();
        let mut c = p0.clone();
        let mut d = p0.clone();
        (a.finalize_mut(secp).is_ok(), b.finalize_mall_mut(secp).is_ok(), c.finalize_inp_mut(secp, 0).is_ok(), d.finalize_inp_mall_mut(secp, 0).is_ok(), p0.clone().finalize(secp).is_ok())
    });
    rep.count(match r {
        Some((false, false, false, false, false)) => "psbt-odd-preimage: every finalizer refuses",
        Some(_) => "psbt-odd-preimage: some finalizer succeeded (no hash lock on the path)",
        None => "psbt-odd-preimage: probe failed",
    });
    rep.nontrivial(&format!("psbt-odd|{}|{}", ds, len));
    // the same spend handed to the interpreter: the odd-length value sits where the preimage
    // belongs, and its hash is the one the script commits to
    let sig: Vec<u8> = if wrap == 3 {
        p0.inputs[0].tap_script_sigs.values().next().map(|s| s.to_vec()).unwrap_or_default()
    } else {
        p0.inputs[0].partial_sigs.values().next().map(|s| s.to_vec()).unwrap_or_default()
    };
    let stack: Vec<Vec<u8>> = if ms.starts_with("and_v") {
        vec![v.clone(), sig]
    } else if ms.starts_with("or_d") {
        vec![v.clone(), vec![]]
    } else {
        vec![sig, v.clone()]
    };
    let inner_script: Vec<u8> = match &desc {
        Descriptor::Tr(t) => t.leaves().next().map(|l| l.compute_script().to_bytes()).unwrap_or_default(),
        d => d.explicit_script().map(|s| s.to_bytes()).unwrap_or_default(),
    };
    let mut wit = stack.clone();
    let mut ss: Vec<u8> = vec![];
    match wrap {
        0 => wit.push(inner_script.clone()),
        1 => {
            wit.push(inner_script.clone());
            let prog = [vec![0x00, 0x20], sha256::Hash::hash(&inner_script).to_byte_array().to_vec()].concat();
            crate::refvm::script::push_minimal(&mut ss, &prog);
        }
        2 => {
            wit.clear();
            for e in &stack {
                crate::refvm::script::push_minimal(&mut ss, e);
            }
            crate::refvm::script::push_minimal(&mut ss, &inner_script);
        }
        _ => {
            wit.push(inner_script.clone());
            if let Some(cb) = p0.inputs[0].tap_scripts.keys().next() {
                wit.push(cb.serialize());
            }
        }
    }
    let spk_s = desc.script_pubkey();
    let input2 = format!("preimage of {} bytes for {}: scriptSig={} witness=[{}]", len, ds, hex(&ss), wit.iter().map(|w| hex(w)).collect::<Vec<_>>().join(","));
    let mut m2 = Mon::begin(rep, i, "interpreter", input2, bytes.len());
    let ss_s = ScriptBuf::from_bytes(ss);
    let w = Witness::from_slice(&wit);
    let utxos = [TxOut { value: bitcoin::Amount::from_sat(70_000), script_pubkey: spk_s.clone() }];
    let r2 = m2.probe("Interpreter::from_txdata+iter", &|| {
        let interp = Interpreter::from_txdata(&spk_s, &ss_s, &w, bitcoin::Sequence(0xffff_fffd), bitcoin::absolute::LockTime::ZERO).ok()?;
        let prevouts = bitcoin::sighash::Prevouts::All(&utxos);
        let n_ok = interp.iter(&world.secp, &p0.unsigned_tx, 0, &prevouts).take_while(|x| x.is_ok()).count();
        let n_assume = interp.iter_assume_sigs().take_while(|x| x.is_ok()).count();
        Some((n_ok, n_assume))
    });
    rep.count(if matches!(r2, Some(Some(_))) { "interpreter-odd-preimage: parsed by from_txdata" } else { "interpreter-odd-preimage: refused by from_txdata" });
}

fn psbt_case(cfg: &RunCfg, rep: &mut Report, world: &World, i: u64) {
    use super::c14::{apply, build_setup, fresh_psbt, Op};
    let mut rng = cfg.case_rng(i);
    if rng.chance(1, 12) {
        odd_preimage_case(rep, world, &mut rng, i);
        return;
    }
    let s = match build_setup(&mut rng, world, cfg.tier) {
        Some(s) => s,
        None => return,
    };
    let n = s.inputs.len();
    let mut psbt = fresh_psbt(&s);
    for k in 0..n {
        if rng.chance(5, 6) {
            let _ = apply(world, &s, &mut psbt, &Op::Update(k));
        }
    }
    for k in 0..n {
        for id in s.inputs[k].case.key_ids() {
            if rng.chance(3, 4) {
                let _ = apply(world, &s, &mut psbt, &Op::AddSig(k, id));
            }
        }
        for p in s.inputs[k].case.pre_ids() {
            if rng.chance(3, 4) {
                let _ = apply(world, &s, &mut psbt, &Op::AddPre(k, p));
            }
        }
    }
    // hostile edits of the structurally valid PSBT
    let mut notes = vec![];
    let mut vout_edits: Vec<(usize, u32)> = vec![];
    let n_edits = if std::env::var("C11_NOEDIT").is_ok() { 0 } else { 1 + rng.below(4) };
    for _ in 0..n_edits {
        let k = rng.below(n);
        let donor = rng.below(n);
        let what = rng.below(25);
        notes.push(format!("{}@{}", what, k));
        let other = psbt.inputs[donor].clone();
        let inp = &mut psbt.inputs[k];
        match what {
            0 => {
                // utxo with too few outputs for the spent vout
                if let Some(t) = inp.non_witness_utxo.as_mut() {
                    t.output.truncate(rng.below(2));
                }
            }
            1 => inp.non_witness_utxo = None,
            2 => inp.witness_utxo = None,
            3 => {
                inp.witness_utxo = other.witness_utxo.clone();
                inp.non_witness_utxo = other.non_witness_utxo.clone();
            }
            4 => inp.redeem_script = Some(ScriptBuf::from_bytes(rbytes(&mut rng, 40))),
            5 => inp.witness_script = Some(ScriptBuf::from_bytes(rbytes(&mut rng, 40))),
            6 => inp.redeem_script = other.witness_script.clone().or(other.redeem_script.clone()),
            7 => inp.witness_script = other.redeem_script.clone().or(other.witness_script.clone()),
            8 => {
                // 73-byte high-S style / odd sighash / truncated signatures
                let keys: Vec<_> = inp.partial_sigs.keys().cloned().collect();
                for pk in keys {
                    if let Some(sig) = inp.partial_sigs.get_mut(&pk) {
                        match rng.below(3) {
                            0 => sig.sighash_type = *rng.pick(&[bitcoin::EcdsaSighashType::None, bitcoin::EcdsaSighashType::SinglePlusAnyoneCanPay, bitcoin::EcdsaSighashType::AllPlusAnyoneCanPay]),
                            1 => {
                                // negate s: high-S form of the same signature
                                let mut c = sig.signature.serialize_compact();
                                let order = unhex("fffffffffffffffffffffffffffffffebaaedce6af48a03bbfd25e8cd0364141").unwrap();
                                let mut borrow = 0i32;
                                let mut out = [0u8; 32];
                                for j in (0..32).rev() {
                                    let d = order[j] as i32 - c[32 + j] as i32 - borrow;
                                    out[j] = d.rem_euclid(256) as u8;
                                    borrow = if d < 0 { 1 } else { 0 };
                                }
                                c[32..].copy_from_slice(&out);
                                if let Ok(s2) = bitcoin::secp256k1::ecdsa::Signature::from_compact(&c) {
                                    sig.signature = s2;
                                }
                            }
                            _ => {}
                        }
                    }
                }
            }
            9 => {
                // preimage entries of odd lengths; the pairs are consistent (hash(value) == key), or
                // deserialisation would drop the PSBT before the library sees it
                use bitcoin::hashes::Hash;
                let n = *rng.pick(&[0usize, 1, 20, 31, 33, 64, 521]);
                let v = vec![0x5a; n];
                inp.sha256_preimages.insert(bitcoin::hashes::sha256::Hash::hash(&v), v.clone());
                inp.hash256_preimages.insert(bitcoin::hashes::sha256d::Hash::hash(&v), v.clone());
                inp.ripemd160_preimages.insert(bitcoin::hashes::ripemd160::Hash::hash(&v), v.clone());
                inp.hash160_preimages.insert(bitcoin::hashes::hash160::Hash::hash(&v), v);
            }
            10 => inp.tap_internal_key = other.tap_internal_key.or(Some(world.keys[rng.below(8)].xonly)),
            11 => inp.tap_merkle_root = Some(bitcoin::taproot::TapNodeHash::from_byte_array([rng.below(256) as u8; 32])),
            12 => inp.tap_scripts.clear(),
            13 => {
                // control blocks pointing at foreign scripts
                let v: Vec<_> = other.tap_scripts.iter().map(|(c, s)| (c.clone(), s.clone())).collect();
                for (c, s) in v {
                    inp.tap_scripts.insert(c, s);
                }
            }
            14 => {
                let v: Vec<_> = inp.tap_scripts.keys().cloned().collect();
                for c in v {
                    if let Some((sc, _)) = inp.tap_scripts.get(&c).cloned() {
                        inp.tap_scripts.insert(c, (ScriptBuf::from_bytes(rbytes(&mut rng, 30)), bitcoin::taproot::LeafVersion::TapScript));
                        let _ = sc;
                    }
                }
            }
            15 => inp.tap_key_sig = other.tap_key_sig.or(inp.tap_script_sigs.values().next().cloned()),
            16 => inp.sighash_type = Some(*rng.pick(&[bitcoin::psbt::PsbtSighashType::from_u32(0), bitcoin::psbt::PsbtSighashType::from_u32(0xff), bitcoin::psbt::PsbtSighashType::from_u32(0x83), bitcoin::psbt::PsbtSighashType::from_u32(2)])),
            17 => inp.final_script_sig = Some(ScriptBuf::from_bytes(rbytes(&mut rng, 30))),
            18 => inp.final_script_witness = Some(Witness::from_slice(&[rbytes(&mut rng, 40), rbytes(&mut rng, 40)])),
            19 => {
                inp.bip32_derivation.clear();
                inp.tap_key_origins.clear();
            }
            22 | 23 => {
                // both utxo forms present (allowed by BIP-174), optionally pointing past the outputs
                inp.witness_utxo = Some(s.prevouts[k].clone());
                inp.non_witness_utxo = s.prev_txs[k].clone();
                if what == 23 {
                    let n_out = s.prev_txs[k].as_ref().map(|t| t.output.len()).unwrap_or(1) as u32;
                    vout_edits.push((k, n_out + rng.below(3) as u32));
                }
            }
            24 => {
                // the spent vout is out of range for the (matching) previous transaction
                let n_out = s.prev_txs[k].as_ref().map(|t| t.output.len()).unwrap_or(1) as u32;
                vout_edits.push((k, n_out + rng.below(3) as u32));
            }
            20 => {
                if let Some(u) = inp.witness_utxo.as_mut() {
                    u.script_pubkey = ScriptBuf::from_bytes(hostile_spk(&mut rng, u.script_pubkey.as_bytes()));
                }
            }
            _ => {
                inp.partial_sigs.clear();
                for (k2, v2) in other.partial_sigs.iter() {
                    inp.partial_sigs.insert(*k2, *v2);
                }
            }
        }
    }
    for (k, v) in vout_edits {
        if let Some(i) = psbt.unsigned_tx.input.get_mut(k) {
            i.previous_output.vout = v;
        }
    }
    // one PSBT in five carries every ECDSA signature in its high-S form (s -> n - s): with a high r
    // such a signature is the longest the encoding allows, 72 bytes of DER plus the hash type
    if rng.chance(1, 5) {
        let order = unhex("fffffffffffffffffffffffffffffffebaaedce6af48a03bbfd25e8cd0364141").unwrap();
        for inp in psbt.inputs.iter_mut() {
            for sig in inp.partial_sigs.values_mut() {
                let mut c = sig.signature.serialize_compact();
                let mut borrow = 0i32;
                let mut out = [0u8; 32];
                for j in (0..32).rev() {
                    let d = order[j] as i32 - c[32 + j] as i32 - borrow;
                    out[j] = d.rem_euclid(256) as u8;
                    borrow = if d < 0 { 1 } else { 0 };
                }
                c[32..].copy_from_slice(&out);
                if let Ok(s2) = bitcoin::secp256k1::ecdsa::Signature::from_compact(&c) {
                    sig.signature = s2;
                }
            }
        }
        notes.push("high-S".into());
    }
    // more / fewer PSBT inputs than the transaction has
    match rng.below(12) {
        0 => {
            psbt.inputs.pop();
            notes.push("inputs-1".into());
        }
        1 => {
            let x = psbt.inputs[0].clone();
            psbt.inputs.push(x);
            notes.push("inputs+1".into());
        }
        2 => {
            psbt.outputs.clear();
            notes.push("outputs=0".into());
        }
        _ => {}
    }
    // optionally through bytes (with byte edits that still deserialize)
    let mut bytes = psbt.serialize();
    if rng.chance(1, 3) {
        for _ in 0..1 + rng.below(3) {
            let mut b2 = bytes.clone();
            let k = rng.below(b2.len());
            match rng.below(3) {
                0 => b2[k] ^= 1 << rng.below(8),
                1 => {
                    b2.remove(k);
                }
                _ => b2.insert(k, rng.below(256) as u8),
            }
            if Psbt::deserialize(&b2).is_ok() {
                bytes = b2;
                notes.push("byte-edit".into());
            }
        }
    }
    let input = format!("edits {:?}; descriptors {:?}; psbt {}", notes, s.inputs.iter().map(|x| x.case.desc.clone()).collect::<Vec<_>>(), hex(&bytes));
    let mut m = Mon::begin(rep, i, "psbt", input, bytes.len());
    let psbt0 = match m.probe("Psbt::deserialize", &|| Psbt::deserialize(&bytes).ok()) {
        Some(Some(p)) => p,
        _ => return,
    };
    let secp = &world.secp;
    let n_in = psbt0.inputs.len() + 1;
    let order = rng.below(6);
    m.probe("PsbtExt::sighash_msg", &|| {
        let mut cache = bitcoin::sighash::SighashCache::new(&psbt0.unsigned_tx);
        let mut n_ok = 0;
        for idx in 0..n_in {
            if psbt0.sighash_msg(idx, &mut cache, None).is_ok() {
                n_ok += 1;
            }
            if let Some(inp) = psbt0.inputs.get(idx) {
                for (_, (sc, ver)) in inp.tap_scripts.iter() {
                    let lh = bitcoin::taproot::TapLeafHash::from_script(sc, *ver);
                    let _ = psbt0.sighash_msg(idx, &mut cache, Some(lh));
                }
            }
        }
        n_ok
    });
    m.probe("PsbtExt::update_input_with_descriptor", &|| {
        let mut p = psbt0.clone();
        let mut n_ok = 0;
        for idx in 0..n_in {
            let d = &s.inputs[idx % s.inputs.len()].desc;
            if let Ok(dd) = Descriptor::<DefiniteDescriptorKey>::from_str(&d.to_string()) {
                if p.update_input_with_descriptor(idx, &dd).is_ok() {
                    n_ok += 1;
                }
                let _ = p.update_output_with_descriptor(idx, &dd);
            }
        }
        n_ok
    });
    let fin = m.probe("PsbtExt::finalize", &|| {
        let mut p = psbt0.clone();
        let mut log = vec![];
        match order {
            0 => log.push(p.finalize_mut(secp).is_ok()),
            1 => log.push(p.finalize_mall_mut(secp).is_ok()),
            2 => {
                for idx in (0..n_in).rev() {
                    log.push(p.finalize_inp_mut(secp, idx).is_ok());
                }
            }
            3 => {
                for idx in 0..n_in {
                    log.push(p.finalize_inp_mall_mut(secp, idx).is_ok());
                }
            }
            4 => {
                log.push(p.finalize_mut(secp).is_ok());
                log.push(p.finalize_mall_mut(secp).is_ok());
                log.push(p.finalize_mut(secp).is_ok());
            }
            _ => {
                log.push(p.clone().finalize(secp).is_ok());
                log.push(p.clone().finalize_inp(secp, 0).is_ok());
            }
        }
        let ex = p.extract(secp).is_ok();
        (log, ex)
    });
    m.probe("PsbtExt::extract(unfinalized)", &|| psbt0.extract(secp).is_ok());
    if let Some((log, _)) = fin {
        if log.iter().any(|b| *b) {
            rep.count("psbt-some-finalize-succeeded");
        } else {
            rep.count("psbt-every-finalize-refused");
        }
    }
    rep.nontrivial(&format!("psbt|{}", hex(&bytes[..bytes.len().min(200)])));
}

// ------------------------------------------------------------------ planner

fn planner_case(cfg: &RunCfg, rep: &mut Report, world: &World, i: u64) {
    let mut rng = cfg.case_rng(i);
    let max_nodes = if cfg.tier == Tier::Thorough { 14 } else { 8 };
    // key expressions: definite xpub forms incl. empty paths / origins, plain keys
    let mut exprs: Vec<String> = vec![];
    let mut keygen = |rng: &mut Rng, cx: Cx| -> String {
        let e = match rng.below(7) {
            0 | 1 | 2 => world.gen_xkey(rng, false, false, false).text,
            3 => {
                // xpub without origin and without steps (empty derivation path)
                let k = world.gen_xkey(rng, false, false, false).text;
                let k = k.split(']').last().unwrap_or(&k).to_string();
                k.split('/').next().unwrap_or(&k).to_string()
            }
            _ => {
                let k = rng.pick(&world.keys);
                if cx == Cx::Tap {
                    k.xonly_hex.clone()
                } else {
                    k.compressed_hex.clone()
                }
            }
        };
        exprs.push(e.clone());
        e
    };
    let strings = super::c10::desc_strings(&mut rng, world, &mut keygen, max_nodes);
    let ds = rng.pick(&strings).clone();
    let desc = match guarded(|| Descriptor::<DefiniteDescriptorKey>::from_str(&ds)) {
        Ok(Ok(d)) => d,
        _ => {
            rep.count("planner-descriptor-rejected");
            return;
        }
    };
    // hostile assets derived from the key expressions of the descriptor
    let mut asset_strs: Vec<String> = vec![];
    for e in &exprs {
        if !ds.contains(e.as_str()) || !rng.chance(3, 4) {
            continue;
        }
        let bare = e.split(']').last().unwrap_or(e).to_string();
        let xpub = bare.split('/').next().unwrap_or(&bare).to_string();
        let fp = e.strip_prefix('[').and_then(|x| x.split(&['/', ']'][..]).next()).map(|x| x.to_string());
        let v = match rng.below(9) {
            0 => e.clone(),
            1 => format!("{}/*", xpub),
            2 => format!("{}/0/*", xpub),
            3 => match &fp {
                Some(f) => format!("[{}]{}/*", f, xpub),
                None => format!("{}/1/2/3/*", xpub),
            },
            4 => match &fp {
                Some(f) => format!("[{}/0h/1/2/3/4]{}", f, xpub),
                None => xpub.clone(),
            },
            5 => match bare.rfind('/') {
                Some(p) => format!("{}/*", &bare[..p]),
                None => format!("{}/*", bare),
            },
            6 => match e.rfind('/') {
                Some(p) => format!("{}/*", &e[..p]),
                None => e.clone(),
            },
            7 => format!("{}/<0;1>/*", xpub),
            _ => match &fp {
                Some(f) => format!("[{}]{}", f, world.keys[rng.below(8)].compressed_hex),
                None => e.clone(),
            },
        };
        asset_strs.push(v);
    }
    let mut lib = LibAssets::new();
    for a in &asset_strs {
        if let Ok(k) = DescriptorPublicKey::from_str(a) {
            lib = lib.add(k);
        }
    }
    for p in &world.pre {
        if rng.coin() {
            lib = lib.add(bitcoin::hashes::sha256::Hash::from_byte_array(p.sha256));
            lib = lib.add(bitcoin::hashes::hash160::Hash::from_byte_array(p.hash160));
            lib = lib.add(bitcoin::hashes::ripemd160::Hash::from_byte_array(p.ripemd160));
            lib = lib.add(miniscript::hash256::Hash::from_byte_array(p.hash256));
        }
    }
    if rng.coin() {
        lib = lib.after(absolute::LockTime::from_consensus(*rng.pick(&[0u32, 1, 144, 499_999_999, 500_000_000, 0xffff_ffff])));
    }
    if rng.coin() {
        if let Ok(l) = bitcoin::relative::LockTime::from_sequence(Sequence(*rng.pick(&[0u32, 1, 144, 65_535, (1 << 22) | 5]))) {
            lib = lib.older(l);
        }
    }
    let input = format!("descriptor {} assets {:?} (+ hashes / lock times)", ds, asset_strs);
    let len = ds.len() + asset_strs.iter().map(|a| a.len()).sum::<usize>();
    let mut m = Mon::begin(rep, i, "planner", input.clone(), len);
    let mut planned = false;
    for mall in [false, true] {
        let r = m.probe(if mall { "Descriptor::into_plan_mall" } else { "Descriptor::into_plan" }, &|| {
            let d2 = desc.clone();
            if mall {
                d2.into_plan_mall(&lib).ok()
            } else {
                d2.into_plan(&lib).ok()
            }
        });
        if let Some(Some(plan)) = r {
            planned = true;
            m.probe("Plan::sizes", &|| (plan.witness_size(), plan.scriptsig_size(), plan.satisfaction_weight(), plan.witness_version(), plan.witness_template().len()));
            m.probe("Plan::update_psbt_input", &|| {
                let mut inp = bitcoin::psbt::Input::default();
                plan.update_psbt_input(&mut inp);
                inp.bip32_derivation.len() + inp.tap_key_origins.len()
            });
            m.probe("Plan::satisfy(empty satisfier)", &|| {
                struct Nothing;
                impl miniscript::Satisfier<DefiniteDescriptorKey> for Nothing {}
                plan.satisfy(&Nothing).is_ok()
            });
        }
    }
    m.probe("Descriptor::get_satisfaction(empty satisfier)", &|| {
        struct Nothing;
        impl miniscript::Satisfier<DefiniteDescriptorKey> for Nothing {}
        (desc.get_satisfaction(&Nothing).is_ok(), desc.get_satisfaction_mall(&Nothing).is_ok())
    });
    if planned {
        rep.nontrivial(&format!("plan|{}", input));
        rep.count("planner-plan-found");
    } else {
        rep.count("planner-no-plan");
    }
}

// ------------------------------------------------------------------ run

pub fn run(cfg: &RunCfg, rep: &mut Report) {
    let world = World::new(cfg.seed);
    // worker parameters: cur=<file> (case about to run, for the driver), from=<k> (restart)
    let mut from = 0u64;
    if let Some(a) = &cfg.arg {
        for kv in a.split(';') {
            if let Some(p) = kv.strip_prefix("cur=") {
                procmon::set_cur_path(Some(p.to_string()));
            }
            if let Some(k) = kv.strip_prefix("from=") {
                from = k.parse().unwrap_or(0);
            }
        }
    }
    let hang_limit = if std::env::var("C11_SELFTEST").is_ok() { 3 } else if cfg.tier == Tier::Thorough { 120 } else { 40 };
    procmon::start_watchdog(cfg.prop.clone(), cfg.seed, cfg.shard, cfg.nshards, if cfg.tier == Tier::Thorough { "thorough".into() } else { "quick".into() }, hang_limit);
    let total = cfg.n_cases(36_000, 900_000);
    for i in cfg.cases(total) {
        if i < from {
            continue;
        }
        // self-test of the process-level monitors (driven by ./check selftest only)
        if let Ok(st) = std::env::var("C11_SELFTEST") {
            let mut it = st.split('@');
            let (kind, at) = (it.next().unwrap_or(""), it.next().and_then(|x| x.parse::<u64>().ok()).unwrap_or(u64::MAX));
            if at == i {
                procmon::begin_case(i, "selftest", kind);
                match kind {
                    "abort" => std::process::abort(),
                    "overflow" => {
                        fn deep(n: u64) -> u64 {
                            let a = [n; 64];
                            if n == 0 {
                                0
                            } else {
                                deep(n - 1) + a[(n % 64) as usize]
                            }
                        }
                        println!("{}", deep(u64::MAX / 2));
                    }
                    "hang" => {
                        let mut x = 0u64;
                        loop {
                            x = x.wrapping_mul(6364136223846793005).wrapping_add(1);
                            if x == 42 {
                                break;
                            }
                        }
                    }
                    "alloc" => {
                        let v: Vec<u8> = Vec::with_capacity(7usize << 30);
                        println!("{}", v.capacity());
                    }
                    _ => {}
                }
            }
        }
        match i % 12 {
            0..=4 => string_case(cfg, rep, &world, i),
            5 | 6 => script_case(cfg, rep, &world, i),
            7 | 8 => interpreter_case(cfg, rep, &world, i),
            9 | 10 => psbt_case(cfg, rep, &world, i),
            _ => planner_case(cfg, rep, &world, i),
        }
    }
    procmon::begin_case(u64::MAX, "done", "");
    if from == 0 && cfg.only_case.is_none() {
        // the policy compiler entry points, judged for panics under this property
        let mut c = cfg.clone();
        c.scale = cfg.scale * 0.25;
        super::c08::run(&c, rep);
    }
    rep.add("allocator-calls-observed", procmon::alloc_count());
    if rep.samples.is_empty() {
        rep.sample(format!("entry points: {}", ENTRY_POINTS));
    }
}
