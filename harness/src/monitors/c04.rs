//! C04: script encoding and decoding are inverse and canonical.

use std::collections::BTreeMap;
use std::str::FromStr;

use miniscript::bitcoin;
use miniscript::{BareCtx, Legacy, Miniscript, ScriptContext, Segwitv0, Tap, ToPublicKey, ValidationParams};

use bitcoin::hashes::hash160;
use bitcoin::Script;

use super::{guarded, last_panic_loc, norm_loc, Report, RunCfg, Tier};
use crate::frag::{Cx, Frag, Gen, GenCfg, KeyForm, KeyRef};
use crate::oracle::spec_types::Base;
use crate::prng::Rng;
use crate::refvm::script as rs;
use crate::world::{hex, World};

/// sortedmulti -> multi with the keys in the order the script uses.
fn normalise(f: &Frag, world: &World) -> Frag {
    let bx = |x: &Frag| Box::new(normalise(x, world));
    let sort = |ks: &Vec<KeyRef>, xonly: bool| {
        let mut v = ks.clone();
        v.sort_by_key(|k| {
            let ki = &world.keys[k.id];
            if xonly {
                ki.xonly.serialize().to_vec()
            } else {
                match k.form {
                    KeyForm::Uncompressed => ki.pk.serialize_uncompressed().to_vec(),
                    _ => ki.pk.serialize().to_vec(),
                }
            }
        });
        v
    };
    match f {
        Frag::SortedMulti(k, ks) => Frag::Multi(*k, sort(ks, false)),
        Frag::SortedMultiA(k, ks) => Frag::MultiA(*k, sort(ks, true)),
        Frag::Alt(x) => Frag::Alt(bx(x)),
        Frag::Swap(x) => Frag::Swap(bx(x)),
        Frag::Check(x) => Frag::Check(bx(x)),
        Frag::DupIf(x) => Frag::DupIf(bx(x)),
        Frag::Verify(x) => Frag::Verify(bx(x)),
        Frag::NonZero(x) => Frag::NonZero(bx(x)),
        Frag::ZeroNotEqual(x) => Frag::ZeroNotEqual(bx(x)),
        Frag::AndV(a, b) => Frag::AndV(bx(a), bx(b)),
        Frag::AndB(a, b) => Frag::AndB(bx(a), bx(b)),
        Frag::OrB(a, b) => Frag::OrB(bx(a), bx(b)),
        Frag::OrC(a, b) => Frag::OrC(bx(a), bx(b)),
        Frag::OrD(a, b) => Frag::OrD(bx(a), bx(b)),
        Frag::OrI(a, b) => Frag::OrI(bx(a), bx(b)),
        Frag::AndOr(a, b, c) => Frag::AndOr(bx(a), bx(b), bx(c)),
        Frag::Thresh(k, xs) => Frag::Thresh(*k, xs.iter().map(|x| normalise(x, world)).collect()),
        other => other.clone(),
    }
}

fn roundtrip<Ctx: ScriptContext>(cx: Cx, frag: &Frag, world: &World, rep: &mut Report, case: u64, mrng: &mut Rng, n_mut: usize)
where
    Ctx::Key: ToPublicKey + FromStr,
    <Ctx::Key as FromStr>::Err: std::fmt::Display,
    Ctx::Key: miniscript::FromStrKey,
{
    rep.eval();
    let s = frag.to_string_with(world);
    let parsed = guarded(|| Miniscript::<Ctx::Key, Ctx>::from_str_with_validation_params(&s, &Ctx::CONSENSUS));
    let ms = match parsed {
        Ok(Ok(m)) => m,
        Ok(Err(_)) => {
            rep.count(&format!("rejected-by-consensus-params:{}", cx.name()));
            return;
        }
        Err(m) => {
            rep.violation(case, format!("C04:panic:from_str:{}", norm_loc(&last_panic_loc())), format!("from_str panicked ({}) on {}", m, s));
            return;
        }
    };
    let r = guarded(std::panic::AssertUnwindSafe(|| {
        let script = ms.encode();
        let size = ms.script_size();
        let dec = Miniscript::<Ctx::Key, Ctx>::decode_consensus(&script);
        (script, size, dec)
    }));
    let (script, size, dec) = match r {
        Ok(x) => x,
        Err(m) => {
            rep.violation(case, format!("C04:panic:encode-decode:{}", norm_loc(&last_panic_loc())), format!("encode/decode panicked ({}) on {} [{}]", m, s, cx.name()));
            return;
        }
    };
    let bytes = script.to_bytes();
    if size != bytes.len() {
        rep.violation(case, format!("C04:script_size:{}", cx.name()), format!("script_size() {} != encoded length {} for {}", size, bytes.len(), s));
    }
    // the reference parser must find only minimal pushes in an encoding
    match rs::parse(&bytes) {
        Ok(ops) => {
            if ops.iter().any(|o| matches!(o, rs::Op::Push { minimal: false, .. })) {
                rep.violation(case, format!("C04:encode-nonminimal-push:{}", cx.name()), format!("encode() of {} contains a non-minimal push: {}", s, hex(&bytes)));
            }
        }
        Err(_) => rep.violation(case, format!("C04:encode-malformed:{}", cx.name()), format!("encode() of {} is not a well-formed script: {}", s, hex(&bytes))),
    }
    let ms2 = match dec {
        Ok(m) => m,
        Err(e) => {
            rep.violation(
                case,
                format!("C04:decode-fails:{}:{}", cx.name(), frag.name()),
                format!("decode_consensus(encode(x)) fails ({}) for x = {} [{}], script {}", e, s, cx.name(), hex(&bytes)),
            );
            return;
        }
    };
    if ms.n_combinators() {
        rep.nontrivial(&format!("{}|{}", cx.name(), s));
    }
    let re = ms2.encode().to_bytes();
    if re != bytes {
        rep.violation(case, format!("C04:reencode-differs:{}", cx.name()), format!("decode(encode(x)).encode() differs for x = {}: {} vs {}", s, hex(&bytes), hex(&re)));
    }
    if ms2.ty != ms.ty {
        rep.violation(case, format!("C04:type-differs:{}", cx.name()), format!("decode(encode(x)) has type {:?}, x has {:?}; x = {}", ms2.ty, ms.ty, s));
    }
    if ms2.script_size() != bytes.len() {
        rep.violation(case, format!("C04:decoded-script_size:{}", cx.name()), format!("decoded script_size() {} != {} for {}", ms2.script_size(), bytes.len(), s));
    }
    // structural identity after the documented normalisations
    let mut map: BTreeMap<hash160::Hash, Ctx::Key> = BTreeMap::new();
    for k in frag.keys() {
        if let Ok(key) = Ctx::Key::from_str(&crate::frag::Names::key(world, &k)) {
            let h = key.to_pubkeyhash(Ctx::sig_type());
            map.insert(h, key);
        }
    }
    let subst = ms2.substitute_raw_pkh(&map);
    // putting the keys back (what the PSBT finalizer does with a decoded script) must not change
    // the script, nor the label
    match guarded(std::panic::AssertUnwindSafe(|| (subst.encode().to_bytes(), subst.ty))) {
        Ok((b2, t2)) => {
            if b2 != bytes {
                rep.violation(case, format!("C04:substitute_raw_pkh-changes-script:{}", cx.name()), format!("decode(encode(x)).substitute_raw_pkh(keys) encodes to {} instead of {} for x = {} [{}]", hex(&b2), hex(&bytes), s, cx.name()));
            } else if t2 != ms.ty {
                rep.violation(case, format!("C04:substitute_raw_pkh-changes-type:{}", cx.name()), format!("type {:?} vs {:?} for x = {}", t2, ms.ty, s));
            } else {
                rep.count("substitute_raw_pkh-preserves-script");
            }
        }
        Err(m) => rep.violation(case, format!("C04:panic:substitute_raw_pkh:{}", norm_loc(&last_panic_loc())), format!("{} on {}", m, s)),
    }
    // ... and the round trip keeps the spending condition: same lifted policy (keys back in place)
    {
        use miniscript::policy::Liftable;
        let la = guarded(std::panic::AssertUnwindSafe(|| ms.lift().map(|p| p.normalized().sorted().to_string()).map_err(|e| e.to_string())));
        let lb = guarded(std::panic::AssertUnwindSafe(|| subst.lift().map(|p| p.normalized().sorted().to_string()).map_err(|e| e.to_string())));
        match (la, lb) {
            (Ok(Ok(a)), Ok(Ok(b))) => {
                if a != b {
                    rep.violation(case, format!("C04:roundtrip-changes-semantics:{}", cx.name()), format!("x = {} [{}] lifts to {}, decode(encode(x)) with the keys put back lifts to {}", s, cx.name(), a, b));
                } else {
                    rep.count("roundtrip-preserves-lifted-policy");
                }
            }
            (Ok(Ok(a)), Ok(Err(e))) => rep.violation(case, format!("C04:roundtrip-changes-semantics:{}", cx.name()), format!("x = {} [{}] lifts to {}, decode(encode(x)) with the keys put back cannot be lifted: {}", s, cx.name(), a, e)),
            _ => rep.count("roundtrip-lift-not-comparable(original not liftable)"),
        }
    }
    // ... also with an empty key map (nothing to substitute)
    if let Ok(b3) = guarded(std::panic::AssertUnwindSafe(|| ms2.substitute_raw_pkh(&BTreeMap::new()).encode().to_bytes())) {
        if b3 != bytes {
            rep.violation(case, format!("C04:substitute_raw_pkh-changes-script:{}", cx.name()), format!("substitute_raw_pkh(empty map) changes the script of {}: {} vs {}", s, hex(&b3), hex(&bytes)));
        }
    }
    let norm = normalise(frag, world).to_string_with(world);
    let norm_ms = Miniscript::<Ctx::Key, Ctx>::from_str_with_validation_params(&norm, &ValidationParams::MAX);
    match norm_ms {
        Ok(nm) => {
            if nm.to_string() != subst.to_string() {
                // and_v chains and verify wrappers can re-associate: several miniscripts share
                // one script. The property demands identical script, type and semantics, not
                // identical structure; this is recorded as information only.
                rep.count(&format!("roundtrip-reassociated(same script):{}", cx.name()));
            } else {
                rep.count(&format!("roundtrip-identical:{}", cx.name()));
            }
        }
        Err(_) => rep.count("normalised-form-unparseable(info)"),
    }

    // (b) byte-level mutations of the encoding offered to the decoder
    for _ in 0..n_mut {
        let m = mutate_script(mrng, &bytes);
        judge_bytes::<Ctx>(cx, &m, rep, case);
    }
}

trait Comb {
    fn n_combinators(&self) -> bool;
}
impl<Pk: miniscript::MiniscriptKey, Ctx: ScriptContext> Comb for Miniscript<Pk, Ctx> {
    fn n_combinators(&self) -> bool {
        use miniscript::iter::TreeLike as _;
        self.pre_order_iter().count() > 2
    }
}

pub const MS_OPCODES: &[u8] = &[
    rs::OP_0, rs::OP_1, 0x52, 0x53, 0x60, rs::OP_IF, rs::OP_NOTIF, rs::OP_ELSE, rs::OP_ENDIF, rs::OP_VERIFY,
    rs::OP_TOALTSTACK, rs::OP_FROMALTSTACK, rs::OP_IFDUP, rs::OP_DUP, rs::OP_SWAP, rs::OP_SIZE, rs::OP_EQUAL,
    rs::OP_EQUALVERIFY, rs::OP_0NOTEQUAL, rs::OP_ADD, rs::OP_BOOLAND, rs::OP_BOOLOR, rs::OP_NUMEQUAL,
    rs::OP_NUMEQUALVERIFY, rs::OP_RIPEMD160, rs::OP_SHA256, rs::OP_HASH160, rs::OP_HASH256, rs::OP_CHECKSIG,
    rs::OP_CHECKSIGVERIFY, rs::OP_CHECKMULTISIG, rs::OP_CHECKMULTISIGVERIFY, rs::OP_CLTV, rs::OP_CSV,
    rs::OP_CHECKSIGADD, rs::OP_DROP, rs::OP_NOT, 0x4f, 0x61, 0x6a,
];

pub fn mutate_script(rng: &mut Rng, b: &[u8]) -> Vec<u8> {
    let ops = match rs::parse(b) {
        Ok(o) => o,
        Err(_) => return b.to_vec(),
    };
    let mut ops: Vec<rs::Op> = ops;
    // re-serialisation with optional non-minimal encodings
    let steps = 1 + rng.below(2);
    let mut force_nonminimal: Option<usize> = None;
    for _ in 0..steps {
        if ops.is_empty() {
            break;
        }
        let i = rng.below(ops.len());
        match rng.below(10) {
            9 => {
                // other serialisations of the same public key: hybrid form (06/07 + x + y) of an
                // uncompressed key, uncompressed form of a compressed key is not derivable here
                let keys: Vec<usize> = ops.iter().enumerate().filter(|(_, o)| matches!(o, rs::Op::Push { data, .. } if data.len() == 65 && data[0] == 4)).map(|(k, _)| k).collect();
                if let Some(k) = keys.first() {
                    if let rs::Op::Push { data, .. } = &ops[*k] {
                        let mut d = data.clone();
                        d[0] = 6 | (d[64] & 1);
                        ops[*k] = rs::Op::Push { data: d, minimal: true, opcode: 0 };
                    }
                } else if let rs::Op::Push { data, .. } = &ops[i] {
                    // or a parity flip of a compressed key (another valid key: must not decode to the same object)
                    if data.len() == 33 && (data[0] == 2 || data[0] == 3) {
                        let mut d = data.clone();
                        d[0] ^= 1;
                        ops[i] = rs::Op::Push { data: d, minimal: true, opcode: 0 };
                    }
                }
            }
            0 => {
                ops.remove(i);
            }
            1 => {
                let o = ops[i].clone();
                ops.insert(i, o);
            }
            2 => ops[i] = rs::Op::Code(*rng.pick(MS_OPCODES)),
            3 => ops.insert(i, rs::Op::Code(*rng.pick(MS_OPCODES))),
            4 => {
                let j = rng.below(ops.len());
                ops.swap(i, j);
            }
            5 => force_nonminimal = Some(i),
            6 => {
                // change a number / data push
                if let rs::Op::Push { data, .. } = &ops[i] {
                    let mut d = data.clone();
                    match rng.below(4) {
                        0 => d.push(0),
                        1 => {
                            if !d.is_empty() {
                                let l = d.len() - 1;
                                d[l] ^= 0x80;
                            }
                        }
                        2 => d = rs::num_encode(rs::num_decode(&d, false, 8).unwrap_or(0) + 1),
                        _ => {
                            d.pop();
                        }
                    }
                    ops[i] = rs::Op::Push { data: d, minimal: true, opcode: 0 };
                }
            }
            7 => {
                // VERIFY splitting: X-VERIFY -> X VERIFY
                if let rs::Op::Code(c) = ops[i] {
                    let split = match c {
                        rs::OP_EQUALVERIFY => Some(rs::OP_EQUAL),
                        rs::OP_CHECKSIGVERIFY => Some(rs::OP_CHECKSIG),
                        rs::OP_CHECKMULTISIGVERIFY => Some(rs::OP_CHECKMULTISIG),
                        rs::OP_NUMEQUALVERIFY => Some(rs::OP_NUMEQUAL),
                        _ => None,
                    };
                    if let Some(x) = split {
                        ops[i] = rs::Op::Code(x);
                        ops.insert(i + 1, rs::Op::Code(rs::OP_VERIFY));
                    }
                }
            }
            _ => {
                let n = *rng.pick(&[0usize, 1, 4, 20, 32, 33, 65, 75, 76]);
                ops.insert(i, rs::Op::Push { data: rng.bytes(n), minimal: true, opcode: 0 });
            }
        }
    }
    let mut out = vec![];
    for (i, o) in ops.iter().enumerate() {
        match o {
            rs::Op::Code(c) => out.push(*c),
            rs::Op::Push { data, .. } => {
                if force_nonminimal == Some(i) {
                    // PUSHDATA1 form / explicit 1-byte push of a small number
                    if data.len() <= 255 {
                        out.push(rs::OP_PUSHDATA1);
                        out.push(data.len() as u8);
                        out.extend_from_slice(data);
                    } else {
                        rs::push_minimal(&mut out, data);
                    }
                } else if data.len() == 1 && (1..=16).contains(&data[0]) && rng.chance(1, 6) {
                    out.push(1);
                    out.push(data[0]);
                } else {
                    rs::push_minimal(&mut out, data);
                }
            }
        }
    }
    out
}

fn judge_bytes<Ctx: ScriptContext>(cx: Cx, b: &[u8], rep: &mut Report, case: u64)
where
    Ctx::Key: ToPublicKey,
{
    for (pname, params) in [("consensus", Ctx::CONSENSUS), ("sane", Ctx::SANE), ("max", ValidationParams::MAX)] {
        rep.eval();
        let r = guarded(|| {
            Miniscript::<Ctx::Key, Ctx>::decode_with_validation_params(Script::from_bytes(b), &params)
                .map(|ms| (ms.encode().to_bytes(), ms.script_size(), ms.to_string()))
        });
        match r {
            Err(m) => {
                rep.violation(
                    case,
                    format!("C04:panic:decode:{}", norm_loc(&last_panic_loc())),
                    format!("decode_with_validation_params({}) panicked ({}) on script {} [{}]", pname, m, hex(b), cx.name()),
                );
                return;
            }
            Ok(Err(_)) => rep.count(&format!("bytes-rejected:{}", pname)),
            Ok(Ok((enc, size, s))) => {
                rep.count(&format!("bytes-accepted:{}", pname));
                rep.nontrivial(&format!("bytes|{}|{}", cx.name(), hex(b)));
                if enc != b {
                    rep.violation(
                        case,
                        format!("C04:noncanonical-accepted:{}:{}", cx.name(), pname),
                        format!("decoder ({}) accepts {} as {} whose canonical encoding is {}", pname, hex(b), s, hex(&enc)),
                    );
                }
                if size != b.len() {
                    rep.violation(
                        case,
                        format!("C04:decoded-script_size:{}", cx.name()),
                        format!("script_size() {} != {} for decoded {}", size, b.len(), s),
                    );
                }
            }
        }
    }
}

pub fn random_script(rng: &mut Rng, world: &World) -> Vec<u8> {
    let n = 1 + rng.below(24);
    let mut out = vec![];
    for _ in 0..n {
        match rng.below(10) {
            0..=5 => out.push(*rng.pick(MS_OPCODES)),
            6 => {
                let k = rng.pick(&world.keys);
                let d = match rng.below(3) {
                    0 => k.pk.serialize().to_vec(),
                    1 => k.xonly.serialize().to_vec(),
                    _ => k.pk.serialize_uncompressed().to_vec(),
                };
                rs::push_minimal(&mut out, &d);
            }
            7 => {
                let p = rng.pick(&world.pre);
                let d = if rng.coin() { p.sha256.to_vec() } else { p.hash160.to_vec() };
                rs::push_minimal(&mut out, &d);
            }
            8 => rs::push_minimal(&mut out, &rs::num_encode(rng.below(70000) as i64)),
            _ => {
                let n = *rng.pick(&[0usize, 1, 4, 20, 32, 33, 65, 75, 76]);
                rs::push_minimal(&mut out, &rng.bytes(n));
            }
        }
    }
    out
}

pub fn run(cfg: &RunCfg, rep: &mut Report) {
    let world = World::new(cfg.seed);
    let total = cfg.n_cases(40_000, 1_000_000);
    let max_nodes = if cfg.tier == Tier::Thorough { 30 } else { 12 };
    let n_mut = if cfg.tier == Tier::Thorough { 16 } else { 8 };
    for i in cfg.cases(total) {
        let mut rng = cfg.case_rng(i);
        let mut mrng = cfg.case_rng(i ^ 0x0404_0000_0000);
        let cx = Cx::ALL[rng.below(4)];
        if rng.chance(1, 8) {
            let b = random_script(&mut rng, &world);
            match cx {
                Cx::Bare => judge_bytes::<BareCtx>(cx, &b, rep, i),
                Cx::Legacy => judge_bytes::<Legacy>(cx, &b, rep, i),
                Cx::Segwitv0 => judge_bytes::<Segwitv0>(cx, &b, rep, i),
                Cx::Tap => judge_bytes::<Tap>(cx, &b, rep, i),
            }
            continue;
        }
        let mut gc = GenCfg::new(cx, max_nodes);
        gc.repeat_keys = true;
        let budget = 1 + rng.below(max_nodes);
        let want = *rng.pick(&[Base::B, Base::B, Base::B, Base::V, Base::K, Base::W]);
        let frag = {
            let mut g = Gen::new(&mut rng, gc);
            g.gen(want, budget)
        };
        // decode_consensus demands a B at top level; other bases are exercised through MAX params in (b)
        match cx {
            Cx::Bare => roundtrip::<BareCtx>(cx, &frag, &world, rep, i, &mut mrng, n_mut),
            Cx::Legacy => roundtrip::<Legacy>(cx, &frag, &world, rep, i, &mut mrng, n_mut),
            Cx::Segwitv0 => roundtrip::<Segwitv0>(cx, &frag, &world, rep, i, &mut mrng, n_mut),
            Cx::Tap => roundtrip::<Tap>(cx, &frag, &world, rep, i, &mut mrng, n_mut),
        }
        if rep.samples.len() < rep.max_samples && i % 997 == 0 {
            rep.sample(format!("[{}] {}", cx.name(), frag.to_string_with(&world)));
        }
    }
    if rep.samples.is_empty() {
        rep.sample("(see counters)".into());
    }
}
