//! C02: satisfiable with the caller's assets => a satisfaction is found.
//! Oracle: lazy witness search over the party's alphabet on the same transaction.

use miniscript::bitcoin;

use super::c01::{case_cfg, for_each_satisfaction, is_sane, CaseRun};
use super::{guarded, Report, RunCfg, Tier};
use crate::refvm::search::SearchCfg;
use crate::refvm::vm::Flags;
use crate::satcase::*;
use crate::target::{search_target, Target};
use crate::world::{hex, World};

/// The PSBT finalizer is a satisfier whose assets are the PSBT's fields. With every signature and
/// every preimage of an input present it has to finalize whenever the library's own satisfier,
/// handed the same signatures directly, produces a witness that real execution accepts.
fn psbt_flow(cfg: &RunCfg, rep: &mut Report, world: &World, i: u64) {
    use super::c14::{apply, build_setup, fresh_psbt, Op, Outcome};
    use crate::refvm::verify::verify_input;
    use crate::refvm::vm::TxCtx;
    use crate::world::{Assets, Spend};
    use miniscript::psbt::PsbtExt;
    let mut rng = cfg.case_rng(i ^ 0x5bd1_e995);
    let s = match build_setup(&mut rng, world, cfg.tier) {
        Some(s) => s,
        None => return,
    };
    let n = s.inputs.len();
    // pass 0: every key signs. pass 1: a random subset of the keys signs (the same subset for the
    // direct satisfier); inputs with uncompressed keys sit out, because a PSBT cannot name an
    // uncompressed key that has not signed while the direct satisfier knows every key
    for pass in 0..2 {
        let mut psbt = fresh_psbt(&s);
        let mut signers: Vec<std::collections::BTreeSet<usize>> = vec![];
        let mut known_pre: Vec<std::collections::BTreeSet<usize>> = vec![];
        let mut ok = true;
        for k in 0..n {
            if !matches!(apply(world, &s, &mut psbt, &Op::Update(k)), Outcome::Ok) {
                rep.count("psbt: update refused");
                ok = false;
                break;
            }
            let mut set = std::collections::BTreeSet::new();
            for id in s.inputs[k].case.key_ids() {
                if pass == 0 || rng.coin() {
                    set.insert(id);
                    apply(world, &s, &mut psbt, &Op::AddSig(k, id));
                }
            }
            signers.push(set);
            let mut pset = std::collections::BTreeSet::new();
            for p in s.inputs[k].case.pre_ids() {
                // in the subset pass some preimages are not known either (malleable and non-malleable
                // satisfaction then part ways: a third party may know what the signer does not)
                if pass == 0 || rng.chance(2, 3) {
                    pset.insert(p);
                    apply(world, &s, &mut psbt, &Op::AddPre(k, p));
                }
            }
            known_pre.push(pset);
        }
        if !ok {
            return;
        }
        for k in 0..n {
            let ip = &s.inputs[k];
            if pass == 1 && ip.case.frags.iter().any(|f| f.keys().iter().any(|kr| kr.form == crate::frag::KeyForm::Uncompressed)) {
                rep.count("psbt: subset pass skipped (uncompressed keys)");
                continue;
            }
            let spend = Spend { tx: s.tx.clone(), prevouts: s.prevouts.clone(), idx: k };
            let mut assets = Assets::new(world, &spend, ip.target.ecdsa.clone());
            assets.keys.extend(signers[k].iter().cloned());
            assets.pre.extend(known_pre[k].iter().cloned());
            for mall in [true, false] {
                let direct = guarded(std::panic::AssertUnwindSafe(|| {
                    let sat = satisfier(&assets, &ip.target);
                    if mall {
                        ip.desc.get_satisfaction_mall(&sat)
                    } else {
                        ip.desc.get_satisfaction(&sat)
                    }
                }));
                let (w, ss) = match direct {
                    Ok(Ok(x)) => x,
                    _ => {
                        rep.count("psbt: the direct satisfier refuses too");
                        continue;
                    }
                };
                let txc = TxCtx { tx: &s.tx, idx: k, prevouts: &s.prevouts };
                if verify_input(&ip.target.spk, ss.as_bytes(), &w, &txc, Flags::STANDARD, &world.secp).is_err() {
                    rep.count("psbt: direct witness not valid (C01's business)");
                    continue;
                }
                rep.eval();
                let mut c = psbt.clone();
                let r = guarded(std::panic::AssertUnwindSafe(|| if mall { c.finalize_inp_mall_mut(&world.secp, k).map_err(|e| e.to_string()) } else { c.finalize_inp_mut(&world.secp, k).map_err(|e| e.to_string()) }));
                match r {
                    Ok(Ok(())) => {
                        rep.count(if pass == 0 { "psbt: finalizer finds a satisfaction where the direct satisfier does" } else { "psbt: finalizer finds a satisfaction where the direct satisfier does (subset of signers)" });
                        rep.nontrivial(&format!("psbt|{}|{}|{}|{:?}", ip.case.desc, mall, s.tx.lock_time, signers[k]));
                    }
                    Ok(Err(e)) => rep.violation(
                        i,
                        format!("C02:refused-but-satisfiable:finalize_inp{}:{:?}{}", if mall { "_mall" } else { "" }, ip.case.kind, if pass == 1 { ":subset" } else { "" }),
                        format!(
                            "input {} = {} carries the signatures of keys {:?} and the preimages it knows; get_satisfaction{} with the same signatures yields a witness that verifies under STANDARD (scriptSig={} witness=[{}]), but finalize_inp{}_mut fails: {} (tx version {}, nLockTime {}, nSequence {:#x})",
                            k, ip.case.desc, signers[k], if mall { "_mall" } else { "" }, hex(ss.as_bytes()), w.iter().map(|x| hex(x)).collect::<Vec<_>>().join(","), if mall { "_mall" } else { "" }, e,
                            s.tx.version.0, s.tx.lock_time.to_consensus_u32(), s.tx.input[k].sequence.0
                        ),
                    ),
                    Err(_) => rep.count("psbt: finalizer panicked (C11's business)"),
                }
            }
        }
    }
}

pub fn search_cfg(tier: Tier) -> SearchCfg {
    match tier {
        Tier::Quick => SearchCfg { max_steps: 200_000, max_vars: 40, max_results: 4 },
        Tier::Thorough => SearchCfg { max_steps: 1_000_000, max_vars: 60, max_results: 4 },
    }
}

pub fn has_choice(case: &DescCase) -> bool {
    use crate::frag::Frag;
    let mut choice = case.frags.len() > 1 || (case.kind == DescKind::Tr && !case.frags.is_empty());
    for f in &case.frags {
        f.walk(&mut |n| match n {
            Frag::OrB(..) | Frag::OrC(..) | Frag::OrD(..) | Frag::OrI(..) | Frag::AndOr(..) => {
                choice = true
            }
            Frag::Thresh(k, xs) if *k < xs.len() => choice = true,
            Frag::Multi(k, ks) | Frag::SortedMulti(k, ks) | Frag::MultiA(k, ks) | Frag::SortedMultiA(k, ks)
                if *k < ks.len() =>
            {
                choice = true
            }
            _ => {}
        });
    }
    choice
}

pub fn run(cfg: &RunCfg, rep: &mut Report) {
    let world = World::new(cfg.seed);
    let total = cfg.n_cases(4_000, 12_000);
    let ccfg = case_cfg(cfg.tier);
    let scfg = search_cfg(cfg.tier);
    let (n_tl, max_worlds) = match cfg.tier {
        Tier::Quick => (3, 12),
        Tier::Thorough => (5, 24),
    };
    for i in cfg.cases(total) {
        let mut rng = cfg.case_rng(i);
        let case = gen_desc_case(&mut rng, &world, &ccfg);
        let desc = match guarded(|| parse_desc(&case.desc)) {
            Ok(Ok(d)) => d,
            _ => {
                rep.eval();
                rep.count("desc-rejected");
                continue;
            }
        };
        if !case
            .spec_types()
            .iter()
            .all(|t| matches!(t, Some(t) if t.base == crate::oracle::spec_types::Base::B))
        {
            continue;
        }
        let target = match Target::from_descriptor(&desc) {
            Ok(t) => t,
            Err(_) => continue,
        };
        let sane = is_sane(&desc);
        let choice = has_choice(&case);
        let n_pre = case.pre_ids().len();
        let all_pre: u64 = if n_pre == 0 { 0 } else { (1u64 << n_pre) - 1 };
        let run = CaseRun { case: &case, desc: &desc, target: &target };
        let mut positive_probe_done = false;
        for_each_satisfaction(
            &world,
            &mut rng,
            &run,
            n_tl,
            max_worlds,
            rep,
            i,
            |rep, p, spend, assets| {
                rep.count("lib-produced");
                // cross-check of the oracle on a sample of positive cases: when the library
                // produced a VM-valid witness, the search must find one too.
                if p.standard.is_ok() && !positive_probe_done && p.flow == "get_satisfaction" && p.mall {
                    positive_probe_done = true;
                    let r = search_target(&target, spend, Flags::STANDARD, &world.secp, &scfg, |path| {
                        party_alphabet(&world, assets, &target, &case, path, false)
                    });
                    rep.add("search-steps", r.steps as u64);
                    if r.unconfirmed > 0 {
                        rep.violation(
                            i,
                            "ORACLE:search-result-unconfirmed".into(),
                            format!("search result failed concrete re-verification on {}", case.desc),
                        );
                    }
                    if r.found.is_empty() {
                        if r.inconclusive {
                            rep.inconclusive("search-budget(positive)");
                        } else {
                            rep.violation(
                                i,
                                "ORACLE:search-incomplete".into(),
                                format!(
                                    "library witness verifies but the search found none: {} keys={:#x} pre={:#x} lt={} seq={:#x}",
                                    case.desc, p.key_mask, p.pre_mask, p.lock_time, p.sequence
                                ),
                            );
                        }
                    } else {
                        rep.count("search-agrees-positive");
                        if choice {
                            rep.nontrivial(&format!(
                                "pos|{}|{}|{}|{}|{}",
                                case.desc, p.key_mask, p.pre_mask, p.lock_time, p.sequence
                            ));
                        }
                    }
                }
            },
            |rep, flow, mall, spend, assets, km, pm| {
                // the library refused. Is there really no witness?
                let demand = if mall { true } else { sane && pm == all_pre };
                if !demand {
                    rep.count("refusal-not-judged(nonmall, insane or preimage missing)");
                    return;
                }
                let r = search_target(&target, spend, Flags::STANDARD, &world.secp, &scfg, |path| {
                    party_alphabet(&world, assets, &target, &case, path, false)
                });
                rep.add("search-steps", r.steps as u64);
                rep.add("search-paths", r.paths as u64);
                if r.unconfirmed > 0 {
                    rep.violation(
                        i,
                        "ORACLE:search-result-unconfirmed".into(),
                        format!("search result failed concrete re-verification on {}", case.desc),
                    );
                }
                if let Some(f) = r.found.first() {
                    let lt = spend.tx.lock_time.to_consensus_u32();
                    let seq = spend.tx.input[0].sequence.0;
                    rep.violation(
                        i,
                        format!(
                            "C02:refused-but-satisfiable:{}:{}:{:?}",
                            flow,
                            if mall { "mall" } else { "nonmall" },
                            case.kind
                        ),
                        format!(
                            "{} [{} mall={} keys={:#x} pre={:#x} nLockTime={} nSequence={:#x}] refused, but this witness from the caller's own assets verifies under STANDARD: path {} scriptSig={} witness=[{}]",
                            case.desc, flow, mall, km, pm, lt, seq, f.path_index, hex(&f.script_sig),
                            f.witness.iter().map(|w| hex(w)).collect::<Vec<_>>().join(",")
                        ),
                    );
                } else if r.inconclusive {
                    rep.inconclusive("search-budget");
                } else {
                    rep.count("refusal-confirmed-unsatisfiable");
                    if choice {
                        rep.nontrivial(&format!("neg|{}|{}|{}|{}", case.desc, km, pm, mall));
                    }
                }
            },
        );
        let _ = bitcoin::Amount::ZERO;
        if i % 2 == 0 {
            psbt_flow(cfg, rep, &world, i);
        }
    }
    if rep.samples.is_empty() {
        rep.sample("(see counters)".into());
    }
}
