//! C15: taproot outputs commit to exactly the described script tree.
//! Oracle: oracle::bip341 (tagged hashes, Merkle root of an explicit tree, tweak,
//! control block verification). Also the exactly-one cache fill under threads.

use std::str::FromStr;
use std::sync::{Arc, Barrier};

use miniscript::bitcoin;
use miniscript::descriptor::{TapTree, Tr};
use miniscript::{Descriptor, Miniscript, Tap, TranslateErr, Translator};

use bitcoin::hashes::Hash;
use bitcoin::secp256k1::XOnlyPublicKey;

use super::{guarded, last_panic_loc, norm_loc, Report, RunCfg, Tier};
use crate::oracle::bip341::{self, Tree};
use crate::prng::Rng;
use crate::world::{hex, Dk, World};

/// A model tree whose leaves are indices into `leaf_ms`.
#[derive(Clone, Debug)]
enum Shape {
    Leaf(usize),
    Node(Box<Shape>, Box<Shape>),
}

impl Shape {
    fn to_string(&self, leaf_ms: &[String]) -> String {
        match self {
            Shape::Leaf(i) => leaf_ms[*i].clone(),
            Shape::Node(a, b) => format!("{{{},{}}}", a.to_string(leaf_ms), b.to_string(leaf_ms)),
        }
    }
    fn to_tree(&self, scripts: &[Vec<u8>]) -> Tree {
        match self {
            Shape::Leaf(i) => Tree::Leaf(scripts[*i].clone()),
            Shape::Node(a, b) => Tree::Node(Box::new(a.to_tree(scripts)), Box::new(b.to_tree(scripts))),
        }
    }
    fn n_leaves(&self) -> usize {
        match self {
            Shape::Leaf(_) => 1,
            Shape::Node(a, b) => a.n_leaves() + b.n_leaves(),
        }
    }
    fn height(&self) -> usize {
        match self {
            Shape::Leaf(_) => 0,
            Shape::Node(a, b) => 1 + a.height().max(b.height()),
        }
    }
    /// all shapes with n leaves, leaves numbered left to right from `start`
    fn all(n: usize, start: usize) -> Vec<Shape> {
        if n == 1 {
            return vec![Shape::Leaf(start)];
        }
        let mut out = vec![];
        for l in 1..n {
            for a in Shape::all(l, start) {
                for b in Shape::all(n - l, start + l) {
                    out.push(Shape::Node(Box::new(a.clone()), Box::new(b)));
                }
            }
        }
        out
    }
    fn chain(depth: usize, left: bool) -> Shape {
        // depth d: d+1 leaves, deepest leaf at depth d
        let mut s = Shape::Leaf(0);
        for i in 1..=depth {
            s = if left {
                Shape::Node(Box::new(s), Box::new(Shape::Leaf(i)))
            } else {
                Shape::Node(Box::new(Shape::Leaf(i)), Box::new(s))
            };
        }
        // renumber leaves left to right
        let mut n = 0;
        fn renum(s: &mut Shape, n: &mut usize) {
            match s {
                Shape::Leaf(i) => {
                    *i = *n;
                    *n += 1
                }
                Shape::Node(a, b) => {
                    renum(a, n);
                    renum(b, n)
                }
            }
        }
        renum(&mut s, &mut n);
        s
    }
    /// A spine of `depth` levels whose deep side is chosen per level by `dir`, with `crown`
    /// grafted at its end (the crown's leaves then sit at depth `depth` + their own depth).
    fn graft(depth: usize, dir: &dyn Fn(usize) -> bool, crown: Shape) -> Shape {
        let mut s = crown;
        for i in 0..depth {
            s = if dir(i) {
                Shape::Node(Box::new(s), Box::new(Shape::Leaf(0)))
            } else {
                Shape::Node(Box::new(Shape::Leaf(0)), Box::new(s))
            };
        }
        let mut n = 0;
        fn renum(s: &mut Shape, n: &mut usize) {
            match s {
                Shape::Leaf(i) => {
                    *i = *n;
                    *n += 1
                }
                Shape::Node(a, b) => {
                    renum(a, n);
                    renum(b, n)
                }
            }
        }
        renum(&mut s, &mut n);
        s
    }
    fn balanced(n: usize, start: usize) -> Shape {
        if n == 1 {
            return Shape::Leaf(start);
        }
        let l = n / 2;
        Shape::Node(Box::new(Shape::balanced(l, start)), Box::new(Shape::balanced(n - l, start + l)))
    }
    fn random(rng: &mut Rng, n: usize, start: usize) -> Shape {
        if n == 1 {
            return Shape::Leaf(start);
        }
        let l = 1 + rng.below(n - 1);
        Shape::Node(Box::new(Shape::random(rng, l, start)), Box::new(Shape::random(rng, n - l, start + l)))
    }
    /// Build from ready-made leaf objects (cloned into place: clones share their allocation).
    fn build_from_objects(&self, pick: &dyn Fn(usize) -> TapTree<Dk>) -> Result<TapTree<Dk>, String> {
        match self {
            Shape::Leaf(i) => Ok(pick(*i)),
            Shape::Node(a, b) => TapTree::combine(a.build_from_objects(pick)?, b.build_from_objects(pick)?).map_err(|e| e.to_string()),
        }
    }
    fn depths(&self, d: u8, out: &mut Vec<(usize, u8)>) {
        match self {
            Shape::Leaf(i) => out.push((*i, d)),
            Shape::Node(a, b) => {
                a.depths(d + 1, out);
                b.depths(d + 1, out);
            }
        }
    }
    fn build_lib(&self, leaves: &[Miniscript<Dk, Tap>]) -> Result<TapTree<Dk>, String> {
        match self {
            Shape::Leaf(i) => Ok(TapTree::leaf(leaves[*i].clone())),
            Shape::Node(a, b) => TapTree::combine(a.build_lib(leaves)?, b.build_lib(leaves)?).map_err(|e| e.to_string()),
        }
    }
}

/// Drive an iterator through its adaptor entry points and compare with the plain forward walk.
/// Returns a description of the first deviation ("nth(3) ...").
pub fn iter_protocol<I: Iterator, T: PartialEq + std::fmt::Debug>(mk: &dyn Fn() -> I, f: &dyn Fn(I::Item) -> T, want: &[T]) -> Option<String> {
    let n = want.len();
    let brief = |t: &Option<T>| format!("{:?}", t).chars().take(120).collect::<String>();
    if mk().count() != n {
        return Some(format!("count() = {} for {} items", mk().count(), n));
    }
    let (lo, hi) = mk().size_hint();
    if lo > n || hi.map(|h| h < n).unwrap_or(false) {
        return Some(format!("size_hint() = ({}, {:?}) for {} items", lo, hi, n));
    }
    let last = mk().last().map(f);
    if last.as_ref() != want.last() {
        return Some(format!("last() = {} differs from the last item of the forward walk", brief(&last)));
    }
    let ks: Vec<usize> = if n <= 12 { (0..=n + 1).collect() } else { vec![0, 1, 2, 3, n / 2, n - 2, n - 1, n, n + 1] };
    for k in ks {
        let got = mk().nth(k).map(f);
        if got.as_ref() != want.get(k) {
            return Some(format!("nth({}) = {} but the forward walk has {:?} there", k, brief(&got), want.get(k).map(|w| format!("{:?}", w).chars().take(120).collect::<String>())));
        }
        // ... and the iterator carries on correctly after the jump
        let mut it = mk();
        let _ = it.nth(k);
        let rest: Vec<T> = it.map(f).collect();
        let want_rest: &[T] = if k + 1 <= n { &want[k + 1..] } else { &[] };
        if rest[..] != want_rest[..] {
            return Some(format!("nth({}) then next()...: {} items follow instead of the {} of the forward walk (or they differ)", k, rest.len(), want_rest.len()));
        }
    }
    for (a, b) in [(1usize, 1usize), (2, 1), (0, 2), (1, 2), (3, 3)] {
        let got: Vec<T> = mk().skip(a).step_by(b).map(f).collect();
        let exp: Vec<&T> = want.iter().skip(a).step_by(b).collect();
        if got.len() != exp.len() || got.iter().zip(exp.iter()).any(|(g, e)| g != *e) {
            return Some(format!("skip({}).step_by({}) yields {} items that differ from the forward walk's {}", a, b, got.len(), exp.len()));
        }
    }
    None
}

struct Ident;
impl Translator<Dk> for Ident {
    type TargetPk = Dk;
    type Error = ();
    fn pk(&mut self, pk: &Dk) -> Result<Dk, ()> { Ok(pk.clone()) }
    fn sha256(&mut self, h: &bitcoin::hashes::sha256::Hash) -> Result<bitcoin::hashes::sha256::Hash, ()> { Ok(*h) }
    fn hash256(&mut self, h: &miniscript::hash256::Hash) -> Result<miniscript::hash256::Hash, ()> { Ok(*h) }
    fn ripemd160(&mut self, h: &bitcoin::hashes::ripemd160::Hash) -> Result<bitcoin::hashes::ripemd160::Hash, ()> { Ok(*h) }
    fn hash160(&mut self, h: &bitcoin::hashes::hash160::Hash) -> Result<bitcoin::hashes::hash160::Hash, ()> { Ok(*h) }
}

/// Leaf i: a distinct, simple miniscript with a script known from the specification.
fn leaf_ms(world: &World, i: usize) -> (String, Vec<u8>) {
    let k = &world.keys[i % world.keys.len()];
    let kx = k.xonly.serialize();
    match (i / world.keys.len()) % 3 {
        0 => {
            // pk(K): <K> CHECKSIG
            let mut s = vec![0x20];
            s.extend_from_slice(&kx);
            s.push(0xac);
            (format!("pk({})", k.xonly_hex), s)
        }
        1 => {
            // and_v(v:pk(K),older(n)): <K> CHECKSIGVERIFY <n> CSV
            let n = 1 + (i as u8 % 16);
            let mut s = vec![0x20];
            s.extend_from_slice(&kx);
            s.push(0xad);
            s.push(0x50 + n);
            s.push(0xb2);
            (format!("and_v(v:pk({}),older({}))", k.xonly_hex, n), s)
        }
        _ => {
            // and_v(v:pk(K),after(n)) with n in 17..: <K> CHECKSIGVERIFY <push n> CLTV
            let n = 17 + (i % 100) as u8;
            let mut s = vec![0x20];
            s.extend_from_slice(&kx);
            s.push(0xad);
            s.push(0x01);
            s.push(n);
            s.push(0xb1);
            (format!("and_v(v:pk({}),after({}))", k.xonly_hex, n), s)
        }
    }
}

fn check_tree(rep: &mut Report, case: u64, world: &World, shape: &Shape, ik: usize, how: &str) {
    rep.eval();
    let n = shape.n_leaves();
    let leaves: Vec<(String, Vec<u8>)> = (0..n).map(|i| leaf_ms(world, i + 1)).collect();
    let names: Vec<String> = leaves.iter().map(|l| l.0.clone()).collect();
    let scripts: Vec<Vec<u8>> = leaves.iter().map(|l| l.1.clone()).collect();
    let ikey = &world.keys[ik % world.keys.len()];
    let s = format!("tr({},{})", ikey.xonly_hex, shape.to_string(&names));
    let height = shape.height();
    // a tree beyond the depth limit must be refused by the constructors as well as by the parser
    if height > 128 && n <= 300 {
        let mss: Vec<Miniscript<Dk, Tap>> = names.iter().filter_map(|m| Miniscript::<Dk, Tap>::from_str(m).ok()).collect();
        if mss.len() == n {
            match guarded(std::panic::AssertUnwindSafe(|| shape.build_lib(&mss).map(|t| t.leaves().map(|l| l.depth()).max().unwrap_or(0)))) {
                Ok(Ok(deepest)) => rep.violation(
                    case,
                    "C15:too-deep-tree-accepted:combine-api".into(),
                    format!("TapTree::leaf/combine built a tree of height {} (deepest leaf reported at depth {}) ({})", height, deepest, how),
                ),
                Ok(Err(_)) => rep.count("too-deep-tree-refused(combine api)"),
                Err(m) => rep.violation(case, format!("C15:panic:combine:{}", norm_loc(&last_panic_loc())), format!("{} on a tree of height {} ({})", m, height, how)),
            }
        }
    }
    let parsed = guarded(|| Descriptor::<Dk>::from_str(&s));
    let d = match parsed {
        Err(m) => {
            rep.violation(case, format!("C15:panic:from_str:{}", norm_loc(&last_panic_loc())), format!("Descriptor::from_str panicked ({}) on a tree of height {} ({})", m, height, how));
            return;
        }
        Ok(Err(e)) => {
            if height <= 128 {
                rep.violation(case, format!("C15:valid-tree-rejected:{}", how), format!("tree of height {} with {} leaves rejected: {} ({})", height, n, e, how));
            } else {
                rep.count("too-deep-tree-refused");
                rep.nontrivial(&format!("deep|{}|{}", how, height));
            }
            return;
        }
        Ok(Ok(d)) => d,
    };
    if height > 128 {
        rep.violation(case, "C15:too-deep-tree-accepted".into(), format!("tree of height {} accepted ({})", height, how));
        return;
    }
    let tr = match &d {
        Descriptor::Tr(t) => t.clone(),
        _ => return,
    };
    let model = shape.to_tree(&scripts);
    let model_root = model.root();
    let model_leaves = model.leaves();
    let model_out = bip341::output_key(&world.secp, &ikey.xonly, Some(model_root));
    let r = guarded(std::panic::AssertUnwindSafe(|| {
        let info = tr.spend_info();
        let root = info.merkle_root().map(|h| h.to_byte_array());
        let out = info.output_key().to_x_only_public_key().serialize();
        let parity = info.output_key_parity();
        let spk = tr.script_pubkey().to_bytes();
        let lv: Vec<(u8, Vec<u8>, Vec<u8>, [u8; 32])> = info
            .leaves()
            .map(|l| (l.depth(), l.script().to_bytes(), l.control_block().serialize(), l.leaf_hash().to_byte_array()))
            .collect();
        let tl: Vec<(u8, Vec<u8>)> = tr.leaves().map(|l| (l.depth(), l.compute_script().to_bytes())).collect();
        let ttt: Option<Vec<(u8, Vec<u8>)>> = info.to_tap_tree().map(|t| t.script_leaves().map(|l| (l.merkle_branch().len() as u8, l.script().to_bytes())).collect());
        let shown = tr.to_string();
        let translated = match tr.translate_pk(&mut Ident) {
            Ok(t) => Some((t.to_string(), t.script_pubkey().to_bytes())),
            Err(TranslateErr::TranslatorErr(_)) | Err(TranslateErr::OuterError(_)) => None,
        };
        (root, out, parity, spk, lv, tl, ttt, shown, translated)
    }));
    let (root, out, parity, spk, lv, tl, ttt, shown, translated) = match r {
        Ok(x) => x,
        Err(m) => {
            rep.violation(case, format!("C15:panic:spend_info:{}", norm_loc(&last_panic_loc())), format!("spend_info/leaves panicked ({}) on tree of height {} with {} leaves ({})", m, height, n, how));
            return;
        }
    };
    rep.nontrivial(&format!("{}|{}|{}", how, n, s.len()));
    let brief = || format!("{} leaves, height {} ({}): {}", n, height, how, if s.len() > 400 { format!("{}...", &s[..400]) } else { s.clone() });
    if root != Some(model_root) {
        rep.violation(case, format!("C15:merkle-root:{}", how), format!("merkle_root {:?} but BIP-341 gives {}: {}", root.map(|r| hex(&r)), hex(&model_root), brief()));
    }
    match model_out {
        Some((q, par)) => {
            if out != q.serialize() || parity != par {
                rep.violation(case, format!("C15:output-key:{}", how), format!("output key {} / {:?} but BIP-341 gives {} / {:?}: {}", hex(&out), parity, hex(&q.serialize()), par, brief()));
            }
            let mut want = vec![0x51, 0x20];
            want.extend_from_slice(&q.serialize());
            if spk != want {
                rep.violation(case, format!("C15:script-pubkey:{}", how), format!("scriptPubKey {} but expected {}: {}", hex(&spk), hex(&want), brief()));
            }
        }
        None => rep.inconclusive("tweak-out-of-range"),
    }
    // the address is the encoding of that scriptPubKey on every network
    // (asked of a freshly parsed object first: nothing has been computed or cached on it yet)
    match guarded(std::panic::AssertUnwindSafe(|| {
        let cold = Tr::<Dk>::from_str(&s).ok();
        let first = cold.as_ref().map(|c| c.address(bitcoin::Network::Bitcoin).script_pubkey().to_bytes()).unwrap_or_else(|| spk.clone());
        let again = cold.as_ref().map(|c| c.address(bitcoin::Network::Bitcoin).script_pubkey().to_bytes()).unwrap_or_else(|| spk.clone());
        let warm = [bitcoin::Network::Testnet, bitcoin::Network::Regtest].map(|n| tr.address(n).script_pubkey().to_bytes());
        [first, again, warm[0].clone(), warm[1].clone()]
    })) {
        Ok(a) => {
            if a.iter().any(|x| *x != spk) {
                rep.violation(case, format!("C15:address:{}", how), format!("address encodes {} but the scriptPubKey is {}: {}", hex(&a[0]), hex(&spk), brief()));
            } else {
                rep.count("address-encodes-script-pubkey");
            }
        }
        Err(m) => rep.violation(case, format!("C15:panic:address:{}", norm_loc(&last_panic_loc())), format!("{}: {}", m, brief())),
    }
    // leaves: same order, depth, script; control blocks prove the leaf against the output key
    let want: Vec<(u8, Vec<u8>)> = model_leaves.iter().map(|(d, s, _)| (*d as u8, s.clone())).collect();
    let got: Vec<(u8, Vec<u8>)> = lv.iter().map(|(d, s, _, _)| (*d, s.clone())).collect();
    if got != want {
        rep.violation(case, format!("C15:spend-info-leaves:{}", how), format!("spend_info().leaves() yields (depth,script) {:?} but the described tree has {:?}: {}", short(&got), short(&want), brief()));
    }
    if tl != want {
        rep.violation(case, format!("C15:taptree-leaves:{}", how), format!("Tr::leaves() yields {:?} but the described tree has {:?}: {}", short(&tl), short(&want), brief()));
    }
    // rust-bitcoin's TapTree iterates leaves in its own order (BIP-341 commitments do not
    // depend on left/right order): compare as a multiset of (depth, script)
    let sorted = |v: &Vec<(u8, Vec<u8>)>| {
        let mut x = v.clone();
        x.sort();
        x
    };
    match ttt {
        Some(t) if sorted(&t) == sorted(&want) => {}
        other => rep.violation(case, format!("C15:to_tap_tree:{}", how), format!("to_tap_tree() leaves {:?} but the described tree has {:?}: {}", other.as_ref().map(|x| short(x)), short(&want), brief())),
    }
    let prog = model_out.map(|(q, _)| q.serialize());
    for (i, (depth, script, control, lh)) in lv.iter().enumerate() {
        if control.len() != 33 + 32 * (*depth as usize) {
            rep.violation(case, format!("C15:control-block-length:{}", how), format!("leaf {} at depth {} has a control block of {} bytes: {}", i, depth, control.len(), brief()));
        }
        if let Some(p) = prog {
            match bip341::verify_control_block(&world.secp, &p, control, script) {
                Ok(h) => {
                    if h != *lh {
                        rep.violation(case, format!("C15:leaf-hash:{}", how), format!("leaf {} leaf_hash differs from TapLeaf hash: {}", i, brief()));
                    }
                    rep.count("control-block-verified");
                }
                Err(e) => rep.violation(case, format!("C15:control-block-invalid:{}", how), format!("control block of leaf {} does not prove it against the output key ({}): {}", i, e, brief())),
            }
        }
        if i < model_leaves.len() {
            // the merkle path itself equals the model's
            let path: Vec<u8> = model_leaves[i].2.iter().flat_map(|h| h.to_vec()).collect();
            if control.len() >= 33 && control[33..] != path[..] {
                rep.violation(case, format!("C15:merkle-path:{}", how), format!("leaf {} merkle path differs from the BIP-341 path: {}", i, brief()));
            }
        }
    }
    // round trips preserve the (depth, leaf) list
    if shown != s && !shown.starts_with(&s) {
        rep.violation(case, format!("C15:display:{}", how), format!("printed as {} ", if shown.len() > 300 { &shown[..300] } else { &shown }));
    }
    match guarded(|| Tr::<Dk>::from_str(&shown).map(|t| t.leaves().map(|l| (l.depth(), l.compute_script().to_bytes())).collect::<Vec<_>>())) {
        Ok(Ok(l)) if l == want => {}
        _ => rep.violation(case, format!("C15:string-roundtrip:{}", how), format!("re-parsing the printed form does not preserve the leaves: {}", brief())),
    }
    match translated {
        Some((ts, tspk)) if ts == shown && tspk == spk => {}
        other => rep.violation(case, format!("C15:translate:{}", how), format!("identity key translation gives {:?}: {}", other.map(|x| x.0.chars().take(200).collect::<String>()), brief())),
    }
    // iterator protocol: every way of driving the leaf iterators (nth, skip, step_by, last, count)
    // has to yield the items the plain forward walk yields (that walk is judged above)
    {
        let r = guarded(std::panic::AssertUnwindSafe(|| {
            let info = tr.spend_info();
            let item = |l: miniscript::descriptor::TrSpendInfoIterItem<'_, Dk>| (l.depth(), l.script().to_bytes(), l.control_block().serialize());
            let fwd: Vec<_> = info.leaves().map(item).collect();
            let a = iter_protocol(&|| info.leaves(), &item, &fwd);
            let item2 = |l: miniscript::descriptor::TapTreeIterItem<'_, Dk>| (l.depth(), l.compute_script().to_bytes());
            let fwd2: Vec<_> = tr.leaves().map(item2).collect();
            let b = iter_protocol(&|| tr.leaves(), &item2, &fwd2);
            (a, b)
        }));
        match r {
            Ok((a, b)) => {
                rep.count("iterator-protocol-checked");
                if let Some(m) = a {
                    rep.violation(case, format!("C15:spend-info-iterator:{}", m.split(' ').next().unwrap_or("")), format!("spend_info().leaves(): {}; {}", m, brief()));
                }
                if let Some(m) = b {
                    rep.violation(case, format!("C15:taptree-iterator:{}", m.split(' ').next().unwrap_or("")), format!("Tr::leaves(): {}; {}", m, brief()));
                }
            }
            Err(m) => rep.violation(case, format!("C15:panic:leaf-iterators:{}", norm_loc(&last_panic_loc())), format!("driving the leaf iterators panicked ({}): {}", m, brief())),
        }
    }
    // the same tree built through the TapTree::leaf / combine API
    // the leaf iterators are double ended: from the back they must give the same leaves
    {
        let fwd: Vec<(u8, Vec<u8>)> = tr.leaves().map(|l| (l.depth(), l.miniscript().encode().to_bytes())).collect();
        let r = guarded(std::panic::AssertUnwindSafe(|| {
            let mut back: Vec<(u8, Vec<u8>)> = tr.leaves().rev().map(|l| (l.depth(), l.miniscript().encode().to_bytes())).collect();
            back.reverse();
            // alternating ends
            let mut it = tr.leaves();
            let (mut head, mut tail) = (vec![], vec![]);
            loop {
                match it.next() {
                    Some(l) => head.push((l.depth(), l.miniscript().encode().to_bytes())),
                    None => break,
                }
                match it.next_back() {
                    Some(l) => tail.push((l.depth(), l.miniscript().encode().to_bytes())),
                    None => break,
                }
            }
            tail.reverse();
            head.extend(tail);
            (back, head)
        }));
        match r {
            Ok((back, mixed)) => {
                if back != fwd || mixed != fwd {
                    rep.violation(case, format!("C15:leaves-from-the-back:{}", how), format!("leaves().rev() / alternating next()+next_back() do not give the forward leaves: forward {:?} back {:?} mixed {:?}; {}", short(&fwd), short(&back), short(&mixed), brief()));
                } else {
                    rep.count("leaves-double-ended-consistent");
                }
            }
            Err(m) => rep.violation(case, format!("C15:panic:leaves-rev:{}", norm_loc(&last_panic_loc())), format!("{}: {}", m, brief())),
        }
    }
    // the same shape with only two leaf OBJECTS, cloned into every position (all leaves but the
    // last are clones of one object, so neighbours at different depths share one allocation):
    // depth and script of every position must survive construction, key translation and printing
    if n >= 2 && n <= 64 {
        let objs: Vec<TapTree<Dk>> = names.iter().take(2).filter_map(|m| Miniscript::<Dk, Tap>::from_str(m).ok()).map(TapTree::leaf).collect();
        if objs.len() == 2 {
            let which = |i: usize| if i + 1 == n { 1 } else { 0 };
            let mut want: Vec<(usize, u8)> = vec![];
            shape.depths(0, &mut want);
            let want: Vec<(u8, Vec<u8>)> = want.iter().map(|(i, d)| (*d, scripts[which(*i)].clone())).collect();
            let r = guarded(std::panic::AssertUnwindSafe(|| {
                let t = shape.build_from_objects(&|i| objs[which(i)].clone())?;
                let t2 = Tr::new(tr.internal_key().clone(), Some(t)).map_err(|e| e.to_string())?;
                let list = |x: &Tr<Dk>| x.leaves().map(|l| (l.depth(), l.compute_script().to_bytes())).collect::<Vec<_>>();
                let built = list(&t2);
                let translated = t2.translate_pk(&mut Ident).map(|x| (list(&x), x.script_pubkey().to_bytes())).map_err(|_| "translate failed".to_string())?;
                let reparsed = Tr::<Dk>::from_str(&t2.to_string()).map(|x| (list(&x), x.script_pubkey().to_bytes())).map_err(|e| e.to_string())?;
                Ok::<_, String>((built, translated, reparsed, t2.script_pubkey().to_bytes()))
            }));
            match r {
                Ok(Ok((built, translated, reparsed, spk2))) => {
                    rep.count("shared-leaf-objects-checked");
                    if built != want {
                        rep.violation(case, format!("C15:shared-leaves:construction:{}", how), format!("a tree of {} clones of two leaf objects has leaves {:?}, expected {:?} ({})", n, short(&built), short(&want), how));
                    } else if translated.0 != want || translated.1 != spk2 {
                        rep.violation(case, format!("C15:shared-leaves:translate:{}", how), format!("identity translation of a tree of {} clones of two leaf objects gives leaves {:?}, expected {:?} ({})", n, short(&translated.0), short(&want), how));
                    } else if reparsed.0 != want || reparsed.1 != spk2 {
                        rep.violation(case, format!("C15:shared-leaves:string-roundtrip:{}", how), format!("printing and re-parsing a tree of {} clones of two leaf objects gives leaves {:?}, expected {:?} ({})", n, short(&reparsed.0), short(&want), how));
                    }
                }
                Ok(Err(e)) => rep.violation(case, format!("C15:shared-leaves:refused:{}", how), format!("{} ({} leaves, height {}, {})", e, n, height, how)),
                Err(m) => rep.violation(case, format!("C15:panic:shared-leaves:{}", norm_loc(&last_panic_loc())), format!("{} ({} leaves, height {}, {})", m, n, height, how)),
            }
        }
    }
    if n <= 300 {
        let mss: Vec<Miniscript<Dk, Tap>> = names.iter().filter_map(|m| Miniscript::<Dk, Tap>::from_str(m).ok()).collect();
        if mss.len() == n {
            match guarded(std::panic::AssertUnwindSafe(|| shape.build_lib(&mss).and_then(|t| Tr::new(tr.internal_key().clone(), Some(t)).map_err(|e| e.to_string())))) {
                Ok(Ok(t2)) => {
                    if t2 != tr || t2.script_pubkey().to_bytes() != spk {
                        rep.violation(case, format!("C15:combine-api:{}", how), format!("tree built with TapTree::combine differs from the parsed one: {}", brief()));
                    }
                }
                Ok(Err(e)) => rep.violation(case, format!("C15:combine-api-refuses:{}", how), format!("{}: {}", e, brief())),
                Err(m) => rep.violation(case, format!("C15:panic:combine:{}", norm_loc(&last_panic_loc())), format!("{}: {}", m, brief())),
            }
        }
    }
}

fn short(v: &[(u8, Vec<u8>)]) -> Vec<String> {
    v.iter().take(12).map(|(d, s)| format!("{}:{}..", d, hex(&s[..s.len().min(6)]))).collect()
}

/// 16 threads race on the spend-info cache of one descriptor: exactly one fill.
fn cache_race(rep: &mut Report, case: u64, world: &World, rng: &mut Rng) {
    let n = 2 + rng.below(5);
    let shape = Shape::random(rng, n, 0);
    let names: Vec<String> = (0..n).map(|i| leaf_ms(world, i + 1 + rng.below(3)).0).collect();
    let s = format!("tr({},{})", world.keys[rng.below(8)].xonly_hex, shape.to_string(&names));
    let tr = match Tr::<Dk>::from_str(&s) {
        Ok(t) => Arc::new(t),
        Err(_) => return,
    };
    rep.eval();
    let threads = 16;
    let barrier = Arc::new(Barrier::new(threads));
    let mut hs = vec![];
    for t in 0..threads {
        let tr = tr.clone();
        let b = barrier.clone();
        hs.push(std::thread::spawn(move || {
            b.wait();
            if t % 4 == 3 {
                // a clone has its own (copied or empty) cache: must agree in value
                let c = (*tr).clone();
                (Arc::as_ptr(&c.spend_info()) as usize, c.script_pubkey().to_bytes(), true)
            } else {
                let a = tr.spend_info();
                (Arc::as_ptr(&a) as usize, tr.script_pubkey().to_bytes(), false)
            }
        }));
    }
    let mut ptrs = std::collections::BTreeSet::new();
    let mut spks = std::collections::BTreeSet::new();
    for h in hs {
        match h.join() {
            Ok((p, spk, is_clone)) => {
                if !is_clone {
                    ptrs.insert(p);
                }
                spks.insert(spk);
            }
            Err(_) => rep.violation(case, "C15:panic:cache-race".into(), format!("a thread panicked in spend_info() on {}", s)),
        }
    }
    // one more call after the race must return the same Arc
    ptrs.insert(Arc::as_ptr(&tr.spend_info()) as usize);
    if ptrs.len() != 1 {
        rep.violation(case, "C15:cache-filled-more-than-once".into(), format!("{} distinct TrSpendInfo allocations were handed out for one descriptor: {}", ptrs.len(), s));
    } else if spks.len() != 1 {
        rep.violation(case, "C15:cache-inconsistent".into(), format!("threads saw {} different scriptPubKeys for {}", spks.len(), s));
    } else {
        rep.count("cache-race:exactly-one-fill");
        rep.nontrivial(&format!("race|{}", s));
    }
}

pub fn run(cfg: &RunCfg, rep: &mut Report) {
    let world = World::new(cfg.seed);
    let max_exh = if cfg.tier == Tier::Thorough { 7 } else { 6 };
    // exhaustive shapes (sharded), chains of every depth, balanced, random
    let mut work: Vec<(Shape, String)> = vec![];
    for n in 1..=max_exh {
        for s in Shape::all(n, 0) {
            work.push((s, format!("all-shapes-{}", n)));
        }
    }
    for d in 1..=130 {
        work.push((Shape::chain(d, true), "left-chain".into()));
        work.push((Shape::chain(d, false), "right-chain".into()));
    }
    for n in [2usize, 3, 5, 8, 16, 33, 64, 128, 256] {
        work.push((Shape::balanced(n, 0), "balanced".into()));
    }
    // deep spines carrying a crown, so that several nodes / sibling pairs sit at and around the
    // depth limit (crown leaves at depth 124..=130; beyond 128 must be refused)
    let mut rng = cfg.case_rng(0);
    let mut crowns: Vec<Shape> = vec![];
    for n in 2..=4 {
        crowns.extend(Shape::all(n, 0));
    }
    crowns.push(Shape::balanced(8, 0));
    for crown in &crowns {
        let h = crown.height();
        for deepest in [126usize, 127, 128, 129] {
            if deepest < h {
                continue;
            }
            let d = deepest - h;
            work.push((Shape::graft(d, &|_| true, crown.clone()), "left-spine+crown".into()));
            work.push((Shape::graft(d, &|_| false, crown.clone()), "right-spine+crown".into()));
            work.push((Shape::graft(d, &|i| i % 2 == 0, crown.clone()), "zigzag-spine+crown".into()));
        }
    }
    let n_spines = cfg.n_cases(40, 2_000) as usize;
    for _ in 0..n_spines {
        let nl = 2 + rng.below(6);
        let crown = Shape::random(&mut rng, nl, 0);
        let deepest = *rng.pick(&[20usize, 64, 100, 120, 125, 126, 127, 128, 128, 129]);
        let d = deepest.saturating_sub(crown.height());
        let bits: Vec<bool> = (0..d).map(|_| rng.coin()).collect();
        work.push((Shape::graft(d, &|i| bits[i], crown), "random-spine+crown".into()));
    }
    let n_random = cfg.n_cases(600, 20_000) as usize;
    for _ in 0..n_random {
        let cap = if rng.chance(1, 10) { 60 } else { 12 };
        let n = 1 + rng.below(cap);
        work.push((Shape::random(&mut rng, n, 0), "random".into()));
    }
    for (i, (shape, how)) in work.iter().enumerate() {
        if i as u64 % cfg.nshards != cfg.shard {
            continue;
        }
        if let Some(c) = cfg.only_case {
            if c != i as u64 {
                continue;
            }
        }
        check_tree(rep, i as u64, &world, shape, i, how);
        if rep.samples.len() < rep.max_samples && i % 97 == 0 {
            rep.sample(format!("{}: {} leaves, height {}", how, shape.n_leaves(), shape.height()));
        }
    }
    // key-path only descriptor
    if cfg.shard == 0 {
        rep.eval();
        let k = &world.keys[3];
        let s = format!("tr({})", k.xonly_hex);
        if let Ok(Descriptor::Tr(tr)) = Descriptor::<Dk>::from_str(&s) {
            let info = tr.spend_info();
            let want = bip341::output_key(&world.secp, &k.xonly, None).map(|(q, _)| q.serialize());
            if info.merkle_root().is_some() || Some(info.output_key().to_x_only_public_key().serialize()) != want {
                rep.violation(0, "C15:key-only-output-key".into(), format!("tr(K) output key differs from the BIP-341 key-only tweak: {}", s));
            } else {
                rep.nontrivial("key-only");
            }
        }
        let _ = XOnlyPublicKey::from_slice;
    }
    // concurrency
    let races = cfg.n_cases(320, 8_000);
    for i in cfg.cases(races) {
        let mut rng = cfg.case_rng(0x1500_0000 + i);
        cache_race(rep, 0x1500_0000 + i, &world, &mut rng);
    }
    if rep.samples.is_empty() {
        rep.sample("(see counters)".into());
    }
}
