//! C12: accepted scripts obey their context; validation switches mean what they say.

use std::collections::BTreeMap;
use std::str::FromStr;

use miniscript::bitcoin;
use miniscript::descriptor::TapTree;
use miniscript::{
    BareCtx, DefiniteDescriptorKey, Descriptor, Legacy, Miniscript, ScriptContext, Segwitv0, Tap, ToPublicKey,
    TranslateErr, Translator, ValidationParams,
};

use super::{guarded, last_panic_loc, norm_loc, Report, RunCfg, Tier};
use crate::frag::{AbstractNames, Cx, Frag, Gen, GenCfg, KeyForm, KeyRef, Names};
use crate::oracle::spec_types::Base;
use crate::pol::Atom;
use crate::prng::Rng;
use crate::world::{Dk, World};

/// Independent statement of the context rules. Returns the first rule violated.
pub fn ctx_rules(f: &Frag, cx: Cx, top_level: bool, script_len: Option<usize>) -> Result<(), String> {
    ctx_rules_ext(f, cx, top_level, script_len, top_level, true)
}

/// `descriptor_level`: apply the bare-standardness rule (a descriptor top-level rule);
/// `pkh_keys_visible`: keys under pk_h are part of the object (not for objects decoded from script).
pub fn ctx_rules_ext(f: &Frag, cx: Cx, top_level: bool, script_len: Option<usize>, descriptor_level: bool, pkh_keys_visible: bool) -> Result<(), String> {
    let tap = cx.is_tap();
    let ty = f.spec_type(false).map_err(|e| format!("ill-typed:{}", e))?;
    if top_level && ty.base != Base::B {
        return Err(format!("top-level-not-B:{:?}", ty.base));
    }
    let mut err: Option<String> = None;
    let mut set = |e: String| {
        if err.is_none() {
            err = Some(e)
        }
    };
    let key_ok = |k: &KeyRef| match (cx, k.form) {
        (Cx::Bare | Cx::Legacy, KeyForm::Compressed | KeyForm::Uncompressed) => true,
        (Cx::Segwitv0, KeyForm::Compressed) => true,
        (Cx::Tap, KeyForm::XOnly | KeyForm::Compressed) => true,
        _ => false,
    };
    f.walk(&mut |n| match n {
        Frag::PkK(k) => {
            if !key_ok(k) {
                set(format!("key-kind:{:?}-in-{}", k.form, cx.name()))
            }
        }
        Frag::PkH(k) => {
            if pkh_keys_visible && !key_ok(k) {
                set(format!("key-kind:{:?}-in-{}", k.form, cx.name()))
            }
        }
        Frag::Multi(k, ks) | Frag::SortedMulti(k, ks) => {
            if tap {
                set("multi-in-tap".into())
            }
            if *k == 0 || *k > ks.len() || ks.len() > 20 {
                set(format!("multi-k-n:{}-of-{}", k, ks.len()))
            }
            for key in ks {
                if !key_ok(key) {
                    set(format!("key-kind:{:?}-in-{}", key.form, cx.name()))
                }
            }
        }
        Frag::MultiA(k, ks) | Frag::SortedMultiA(k, ks) => {
            if !tap {
                set(format!("multi_a-in-{}", cx.name()))
            }
            if *k == 0 || *k > ks.len() || ks.len() > 999 {
                set(format!("multi_a-k-n:{}-of-{}", k, ks.len()))
            }
            for key in ks {
                if !key_ok(key) {
                    set(format!("key-kind:{:?}-in-{}", key.form, cx.name()))
                }
            }
        }
        Frag::Thresh(k, xs) => {
            if *k == 0 || *k > xs.len() {
                set(format!("thresh-k-n:{}-of-{}", k, xs.len()))
            }
        }
        Frag::After(t) => {
            if *t == 0 || *t > 0x7fff_ffff {
                set(format!("after-range:{}", t))
            }
        }
        Frag::Older(t) => {
            if *t == 0 || *t > 0x7fff_ffff {
                set(format!("older-range:{}", t))
            }
        }
        _ => {}
    });
    if let Some(e) = err {
        return Err(e);
    }
    if f.height() > 402 {
        return Err("depth>402".into());
    }
    if let Some(l) = script_len {
        let lim = match cx {
            Cx::Legacy => 520,
            Cx::Segwitv0 => 10_000,
            Cx::Bare => 10_000,
            Cx::Tap => usize::MAX,
        };
        if l > lim {
            return Err(format!("script-size:{}>{}", l, lim));
        }
    }
    if descriptor_level && cx == Cx::Bare {
        let ok = match f {
            Frag::Check(x) => matches!(**x, Frag::PkK(_) | Frag::PkH(_)),
            Frag::Multi(_, ks) | Frag::SortedMulti(_, ks) => ks.len() <= 3,
            _ => false,
        };
        if !ok {
            return Err("bare-nonstandard".into());
        }
    }
    Ok(())
}

/// The defects the validation switches talk about, computed from the AST.
#[derive(Debug, Default, Clone)]
pub struct Defects {
    pub dup_keys: bool,
    pub mixed_timelocks: bool,
    /// mixed-time-lock verdict is only exact without dead branches
    pub mixed_judgeable: bool,
    pub malleable: bool,
    pub sigless: bool,
    pub non_b: bool,
    pub dup_if: bool,
    pub or_i: bool,
    pub multi: bool,
    pub multi_a: bool,
    pub unsatisfiable: bool,
}

pub fn defects(f: &Frag) -> Option<Defects> { defects_ext(f, false) }

pub fn defects_ext(f: &Frag, forms_distinct: bool) -> Option<Defects> {
    let ty = f.spec_type(false).ok()?;
    let keys = f.keys();
    let mut ids: Vec<usize> = keys.iter().map(|k| if forms_distinct { k.id * 4 + k.form as usize } else { k.id }).collect();
    ids.sort();
    let n = ids.len();
    ids.dedup();
    let pol = f.to_pol();
    let has_dead = f.any(&|n| matches!(n, Frag::False)) || !all_children_satisfiable(f);
    let mixed = match pol.paths(4096) {
        Some(paths) => {
            const T: u32 = 500_000_000;
            Some(paths.iter().any(|p| {
                let ah = p.iter().any(|a| matches!(a, Atom::After(t) if *t < T));
                let at = p.iter().any(|a| matches!(a, Atom::After(t) if *t >= T));
                let oh = p.iter().any(|a| matches!(a, Atom::Older(t) if t & (1 << 22) == 0));
                let ot = p.iter().any(|a| matches!(a, Atom::Older(t) if t & (1 << 22) != 0));
                (ah && at) || (oh && ot)
            }))
        }
        None => None,
    };
    Some(Defects {
        dup_keys: ids.len() != n,
        mixed_timelocks: mixed.unwrap_or(false),
        mixed_judgeable: mixed.is_some() && !has_dead,
        malleable: !ty.m,
        sigless: !ty.s,
        non_b: ty.base != Base::B,
        dup_if: f.any(&|n| matches!(n, Frag::DupIf(_))),
        or_i: f.any(&|n| matches!(n, Frag::OrI(..))),
        multi: f.any(&|n| matches!(n, Frag::Multi(..) | Frag::SortedMulti(..))),
        multi_a: f.any(&|n| matches!(n, Frag::MultiA(..) | Frag::SortedMultiA(..))),
        unsatisfiable: !f.satisfiable(),
    })
}

fn all_children_satisfiable(f: &Frag) -> bool {
    let mut ok = true;
    f.walk(&mut |n| {
        if !n.satisfiable() {
            ok = false
        }
    });
    ok
}

/// Hostile variants of a fragment: out-of-range numbers, wrong key kinds, wrong multisig flavour.
fn make_hostile(rng: &mut Rng, f: &mut Frag) -> Option<&'static str> {
    let n = f.n_nodes();
    for _ in 0..10 {
        let mut idx = rng.below(n);
        let mut what = None;
        let r = rng.below(10);
        f.with_node_mut(&mut idx, &mut |node| {
            what = match node {
                Frag::After(t) => {
                    *t = [0u32, 0x8000_0000, 0xffff_ffff, 0x7fff_ffff][r % 4];
                    Some("after edge")
                }
                Frag::Older(t) => {
                    *t = [0u32, 0x8000_0000, 0xffff_ffff, 0x7fff_ffff, 0x0040_0000, 0x0001_0000][r % 6];
                    Some("older edge")
                }
                Frag::Thresh(k, xs) => {
                    *k = [0, xs.len() + 1, xs.len()][r % 3];
                    Some("thresh k edge")
                }
                Frag::Multi(k, ks) | Frag::SortedMulti(k, ks) | Frag::MultiA(k, ks) | Frag::SortedMultiA(k, ks) => {
                    match r % 4 {
                        0 => {
                            *k = 0;
                            Some("multi k=0")
                        }
                        1 => {
                            *k = ks.len() + 1;
                            Some("multi k>n")
                        }
                        2 => {
                            while ks.len() < 21 {
                                ks.push(KeyRef { id: ks.len() % 8, form: ks[0].form });
                            }
                            Some("multi n=21")
                        }
                        _ => {
                            let k0 = ks[0];
                            ks[0] = KeyRef {
                                id: k0.id,
                                form: match k0.form {
                                    KeyForm::Compressed => KeyForm::Uncompressed,
                                    KeyForm::Uncompressed => KeyForm::XOnly,
                                    KeyForm::XOnly => KeyForm::Uncompressed,
                                },
                            };
                            Some("multi key kind")
                        }
                    }
                }
                Frag::PkK(k) | Frag::PkH(k) => {
                    k.form = match (k.form, r % 2) {
                        (KeyForm::Compressed, 0) => KeyForm::Uncompressed,
                        (KeyForm::Compressed, _) => KeyForm::XOnly,
                        (KeyForm::Uncompressed, _) => KeyForm::XOnly,
                        (KeyForm::XOnly, 0) => KeyForm::Uncompressed,
                        (KeyForm::XOnly, _) => KeyForm::Compressed,
                    };
                    Some("key kind")
                }
                _ => None,
            };
        });
        if what.is_some() {
            return what;
        }
    }
    None
}

fn wrap_strings(cx: Cx, ms: &str, world: &World) -> Vec<(String, &'static str)> {
    let ik = world.keys[0].xonly_hex.clone();
    match cx {
        Cx::Bare => vec![(ms.to_string(), "bare")],
        Cx::Legacy => vec![(format!("sh({})", ms), "sh")],
        Cx::Segwitv0 => vec![(format!("wsh({})", ms), "wsh"), (format!("sh(wsh({}))", ms), "sh-wsh")],
        Cx::Tap => vec![
            (format!("tr({},{})", ik, ms), "tr"),
            (format!("tr({},{{pk({}),{}}})", ik, world.keys[1].xonly_hex, ms), "tr-tree"),
        ],
    }
}

fn accept_case<Ctx: ScriptContext>(rep: &mut Report, case: u64, cx: Cx, f: &Frag, how: &str, world: &World)
where
    Ctx::Key: ToPublicKey + miniscript::FromStrKey,
{
    let ms = f.to_string_with(world);
    let max = ValidationParams::MAX;
    // script length from the MAX-parsed object, if it exists
    let ms_max = guarded(|| Miniscript::<Dk, Ctx>::from_str_with_validation_params(&ms, &max).ok()).ok().flatten();
    let script_len = ms_max.as_ref().and_then(|m| guarded(std::panic::AssertUnwindSafe(|| m.encode().len())).ok());
    let mut judge = |rep: &mut Report, entry: &str, accepted: Result<bool, String>, top: bool, sane: bool| {
        rep.eval();
        match accepted {
            Err(m) => rep.violation(case, format!("C12:panic:{}:{}", entry, norm_loc(&last_panic_loc())), format!("{} panicked ({}) on {} [{}; {}]", entry, m, ms, cx.name(), how)),
            Ok(false) => rep.count(&format!("rejected:{}", entry)),
            Ok(true) => {
                rep.count(&format!("accepted:{}", entry));
                rep.nontrivial(&format!("{}|{}|{}", entry, cx.name(), ms));
                let is_desc = entry.starts_with("Descriptor::");
                let decoded = entry.starts_with("Miniscript::decode");
                match ctx_rules_ext(f, cx, top, script_len, is_desc, !decoded) {
                    Ok(()) => {}
                    Err(rule) => {
                        let rclass: String = rule.split(':').next().unwrap_or("").to_string();
                        rep.violation(
                            case,
                            format!("C12:accepts:{}:{}", entry, rclass),
                            format!("{} accepts {} in context {} although it breaks the rule '{}' [{}]", entry, ms, cx.name(), rule, how),
                        )
                    }
                }
                if sane {
                    if let Some(d) = defects_ext(f, true) {
                        for (flag, name) in [(d.dup_keys, "duplicate-keys"), (d.malleable, "malleable"), (d.sigless, "sigless"), (d.mixed_timelocks && d.mixed_judgeable, "mixed-timelocks")] {
                            if flag {
                                rep.violation(
                                    case,
                                    format!("C12:sane-entry-accepts:{}:{}", entry, name),
                                    format!("{} (default sanity rules) accepts {} [{}] which has the defect '{}'", entry, ms, cx.name(), name),
                                );
                            }
                        }
                    }
                }
            }
        }
    };
    // programmatic construction: no parser in front of the context's global checks
    let from_ast = guarded(std::panic::AssertUnwindSafe(|| {
        crate::astbuild::build::<Dk, Ctx>(f, world, &|k: &crate::frag::KeyRef| Dk::from_str(&crate::frag::Names::key(world, k)).ok()).is_ok()
    }));
    judge(rep, "Miniscript::from_ast", from_ast, false, false);
    // miniscript entry points
    judge(rep, "Miniscript::from_str", guarded(|| Miniscript::<Dk, Ctx>::from_str(&ms).is_ok()), true, true);
    judge(rep, "Miniscript::from_str_insane", guarded(|| Miniscript::<Dk, Ctx>::from_str_insane(&ms).is_ok()), true, false);
    let cons = guarded(|| Miniscript::<Dk, Ctx>::from_str_with_validation_params(&ms, &Ctx::CONSENSUS).is_ok());
    judge(rep, "Miniscript::from_str(CONSENSUS)", cons.clone(), true, false);
    // MAX parameters switch every context rule off by request: only counted, not judged
    rep.count(if ms_max.is_some() { "accepted:Miniscript::from_str(MAX)" } else { "rejected:Miniscript::from_str(MAX)" });
    // decoders (on the encoding of the MAX-parsed object, if any)
    if let Some(m) = &ms_max {
        if let Ok(script) = guarded(std::panic::AssertUnwindSafe(|| m.encode())) {
            let s2 = script.clone();
            judge(rep, "Miniscript::decode", guarded(move || Miniscript::<Ctx::Key, Ctx>::decode(&s2).is_ok()), true, true);
            let s3 = script.clone();
            judge(rep, "Miniscript::decode_consensus", guarded(move || Miniscript::<Ctx::Key, Ctx>::decode_consensus(&s3).is_ok()), true, false);
        }
    }
    // descriptor entry points + consistency with the miniscript parser under CONSENSUS
    for (ds, wname) in wrap_strings(cx, &ms, world) {
        let entry = format!("Descriptor::from_str:{}", wname);
        let acc = guarded(|| Descriptor::<Dk>::from_str(&ds).is_ok());
        judge(rep, &entry, acc.clone(), true, false);
        if let (Ok(true), Ok(false)) = (&acc, &cons) {
            let why = guarded(|| Miniscript::<Dk, Ctx>::from_str_with_validation_params(&ms, &Ctx::CONSENSUS).err().map(|e| format!("{:?}", e)))
                .ok()
                .flatten()
                .unwrap_or_default();
            let class: String = why.chars().take_while(|c| c.is_ascii_alphanumeric() || *c == '(').collect();
            rep.violation(
                case,
                format!("C12:descriptor-accepts/ms-consensus-rejects:{}:{}", wname, class.trim_end_matches('(')),
                format!("Descriptor::from_str accepts {} but Miniscript::<{}>::from_str_with_validation_params(inner, CONSENSUS) rejects it: {} [{}]", ds, cx.name(), why, how),
            );
        }
    }
    // constructors from API-built objects (independent of any parser)
    api_constructors(rep, cx, f, world, &mut judge);
    // constructors from an unchecked (MAX) miniscript
    if let Some(m) = ms_max {
        constructors::<Ctx>(rep, case, cx, f, m, &mut judge);
    }
}

fn api_constructors(rep: &mut Report, cx: Cx, f: &Frag, world: &World, judge: &mut dyn FnMut(&mut Report, &str, Result<bool, String>, bool, bool)) {
    // ... and the same fragment assembled through the API with unchecked key leaves: the
    // wrapper constructors are then the only gate for key kinds
    let keyf = |k: &crate::frag::KeyRef| Dk::from_str(&crate::frag::Names::key(world, k)).ok();
    match cx {
        Cx::Segwitv0 => {
            if let Ok(x) = crate::astbuild::build_ext::<Dk, Segwitv0>(f, world, &keyf, true) {
                let y = x.clone();
                judge(rep, "Descriptor::new_wsh(api-built)", guarded(std::panic::AssertUnwindSafe(move || Descriptor::new_wsh(x).is_ok())), true, false);
                judge(rep, "Descriptor::new_sh_wsh(api-built)", guarded(std::panic::AssertUnwindSafe(move || Descriptor::new_sh_wsh(y).is_ok())), true, false);
            }
        }
        Cx::Legacy => {
            if let Ok(x) = crate::astbuild::build_ext::<Dk, Legacy>(f, world, &keyf, true) {
                judge(rep, "Descriptor::new_sh(api-built)", guarded(std::panic::AssertUnwindSafe(move || Descriptor::new_sh(x).is_ok())), true, false);
            }
        }
        Cx::Bare => {
            if let Ok(x) = crate::astbuild::build_ext::<Dk, BareCtx>(f, world, &keyf, true) {
                judge(rep, "Descriptor::new_bare(api-built)", guarded(std::panic::AssertUnwindSafe(move || Descriptor::new_bare(x).is_ok())), true, false);
            }
        }
        Cx::Tap => {
            if let Ok(x) = crate::astbuild::build_ext::<Dk, Tap>(f, world, &keyf, true) {
                judge(
                    rep,
                    "Descriptor::new_tr(api-built)",
                    guarded(std::panic::AssertUnwindSafe(move || {
                        let ik = Dk::from_str("d98e5446368b02d1d154766588d99a9f20cc4d7be7e66d6b8f7c05588304f93b").unwrap();
                        Descriptor::new_tr(ik, Some(TapTree::leaf(x))).is_ok()
                    })),
                    true,
                    false,
                );
            }
        }
    }
}

fn constructors<Ctx: ScriptContext>(
    rep: &mut Report,
    _case: u64,
    cx: Cx,
    _f: &Frag,
    m: Miniscript<Dk, Ctx>,
    judge: &mut dyn FnMut(&mut Report, &str, Result<bool, String>, bool, bool),
) {
    // The generic miniscript must be turned into the concrete context type: re-parse its string.
    let s = m.to_string();
    let max = ValidationParams::MAX;
    match cx {
        Cx::Segwitv0 => {
            if let Ok(x) = Miniscript::<Dk, Segwitv0>::from_str_with_validation_params(&s, &max) {
                let y = x.clone();
                judge(rep, "Descriptor::new_wsh", guarded(std::panic::AssertUnwindSafe(move || Descriptor::new_wsh(x).is_ok())), true, false);
                judge(rep, "Descriptor::new_sh_wsh", guarded(std::panic::AssertUnwindSafe(move || Descriptor::new_sh_wsh(y).is_ok())), true, false);
            }
        }
        Cx::Legacy => {
            if let Ok(x) = Miniscript::<Dk, Legacy>::from_str_with_validation_params(&s, &max) {
                judge(rep, "Descriptor::new_sh", guarded(std::panic::AssertUnwindSafe(move || Descriptor::new_sh(x).is_ok())), true, false);
            }
        }
        Cx::Bare => {
            if let Ok(x) = Miniscript::<Dk, BareCtx>::from_str_with_validation_params(&s, &max) {
                judge(rep, "Descriptor::new_bare", guarded(std::panic::AssertUnwindSafe(move || Descriptor::new_bare(x).is_ok())), true, false);
            }
        }
        Cx::Tap => {
            if let Ok(x) = Miniscript::<Dk, Tap>::from_str_with_validation_params(&s, &max) {
                judge(
                    rep,
                    "Descriptor::new_tr",
                    guarded(std::panic::AssertUnwindSafe(move || {
                        let ik = Dk::from_str("d98e5446368b02d1d154766588d99a9f20cc4d7be7e66d6b8f7c05588304f93b").unwrap();
                        Descriptor::new_tr(ik, Some(TapTree::leaf(x))).is_ok()
                    })),
                    true,
                    false,
                );
            }
        }
    }
}

struct ToReal<'a> {
    keys: &'a BTreeMap<String, String>,
}
impl Translator<String> for ToReal<'_> {
    type TargetPk = DefiniteDescriptorKey;
    type Error = String;
    fn pk(&mut self, pk: &String) -> Result<DefiniteDescriptorKey, String> {
        let s = self.keys.get(pk).ok_or_else(|| format!("no key for {}", pk))?;
        DefiniteDescriptorKey::from_str(s).map_err(|e| e.to_string())
    }
    fn sha256(&mut self, h: &String) -> Result<bitcoin::hashes::sha256::Hash, String> { FromStr::from_str(h).map_err(|e: bitcoin::hex::HexToArrayError| e.to_string()) }
    fn hash256(&mut self, h: &String) -> Result<miniscript::hash256::Hash, String> { FromStr::from_str(h).map_err(|e: bitcoin::hex::HexToArrayError| e.to_string()) }
    fn ripemd160(&mut self, h: &String) -> Result<bitcoin::hashes::ripemd160::Hash, String> { FromStr::from_str(h).map_err(|e: bitcoin::hex::HexToArrayError| e.to_string()) }
    fn hash160(&mut self, h: &String) -> Result<bitcoin::hashes::hash160::Hash, String> { FromStr::from_str(h).map_err(|e: bitcoin::hex::HexToArrayError| e.to_string()) }
}

/// translate_pk as a constructor: String-key descriptor -> real keys of a kind the context forbids.
fn translate_case(rep: &mut Report, case: u64, cx: Cx, f: &Frag, world: &World) {
    // the original fragment must be legal
    if ctx_rules(f, cx, true, None).is_err() || cx == Cx::Bare {
        return;
    }
    let ms = f.to_string_with(&AbstractNames);
    for (ds, wname) in wrap_strings(cx, &ms, world) {
        let ds = ds.replace(&world.keys[0].xonly_hex, "K90").replace(&world.keys[1].xonly_hex, "K91");
        let d = match guarded(|| Descriptor::<String>::from_str(&ds)) {
            Ok(Ok(d)) => d,
            _ => continue,
        };
        let keys = f.keys();
        if keys.is_empty() {
            continue;
        }
        // pick one occurrence and make it illegal for the context
        let victim = keys[case as usize % keys.len()];
        let bad_form = match cx {
            Cx::Legacy => KeyForm::XOnly,
            Cx::Segwitv0 => {
                if case % 2 == 0 {
                    KeyForm::Uncompressed
                } else {
                    KeyForm::XOnly
                }
            }
            _ => KeyForm::Uncompressed,
        };
        let mut map = BTreeMap::new();
        for k in &keys {
            let form = if k.id == victim.id { bad_form } else if cx == Cx::Tap { KeyForm::XOnly } else { KeyForm::Compressed };
            map.insert(AbstractNames.key(k), world.key(&KeyRef { id: k.id, form }));
        }
        map.insert("K90".to_string(), world.keys[0].xonly_hex.clone());
        map.insert("K91".to_string(), world.keys[1].xonly_hex.clone());
        rep.eval();
        let r = guarded(std::panic::AssertUnwindSafe(|| match d.translate_pk(&mut ToReal { keys: &map }) {
            Ok(t) => Ok(t.to_string()),
            Err(TranslateErr::TranslatorErr(e)) => Err(format!("translator:{}", e)),
            Err(TranslateErr::OuterError(e)) => Err(format!("outer:{}", e)),
        }));
        match r {
            Err(m) => rep.violation(case, format!("C12:panic:translate_pk:{}", norm_loc(&last_panic_loc())), format!("translate_pk panicked ({}) on {}", m, ds)),
            Ok(Ok(t)) => rep.violation(
                case,
                format!("C12:accepts:translate_pk:{}:key-kind", wname),
                format!("translate_pk of {} to real keys accepts a {:?} key in context {}: {}", ds, bad_form, cx.name(), t),
            ),
            Ok(Err(_)) => rep.count("translate_pk-refuses-illegal-key"),
        }
    }
}

fn switch_case<Ctx: ScriptContext>(rep: &mut Report, case: u64, cx: Cx, f: &Frag, rng: &mut Rng) {
    let s = f.to_string_with(&AbstractNames);
    let max = ValidationParams::MAX;
    let ms = match guarded(|| Miniscript::<String, Ctx>::from_str_with_validation_params(&s, &max)) {
        Ok(Ok(m)) => m,
        _ => return,
    };
    let d = match defects(f) {
        Some(d) => d,
        None => return,
    };
    rep.nontrivial(&format!("sw|{}|{}", cx.name(), s));
    // boolean switches: tighten exactly one
    let mut sw: Vec<(&str, ValidationParams, Option<bool>)> = vec![];
    macro_rules! one {
        ($name:expr, $field:ident, $defect:expr) => {{
            let mut p = ValidationParams::MAX;
            p.$field = false;
            sw.push(($name, p, $defect));
        }};
    }
    one!("allow_duplicate_keys", allow_duplicate_keys, Some(d.dup_keys));
    one!("allow_mixed_time_locks", allow_mixed_time_locks, if d.mixed_judgeable { Some(d.mixed_timelocks) } else { None });
    one!("allow_malleability", allow_malleability, Some(d.malleable));
    one!("allow_sigless_branch", allow_sigless_branch, Some(d.sigless));
    one!("allow_non_b", allow_non_b, Some(d.non_b));
    one!("allow_dup_if", allow_dup_if, Some(d.dup_if));
    one!("allow_or_i", allow_or_i, Some(d.or_i));
    one!("allow_multi", allow_multi, Some(d.multi));
    one!("allow_multi_a", allow_multi_a, Some(d.multi_a));
    one!("allow_unsatisfiable", allow_unsatisfiable, Some(d.unsatisfiable));
    one!("allow_raw_pkh", allow_raw_pkh, Some(false));
    for (name, p, expect) in sw {
        rep.eval();
        let m2 = &ms;
        match guarded(std::panic::AssertUnwindSafe(|| m2.validate(&p).is_err())) {
            Err(m) => rep.violation(case, format!("C12:panic:validate:{}", norm_loc(&last_panic_loc())), format!("validate({}=false) panicked ({}) on {}", name, m, s)),
            Ok(rejected) => match expect {
                None => rep.count("switch-not-judged(dead branches)"),
                Some(defect) => {
                    if rejected != defect {
                        rep.violation(
                            case,
                            format!("C12:switch:{}:{}", name, if rejected { "rejects-without-defect" } else { "accepts-with-defect" }),
                            format!("validate with only {} = false {} {} [{}] but the defect is {}", name, if rejected { "rejects" } else { "accepts" }, s, cx.name(), if defect { "present" } else { "absent" }),
                        );
                    } else {
                        rep.count(&format!("switch-exact:{}:{}", name, if defect { "defect" } else { "clean" }));
                    }
                }
            },
        }
    }
    // everything allowed: MAX must accept; all tightened: accept iff no defect and figures in limits
    // numeric limits around the script's own figures
    let figs = guarded(std::panic::AssertUnwindSafe(|| {
        (
            ms.script_size(),
            ms.max_satisfaction_witness_elements().ok(),
            ms.ext.sat_data.map(|x| ms.ext.static_ops + x.max_exec_op_count),
            ms.ext.sat_data.map(|x| x.max_witness_stack_count + x.max_exec_stack_count),
            ms.ext.tree_height,
        )
    }));
    if let Ok((size, wit, ops, stack, height)) = figs {
        let mut lim = |name: &str, mk: &dyn Fn(usize) -> ValidationParams, fig: Option<usize>| {
            let fig = match fig {
                Some(f) => f,
                None => return,
            };
            for (delta, expect_reject) in [(0i64, false), (-1, true), (1, false)] {
                let l = fig as i64 + delta;
                if l < 0 {
                    continue;
                }
                let p = mk(l as usize);
                rep.eval();
                match guarded(std::panic::AssertUnwindSafe(|| ms.validate(&p).is_err())) {
                    Ok(r) if r == expect_reject => rep.count(&format!("limit-exact:{}", name)),
                    Ok(r) => rep.violation(
                        case,
                        format!("C12:limit:{}:{}", name, if r { "rejects-within-limit" } else { "accepts-beyond-limit" }),
                        format!("{} [{}]: figure {} = {}, validate with limit {} {}", s, cx.name(), name, fig, l, if r { "rejects" } else { "accepts" }),
                    ),
                    Err(m) => rep.violation(case, format!("C12:panic:validate:{}", norm_loc(&last_panic_loc())), format!("validate({} limit {}) panicked ({}) on {}", name, l, m, s)),
                }
            }
        };
        lim("max_script_size", &|l| { let mut p = ValidationParams::MAX; p.max_script_size = l; p }, Some(size));
        lim("max_witness_items", &|l| { let mut p = ValidationParams::MAX; p.max_witness_items = l; p }, wit);
        lim("max_opcode_count", &|l| { let mut p = ValidationParams::MAX; p.max_opcode_count = l; p }, ops);
        lim("max_exec_stack_size", &|l| { let mut p = ValidationParams::MAX; p.max_exec_stack_size = l; p }, stack);
        // the nesting depth is taken from the harness's own AST, not from the library's figure
        let _ = height;
        lim("max_recursive_depth", &|l| { let mut p = ValidationParams::MAX; p.max_recursive_depth = l; p }, Some(f.height()));
    }
    // monotonicity: accepted under p and p entails q => accepted under q
    let (p, q) = (random_params(rng), random_params(rng));
    let pq = p.intersect(&q);
    if let Ok((a, b, c)) = guarded(std::panic::AssertUnwindSafe(|| (ms.validate(&p).is_ok(), ms.validate(&q).is_ok(), ms.validate(&pq).is_ok()))) {
        rep.eval();
        if c && !(a && b) {
            rep.violation(case, "C12:tightening-admits-more".into(), format!("{}: accepted under p∩q but not under both p and q (p = {:?}, q = {:?})", s, p, q));
        } else {
            rep.count("monotone");
        }
    }
}

fn random_params(rng: &mut Rng) -> ValidationParams {
    let mut p = ValidationParams::MAX;
    p.allow_compressed_keys = rng.chance(7, 8);
    p.allow_duplicate_keys = rng.coin();
    p.allow_dup_if = rng.chance(3, 4);
    p.allow_malleability = rng.coin();
    p.allow_multi = rng.chance(3, 4);
    p.allow_multi_a = rng.chance(3, 4);
    p.allow_mixed_time_locks = rng.coin();
    p.allow_or_i = rng.chance(3, 4);
    p.allow_raw_pkh = rng.coin();
    p.allow_sigless_branch = rng.coin();
    p.allow_non_b = rng.coin();
    p.allow_uncompressed_keys = rng.coin();
    p.allow_unsatisfiable = rng.coin();
    p.allow_x_only_keys = rng.coin();
    p.allow_inconsistent_multipath_keys = rng.coin();
    let lim = |rng: &mut Rng| *rng.pick(&[usize::MAX, 1000, 201, 100, 40, 10, 3, 0]);
    p.max_opcode_count = lim(rng);
    p.max_script_size = *rng.pick(&[usize::MAX, 10_000, 3600, 520, 100, 30]);
    p.max_witness_items = lim(rng);
    p.max_exec_stack_size = lim(rng);
    p.max_recursive_depth = *rng.pick(&[402, 100, 10, 3, 1]);
    p
}

fn lattice_laws(rep: &mut Report, case: u64, rng: &mut Rng) {
    let (a, b, c) = (random_params(rng), random_params(rng), random_params(rng));
    rep.eval();
    let ab = a.intersect(&b);
    let mut bad = vec![];
    if ab != b.intersect(&a) {
        bad.push("intersect not commutative");
    }
    if a.intersect(&a) != a {
        bad.push("intersect not idempotent");
    }
    if a.intersect(&b).intersect(&c) != a.intersect(&b.intersect(&c)) {
        bad.push("intersect not associative");
    }
    if !ab.entails(&a) || !ab.entails(&b) {
        bad.push("intersection is not a lower bound");
    }
    if !a.entails(&a) {
        bad.push("entails not reflexive");
    }
    if a.entails(&b) != (a.intersect(&b) == a) {
        bad.push("entails differs from intersect == self");
    }
    if a.entails(&b) && b.entails(&c) && !a.entails(&c) {
        bad.push("entails not transitive");
    }
    if !ab.entails(&ValidationParams::MAX) || !ValidationParams::SANE.entails(&ValidationParams::CONSENSUS) {
        bad.push("MAX is not the top / SANE does not entail CONSENSUS");
    }
    // a fieldwise model of the meet
    let m = {
        let mut m = ValidationParams::MAX;
        m.allow_compressed_keys = a.allow_compressed_keys && b.allow_compressed_keys;
        m.allow_duplicate_keys = a.allow_duplicate_keys && b.allow_duplicate_keys;
        m.allow_dup_if = a.allow_dup_if && b.allow_dup_if;
        m.allow_malleability = a.allow_malleability && b.allow_malleability;
        m.allow_multi = a.allow_multi && b.allow_multi;
        m.allow_multi_a = a.allow_multi_a && b.allow_multi_a;
        m.allow_mixed_time_locks = a.allow_mixed_time_locks && b.allow_mixed_time_locks;
        m.allow_or_i = a.allow_or_i && b.allow_or_i;
        m.allow_raw_pkh = a.allow_raw_pkh && b.allow_raw_pkh;
        m.allow_sigless_branch = a.allow_sigless_branch && b.allow_sigless_branch;
        m.allow_non_b = a.allow_non_b && b.allow_non_b;
        m.allow_uncompressed_keys = a.allow_uncompressed_keys && b.allow_uncompressed_keys;
        m.allow_unsatisfiable = a.allow_unsatisfiable && b.allow_unsatisfiable;
        m.allow_x_only_keys = a.allow_x_only_keys && b.allow_x_only_keys;
        m.allow_inconsistent_multipath_keys = a.allow_inconsistent_multipath_keys && b.allow_inconsistent_multipath_keys;
        m.max_opcode_count = a.max_opcode_count.min(b.max_opcode_count);
        m.max_script_size = a.max_script_size.min(b.max_script_size);
        m.max_witness_items = a.max_witness_items.min(b.max_witness_items);
        m.max_exec_stack_size = a.max_exec_stack_size.min(b.max_exec_stack_size);
        m.max_recursive_depth = a.max_recursive_depth.min(b.max_recursive_depth);
        m
    };
    if m != ab {
        bad.push("intersect is not the fieldwise meet");
    }
    if bad.is_empty() {
        rep.count("lattice-laws-hold");
    } else {
        for b_ in bad {
            rep.violation(case, format!("C12:lattice:{}", b_.replace(' ', "-")), format!("{} for a = {:?}, b = {:?}, c = {:?}", b_, a, b, c));
        }
    }
}

/// Key-only and sortedmulti constructors with every key form: what they accept must carry the
/// key kinds of its output type (wpkh / sh(wpkh) / wsh: compressed only; pk / pkh / sh: compressed
/// or uncompressed; tr: x-only).
fn key_constructors(rep: &mut Report, case: u64, world: &World, rng: &mut Rng) {
    let id = rng.below(world.keys.len());
    let forms: [(&str, Dk); 3] = [("compressed", world.dk_compressed(id)), ("uncompressed", world.dk_uncompressed(id)), ("x-only", world.dk_xonly(id))];
    let other = world.dk_compressed((id + 1) % world.keys.len());
    for (form, k) in forms.iter() {
        let allowed = |entry: &str| match entry {
            "Descriptor::new_wpkh" | "Descriptor::new_sh_wpkh" | "Descriptor::new_wsh_sortedmulti" | "Descriptor::new_sh_wsh_sortedmulti" => *form == "compressed",
            "Descriptor::new_pkh" | "Descriptor::new_pk" | "Descriptor::new_sh_sortedmulti" => *form != "x-only",
            _ => true,
        };
        // translate_pk as a constructor of key-only descriptors (and of the internal key of a tree)
        for (templ, ok) in [
            ("tr(K)", *form != "uncompressed"),
            ("tr(K,pk(L))", *form != "uncompressed"),
            ("wpkh(K)", *form == "compressed"),
            ("sh(wpkh(K))", *form == "compressed"),
            ("pkh(K)", *form != "x-only"),
            ("pk(K)", *form != "x-only"),
        ] {
            let d = Descriptor::<String>::from_str(templ).unwrap();
            let mut map = BTreeMap::new();
            map.insert("K".to_string(), k.to_string());
            map.insert("L".to_string(), world.keys[(id + 2) % world.keys.len()].xonly_hex.clone());
            rep.eval();
            match guarded(std::panic::AssertUnwindSafe(|| d.translate_pk(&mut ToReal { keys: &map }).ok().map(|t| t.to_string()))) {
                Err(m) => rep.violation(case, format!("C12:panic:translate_pk:{}", norm_loc(&last_panic_loc())), format!("translate_pk panicked ({}) on {} with a {} key", m, templ, form)),
                Ok(Some(t)) if !ok => rep.violation(case, format!("C12:accepts:translate_pk:{}:key-kind", templ), format!("translate_pk of {} accepts a {} key: {}", templ, form, t)),
                Ok(Some(t)) => {
                    rep.count("translate_pk(key-only):accepted-legal");
                    rep.nontrivial(&format!("translate|{}|{}", templ, t));
                }
                Ok(None) => rep.count(if ok { "translate_pk(key-only):refused-legal" } else { "translate_pk(key-only):refuses-illegal-key" }),
            }
        }
        let mut judge = |entry: &str, r: Result<Option<String>, String>| {
            rep.eval();
            match r {
                Err(m) => rep.violation(case, format!("C12:panic:{}:{}", entry, norm_loc(&last_panic_loc())), format!("{} panicked ({}) with a {} key", entry, m, form)),
                Ok(None) => rep.count(&format!("rejected:{}", entry)),
                Ok(Some(d)) => {
                    rep.count(&format!("accepted:{}", entry));
                    rep.nontrivial(&format!("{}|{}", entry, d));
                    if !allowed(entry) {
                        rep.violation(case, format!("C12:accepts:{}:key-kind", entry), format!("{} accepts a {} key: {}", entry, form, d));
                    }
                }
            }
        };
        let kk = k.clone();
        judge("Descriptor::new_wpkh", guarded(std::panic::AssertUnwindSafe(|| Descriptor::new_wpkh(kk.clone()).ok().map(|d| d.to_string()))));
        judge("Descriptor::new_sh_wpkh", guarded(std::panic::AssertUnwindSafe(|| Descriptor::new_sh_wpkh(kk.clone()).ok().map(|d| d.to_string()))));
        judge("Descriptor::new_pkh", guarded(std::panic::AssertUnwindSafe(|| Descriptor::new_pkh(kk.clone()).ok().map(|d| d.to_string()))));
        judge("Descriptor::new_wsh_sortedmulti", guarded(std::panic::AssertUnwindSafe(|| Descriptor::new_wsh_sortedmulti(miniscript::Threshold::new(1, vec![kk.clone(), other.clone()]).unwrap()).ok().map(|d| d.to_string()))));
        judge("Descriptor::new_sh_wsh_sortedmulti", guarded(std::panic::AssertUnwindSafe(|| Descriptor::new_sh_wsh_sortedmulti(miniscript::Threshold::new(1, vec![kk.clone(), other.clone()]).unwrap()).ok().map(|d| d.to_string()))));
        judge("Descriptor::new_sh_sortedmulti", guarded(std::panic::AssertUnwindSafe(|| Descriptor::new_sh_sortedmulti(miniscript::Threshold::new(1, vec![kk.clone(), other.clone()]).unwrap()).ok().map(|d| d.to_string()))));
    }
}

/// Redeem scripts around the 520-byte P2SH limit, built with the unchecked `Miniscript::multi`
/// / `sortedmulti` constructors (no `from_ast` at the root): the wrapper constructors and
/// `validate` with the Legacy parameter sets are then the only gate for the script size.
fn size_constructors(rep: &mut Report, case: u64, world: &World, rng: &mut Rng) {
    let uncompressed = rng.chance(1, 3);
    let n = if uncompressed { *rng.pick(&[6usize, 7, 8, 9, 12]) } else { *rng.pick(&[14usize, 15, 16, 17, 20]) };
    let base = 1 + rng.below(200) as u8;
    let keys: Vec<Dk> = (0..n)
        .map(|j| {
            let mut sk = [0x11u8; 32];
            sk[30] = base;
            sk[31] = j as u8 + 1;
            let pk = bitcoin::secp256k1::PublicKey::from_secret_key(&world.secp, &bitcoin::secp256k1::SecretKey::from_slice(&sk).unwrap());
            let text = if uncompressed { crate::world::hex(&pk.serialize_uncompressed()) } else { crate::world::hex(&pk.serialize()) };
            Dk::from_str(&text).unwrap()
        })
        .collect();
    let k = 1 + rng.below(n.min(3));
    let keylen = if uncompressed { 66 } else { 34 };
    let size = 1 + n * keylen + if n <= 16 { 1 } else { 2 } + 1;
    let th = || miniscript::Threshold::<Dk, 20>::new(k, keys.clone()).unwrap();
    let mut judge = |entry: &str, r: Result<bool, String>| {
        rep.eval();
        match r {
            Err(m) => rep.violation(case, format!("C12:panic:{}:{}", entry, norm_loc(&last_panic_loc())), format!("{} panicked ({}) on multi({},{} keys)", entry, m, k, n)),
            Ok(false) => rep.count(&format!("rejected:{}", entry)),
            Ok(true) => {
                rep.count(&format!("accepted:{}", entry));
                rep.nontrivial(&format!("{}|{}|{}|{}", entry, k, n, uncompressed));
                if size > 520 {
                    rep.violation(
                        case,
                        format!("C12:accepts:{}:redeem-script-size", entry),
                        format!("{} accepts multi({}, {} {} keys): the redeem script has {} bytes, the P2SH limit is 520", entry, k, n, if uncompressed { "uncompressed" } else { "compressed" }, size),
                    );
                }
            }
        }
    };
    judge("Descriptor::new_sh(Miniscript::multi)", guarded(std::panic::AssertUnwindSafe(|| Descriptor::new_sh(Miniscript::<Dk, Legacy>::multi(th())).is_ok())));
    judge("Descriptor::new_sh(Miniscript::sortedmulti)", guarded(std::panic::AssertUnwindSafe(|| Descriptor::new_sh(Miniscript::<Dk, Legacy>::sortedmulti(th())).is_ok())));
    judge("Descriptor::new_sh_sortedmulti(n keys)", guarded(std::panic::AssertUnwindSafe(|| Descriptor::new_sh_sortedmulti(th()).is_ok())));
    judge("Miniscript::multi.validate(Legacy::CONSENSUS)", guarded(std::panic::AssertUnwindSafe(|| Miniscript::<Dk, Legacy>::multi(th()).validate(&Legacy::CONSENSUS).is_ok())));
    judge("Miniscript::multi.validate(Legacy::SANE)", guarded(std::panic::AssertUnwindSafe(|| Miniscript::<Dk, Legacy>::multi(th()).validate(&Legacy::SANE).is_ok())));
}

pub fn run(cfg: &RunCfg, rep: &mut Report) {
    let world = World::new(cfg.seed);
    let total = cfg.n_cases(8_000, 200_000);
    let max_nodes = if cfg.tier == Tier::Thorough { 24 } else { 10 };
    for i in cfg.cases(total) {
        let mut rng = cfg.case_rng(i);
        let cx = Cx::ALL[rng.below(4)];
        // generation context may differ from the parsing context (foreign key kinds / multisig flavour)
        let gen_cx = if rng.chance(1, 4) { Cx::ALL[rng.below(4)] } else { cx };
        let mut gc = GenCfg::new(gen_cx, max_nodes);
        gc.repeat_keys = rng.chance(1, 3);
        gc.chaos_pct = if rng.chance(1, 3) { 12 } else { 0 };
        gc.timelock_heavy = rng.chance(1, 3);
        let budget = 1 + rng.below(max_nodes);
        let want = *rng.pick(&[Base::B, Base::B, Base::B, Base::B, Base::V, Base::K, Base::W]);
        let mut f = {
            let mut g = Gen::new(&mut rng, gc);
            g.gen(want, budget)
        };
        let mut how = format!("generated for {} as {:?}", gen_cx.name(), want);
        if rng.chance(1, 3) {
            if let Some(w) = make_hostile(&mut rng, &mut f) {
                how.push_str("; ");
                how.push_str(w);
            }
        }
        if rng.chance(1, 200) {
            // deep nesting: 403 n: wrappers
            for _ in 0..(400 + rng.below(6)) {
                f = Frag::ZeroNotEqual(Box::new(f));
            }
            how.push_str("; deep nesting");
        } else if rng.chance(1, 150) {
            // ... or a deep chain hanging in one particular child position of a combinator
            let key = |n: usize| Frag::Check(Box::new(Frag::PkK(KeyRef { id: n % 8, form: if cx == Cx::Tap { KeyForm::XOnly } else { KeyForm::Compressed } })));
            let mut deep = key(0);
            for _ in 0..(398 + rng.below(6)) {
                deep = Frag::ZeroNotEqual(Box::new(deep));
            }
            let bx = |x: Frag| Box::new(x);
            f = match rng.below(7) {
                0 => Frag::AndOr(bx(key(1)), bx(key(2)), bx(deep)),
                1 => Frag::AndOr(bx(key(1)), bx(deep), bx(key(2))),
                2 => Frag::AndOr(bx(deep), bx(key(1)), bx(key(2))),
                3 => Frag::AndV(bx(Frag::Verify(bx(key(1)))), bx(deep)),
                4 => Frag::OrD(bx(key(1)), bx(deep)),
                5 => Frag::OrI(bx(deep), bx(key(1))),
                _ => Frag::Thresh(2, vec![key(1), Frag::Swap(bx(key(2))), Frag::Alt(bx(deep))]),
            };
            how = format!("deep chain in one child position ({})", f.name());
        }
        match cx {
            Cx::Bare => accept_case::<BareCtx>(rep, i, cx, &f, &how, &world),
            Cx::Legacy => accept_case::<Legacy>(rep, i, cx, &f, &how, &world),
            Cx::Segwitv0 => accept_case::<Segwitv0>(rep, i, cx, &f, &how, &world),
            Cx::Tap => accept_case::<Tap>(rep, i, cx, &f, &how, &world),
        }
        translate_case(rep, i, cx, &f, &world);
        match cx {
            Cx::Bare => switch_case::<BareCtx>(rep, i, cx, &f, &mut rng),
            Cx::Legacy => switch_case::<Legacy>(rep, i, cx, &f, &mut rng),
            Cx::Segwitv0 => switch_case::<Segwitv0>(rep, i, cx, &f, &mut rng),
            Cx::Tap => switch_case::<Tap>(rep, i, cx, &f, &mut rng),
        }
        lattice_laws(rep, i, &mut rng);
        if i % 16 == 0 {
            key_constructors(rep, i, &world, &mut rng);
            size_constructors(rep, i, &world, &mut rng);
        }
        if rep.samples.len() < rep.max_samples && i % 797 == 0 {
            rep.sample(format!("[{}] {} ({})", cx.name(), f.to_string_with(&AbstractNames), how));
        }
    }
    if rep.samples.is_empty() {
        rep.sample("(see counters)".into());
    }
}
