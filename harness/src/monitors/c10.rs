//! C10: text forms round-trip and the descriptor checksum detects corruption.

use std::fmt::{Debug, Display};
use std::str::FromStr;

use miniscript::bitcoin;
use miniscript::descriptor::{checksum as libsum, DescriptorSecretKey, WalletPolicy};
use miniscript::policy::{Concrete, Semantic};
use miniscript::{
    BareCtx, DefiniteDescriptorKey, Descriptor, DescriptorPublicKey, Legacy, Miniscript, ScriptContext, Segwitv0, Tap,
    ToPublicKey, ValidationParams,
};

use super::{guarded, last_panic_loc, norm_loc, Report, RunCfg, Tier};
use crate::frag::{AbstractNames, Cx, Frag, Gen, GenCfg, KeyForm, KeyRef, Names};
use crate::oracle::descsum;
use crate::oracle::spec_types::Base;
use crate::pol::*;
use crate::prng::Rng;
use crate::world::World;

/// object -> string -> object identity and fixed point, for any parseable type.
fn roundtrip<T>(rep: &mut Report, case: u64, kind: &str, s0: &str, parse: &dyn Fn(&str) -> Result<T, String>) -> Option<(T, String)>
where
    T: PartialEq + Display + Debug,
{
    rep.eval();
    let a = match guarded(std::panic::AssertUnwindSafe(|| parse(s0))) {
        Ok(Ok(a)) => a,
        Ok(Err(_)) => {
            rep.count(&format!("parse-rejected:{}", kind));
            return None;
        }
        Err(m) => {
            rep.violation(case, format!("C10:panic:parse:{}:{}", kind, norm_loc(&last_panic_loc())), format!("parser panicked ({}) on {}", m, s0));
            return None;
        }
    };
    let r = guarded(std::panic::AssertUnwindSafe(|| {
        let s1 = a.to_string();
        let b = parse(&s1);
        (s1, b)
    }));
    let (s1, b) = match r {
        Ok(x) => x,
        Err(m) => {
            rep.violation(case, format!("C10:panic:display-parse:{}:{}", kind, norm_loc(&last_panic_loc())), format!("display/parse panicked ({}) on {}", m, s0));
            return None;
        }
    };
    match b {
        Err(e) => {
            rep.violation(
                case,
                format!("C10:own-output-rejected:{}", kind),
                format!("parsed {} ; printed {} ; which the parser rejects: {}", s0, s1, e),
            );
            None
        }
        Ok(b) => {
            let s2 = b.to_string();
            if b != a {
                rep.violation(case, format!("C10:roundtrip-not-equal:{}", kind), format!("{} -> {} parses to a different object ({:?} vs {:?})", s0, s1, a, b));
            }
            if s2 != s1 {
                rep.violation(case, format!("C10:not-a-fixed-point:{}", kind), format!("{} -> {} -> {}", s0, s1, s2));
            }
            rep.count(&format!("roundtrip:{}", kind));
            rep.nontrivial(&format!("{}|{}", kind, s1));
            Some((a, s1))
        }
    }
}

fn ms_text<Ctx: ScriptContext>(rep: &mut Report, case: u64, cx: Cx, frag: &Frag, world: &World)
where
    Ctx::Key: ToPublicKey + miniscript::FromStrKey,
{
    let max = ValidationParams::MAX;
    // String keys
    let kind = format!("ms-string:{}", cx.name());
    let plain = frag.to_string_with(&AbstractNames);
    let sugar = frag.to_string_sugared(&AbstractNames);
    let p = |s: &str| Miniscript::<String, Ctx>::from_str_with_validation_params(s, &max).map_err(|e| e.to_string());
    if let Some((a, s1)) = roundtrip(rep, case, &kind, &plain, &p) {
        if let Ok(Ok(b)) = guarded(|| p(&sugar)) {
            if b != a || b.to_string() != s1 {
                rep.violation(case, format!("C10:alias-changes-meaning:{}", kind), format!("{} and {} parse to different objects ({} vs {})", plain, sugar, s1, b));
            } else {
                rep.count("alias-equal");
            }
        } else {
            rep.violation(case, format!("C10:alias-rejected:{}", kind), format!("{} accepted but its sugared spelling {} is not", plain, sugar));
        }
    }
    // real keys: also the scripts must be identical, and decoded objects must round-trip
    let kind = format!("ms-realkey:{}", cx.name());
    let plain = frag.to_string_with(world);
    let sugar = frag.to_string_sugared(world);
    let p = |s: &str| Miniscript::<Ctx::Key, Ctx>::from_str_with_validation_params(s, &max).map_err(|e| e.to_string());
    if let Some((a, _)) = roundtrip(rep, case, &kind, &plain, &p) {
        if let Ok(Ok(b)) = guarded(|| p(&sugar)) {
            if a.encode() != b.encode() {
                rep.violation(case, format!("C10:alias-changes-script:{}", kind), format!("{} and {} encode differently", plain, sugar));
            }
        }
        // an object reachable through the decoder (raw key hashes)
        if let Ok(Ok(dec)) = guarded(std::panic::AssertUnwindSafe(|| Miniscript::<Ctx::Key, Ctx>::decode_consensus(&a.encode()))) {
            let ds = dec.to_string();
            rep.eval();
            match guarded(|| p(&ds)) {
                Ok(Ok(back)) => {
                    if back != dec || back.to_string() != ds {
                        rep.violation(case, format!("C10:decoded-roundtrip-not-equal:{}", cx.name()), format!("decoded object prints as {} which parses to {}", ds, back));
                    } else {
                        rep.count("decoded-roundtrip");
                    }
                }
                Ok(Err(e)) => rep.violation(
                    case,
                    format!("C10:decoded-output-rejected:{}", cx.name()),
                    format!("object decoded from script {} prints as {} which the parser rejects: {}", a.encode().to_hex_string(), ds, e),
                ),
                Err(m) => rep.violation(case, format!("C10:panic:parse:{}", norm_loc(&last_panic_loc())), format!("parser panicked ({}) on {}", m, ds)),
            }
        }
    }
}

/// Descriptor strings over a key-expression generator.
pub fn desc_strings(rng: &mut Rng, world: &World, key: &mut dyn FnMut(&mut Rng, Cx) -> String, max_nodes: usize) -> Vec<String> {
    struct N<'a>(std::cell::RefCell<Vec<String>>, &'a World);
    impl Names for N<'_> {
        fn key(&self, k: &KeyRef) -> String { self.0.borrow()[k.id].clone() }
        fn sha256(&self, i: usize) -> String { self.1.sha256(i) }
        fn hash256(&self, i: usize) -> String { self.1.hash256(i) }
        fn ripemd160(&self, i: usize) -> String { self.1.ripemd160(i) }
        fn hash160(&self, i: usize) -> String { self.1.hash160(i) }
    }
    let mut out = vec![];
    for cx in [Cx::Legacy, Cx::Segwitv0, Cx::Tap] {
        let keys: Vec<String> = (0..10).map(|_| key(rng, cx)).collect();
        let names = N(std::cell::RefCell::new(keys.clone()), world);
        let mut gc = GenCfg::new(cx, max_nodes);
        gc.n_keys = 8;
        let budget = 1 + rng.below(max_nodes);
        let f = {
            let mut g = Gen::new(rng, gc.clone());
            g.gen(Base::B, budget)
        };
        let ms = f.to_string_sugared(&names);
        match cx {
            Cx::Legacy => {
                out.push(format!("sh({})", ms));
                out.push(format!("pkh({})", keys[8]));
                out.push(format!("pk({})", keys[9]));
                out.push(format!("sh(sortedmulti(2,{},{},{}))", keys[0], keys[1], keys[2]));
            }
            Cx::Segwitv0 => {
                out.push(format!("wsh({})", ms));
                out.push(format!("sh(wsh({}))", ms));
                out.push(format!("wpkh({})", keys[8]));
                out.push(format!("sh(wpkh({}))", keys[9]));
                out.push(format!("wsh(sortedmulti(1,{},{}))", keys[0], keys[1]));
            }
            _ => {
                let f2 = {
                    let mut g = Gen::new(rng, gc.clone());
                    g.gen(Base::B, 3)
                };
                let f3 = {
                    let mut g = Gen::new(rng, gc);
                    g.gen(Base::B, 2)
                };
                let (m2, m3) = (f2.to_string_sugared(&names), f3.to_string_sugared(&names));
                out.push(format!("tr({})", keys[8]));
                out.push(format!("tr({},{})", keys[8], ms));
                out.push(format!("tr({},{{{},{}}})", keys[8], ms, m2));
                out.push(format!("tr({},{{{{{},{}}},{}}})", keys[8], ms, m2, m3));
                out.push(format!("tr({},{{{},{{{},{}}}}})", keys[8], ms, m2, m3));
            }
        }
    }
    out
}

fn check_desc<T>(rep: &mut Report, case: u64, kind: &str, s0: &str) -> Option<String>
where
    T: PartialEq + Display + Debug + FromStr,
    <T as FromStr>::Err: Display,
{
    let p = |s: &str| T::from_str(s).map_err(|e| e.to_string());
    let (a, s1) = roundtrip(rep, case, kind, s0, &p)?;
    // checksum printed == model; alternate form has none and parses to the same object
    if let Some(pos) = s1.rfind('#') {
        let (body, cs) = (&s1[..pos], &s1[pos + 1..]);
        match descsum::checksum(body) {
            Some(m) if m == cs => rep.count("checksum-equals-bip380-model"),
            m => rep.violation(case, format!("C10:checksum-differs-from-model:{}", kind), format!("{} printed checksum {} but BIP-380 gives {:?}", body, cs, m)),
        }
        match guarded(|| libsum::verify_checksum(&s1).map(|b| b.to_string()).map_err(|e| e.to_string())) {
            Ok(Ok(b)) if b == body => {}
            other => rep.violation(case, format!("C10:own-checksum-not-verified:{}", kind), format!("verify_checksum({}) = {:?}", s1, other)),
        }
        let alt = format!("{:#}", a);
        if alt != body {
            rep.violation(case, format!("C10:alternate-form:{}", kind), format!("{{:#}} prints {} but the checksummed body is {}", alt, body));
        }
        match guarded(|| p(&alt)) {
            Ok(Ok(b)) if b == a => {}
            _ => rep.violation(case, format!("C10:alternate-form-roundtrip:{}", kind), format!("{} does not parse back to the same object", alt)),
        }
        return Some(s1);
    }
    rep.violation(case, format!("C10:no-checksum-printed:{}", kind), s1);
    None
}

fn corrupt(rep: &mut Report, case: u64, rng: &mut Rng, s: &str, n_double: usize, n_quad: usize) {
    let chars: Vec<char> = s.chars().collect();
    let charset: Vec<char> = descsum::INPUT_CHARSET.chars().collect();
    let g0 = descsum::group0();
    let judge = |rep: &mut Report, m: &[char], how: &str| {
        rep.eval();
        let ms: String = m.iter().collect();
        if ms == s {
            return;
        }
        // verify_checksum legitimately returns Ok for a string that carries no checksum at all
        // (the '#' itself was substituted); then only the parsers decide.
        let by_verify = guarded(|| ms.contains('#') && libsum::verify_checksum(&ms).is_ok());
        let by_parse = guarded(|| Descriptor::<String>::from_str(&ms).is_ok());
        let by_parse_pk = guarded(|| Descriptor::<DescriptorPublicKey>::from_str(&ms).is_ok());
        match (by_verify, by_parse, by_parse_pk) {
            (Ok(false), Ok(false), Ok(false)) => {
                rep.count(&format!("corruption-rejected:{}", how));
                // distinct by (original string, kind, position of first difference)
                let first = m.iter().zip(chars.iter()).position(|(a, b)| a != b).unwrap_or(0);
                rep.nontrivial(&format!("corrupt|{}|{}|{}", s, how, first));
            }
            (Err(m2), _, _) | (_, Err(m2), _) | (_, _, Err(m2)) => rep.violation(
                case,
                format!("C10:panic:corrupted-string:{}", norm_loc(&last_panic_loc())),
                format!("panic ({}) on corrupted descriptor {}", m2, ms),
            ),
            (v, p1, p2) => rep.violation(
                case,
                format!("C10:corruption-accepted:{}", how),
                format!("{} ({} of {}) accepted: verify_checksum {:?}, Descriptor<String> {:?}, Descriptor<DescriptorPublicKey> {:?}", ms, how, s, v, p1, p2),
            ),
        }
    };
    // all single substitutions
    for i in 0..chars.len() {
        for c in &charset {
            if *c == chars[i] {
                continue;
            }
            let mut m = chars.clone();
            m[i] = *c;
            judge(rep, &m, "1-substitution");
        }
    }
    for _ in 0..n_double {
        let mut m = chars.clone();
        for _ in 0..2 {
            let i = rng.below(m.len());
            m[i] = *rng.pick(&charset);
        }
        judge(rep, &m, "2-substitutions");
    }
    // up to 4 substitutions that stay inside group 0
    let pos0: Vec<usize> = chars.iter().enumerate().filter(|(_, c)| g0.contains(c)).map(|(i, _)| i).collect();
    if pos0.len() >= 4 {
        for _ in 0..n_quad {
            let mut m = chars.clone();
            let k = 1 + rng.below(4);
            for _ in 0..k {
                let i = *rng.pick(&pos0);
                m[i] = *rng.pick(&g0);
            }
            judge(rep, &m, "<=4-substitutions-in-group-0");
        }
    }
}

pub fn run(cfg: &RunCfg, rep: &mut Report) {
    let world = World::new(cfg.seed);
    let total = cfg.n_cases(3_000, 60_000);
    let max_nodes = if cfg.tier == Tier::Thorough { 24 } else { 10 };
    let (n_double, n_quad, max_len) = if cfg.tier == Tier::Thorough { (400, 400, 500) } else { (60, 60, 120) };
    for i in cfg.cases(total) {
        let mut rng = cfg.case_rng(i);
        // A. miniscripts
        let cx = Cx::ALL[rng.below(4)];
        let mut gc = GenCfg::new(cx, max_nodes);
        gc.repeat_keys = true;
        let budget = 1 + rng.below(max_nodes);
        let want = *rng.pick(&[Base::B, Base::B, Base::B, Base::V, Base::K, Base::W]);
        let frag = {
            let mut g = Gen::new(&mut rng, gc);
            g.gen(want, budget)
        };
        match cx {
            Cx::Bare => ms_text::<BareCtx>(rep, i, cx, &frag, &world),
            Cx::Legacy => ms_text::<Legacy>(rep, i, cx, &frag, &world),
            Cx::Segwitv0 => ms_text::<Segwitv0>(rep, i, cx, &frag, &world),
            Cx::Tap => ms_text::<Tap>(rep, i, cx, &frag, &world),
        }

        // B. descriptors over four key types
        let mut ctr = 0usize;
        // key names over the whole alphanumeric part of the checksum's input character set (every
        // letter in both cases and every digit gets used, so that every CHAR_MAP entry matters)
        let mut string_key = |r: &mut Rng, _: Cx| {
            ctr += 1;
            const AL: &[u8] = b"ABCDEFGHIJKLMNOPQRSTUVWXYZabcdefghijklmnopqrstuvwxyz0123456789_";
            let n = 1 + r.below(6);
            let name: String = (0..n).map(|_| AL[r.below(AL.len())] as char).collect();
            format!("{}{}", name, ctr)
        };
        let mut checksummed: Vec<String> = vec![];
        for s in desc_strings(&mut rng, &world, &mut string_key, max_nodes) {
            if let Some(s1) = check_desc::<Descriptor<String>>(rep, i, "descriptor<String>", &s) {
                checksummed.push(s1);
            }
        }
        let mut xkey = |r: &mut Rng, cx: Cx| match r.below(4) {
            0 => {
                let k = &world.keys[r.below(world.keys.len())];
                if cx == Cx::Tap {
                    k.xonly_hex.clone()
                } else {
                    k.compressed_hex.clone()
                }
            }
            1 if cx == Cx::Legacy => world.keys[r.below(world.keys.len())].uncompressed_hex.clone(),
            _ => world.gen_xkey(r, true, false, true).text,
        };
        for s in desc_strings(&mut rng, &world, &mut xkey, max_nodes.min(8)) {
            if let Some(s1) = check_desc::<Descriptor<DescriptorPublicKey>>(rep, i, "descriptor<DescriptorPublicKey>", &s) {
                if s1.len() <= max_len {
                    checksummed.push(s1);
                }
            }
        }
        let mut mpkey = |r: &mut Rng, _: Cx| {
            // consistent multipath: always 2 alternatives
            loop {
                let k = world.gen_xkey(r, true, true, false);
                if k.n_multipath == 2 {
                    return k.text;
                }
            }
        };
        for s in desc_strings(&mut rng, &world, &mut mpkey, 4) {
            check_desc::<Descriptor<DescriptorPublicKey>>(rep, i, "descriptor<multipath>", &s);
        }
        let mut dkey = |r: &mut Rng, cx: Cx| {
            if r.coin() {
                world.gen_xkey(r, false, false, false).text
            } else if cx == Cx::Tap {
                world.keys[r.below(world.keys.len())].xonly_hex.clone()
            } else {
                world.keys[r.below(world.keys.len())].compressed_hex.clone()
            }
        };
        for s in desc_strings(&mut rng, &world, &mut dkey, max_nodes.min(8)) {
            check_desc::<Descriptor<DefiniteDescriptorKey>>(rep, i, "descriptor<DefiniteDescriptorKey>", &s);
        }
        let mut pkkey = |r: &mut Rng, cx: Cx| {
            if cx == Cx::Legacy && r.chance(1, 4) {
                world.keys[r.below(world.keys.len())].uncompressed_hex.clone()
            } else {
                world.keys[r.below(world.keys.len())].compressed_hex.clone()
            }
        };
        for s in desc_strings(&mut rng, &world, &mut pkkey, max_nodes.min(8)) {
            check_desc::<Descriptor<bitcoin::PublicKey>>(rep, i, "descriptor<bitcoin::PublicKey>", &s);
        }

        // C. keys
        for _ in 0..4 {
            let k = world.gen_xkey(&mut rng, true, true, true);
            let pk = |s: &str| DescriptorPublicKey::from_str(s).map_err(|e| e.to_string());
            let parsed = roundtrip(rep, i, "DescriptorPublicKey", &k.text, &pk);
            // h and ' are aliases
            let alt = if k.text.contains('\'') { k.text.replace('\'', "h") } else { k.text.replace('h', "'") };
            if alt != k.text && !k.text.contains("xpubh") {
                if let (Some((a, _)), Ok(Ok(b))) = (&parsed, guarded(|| pk(&alt))) {
                    if *a != b {
                        rep.violation(i, "C10:hardened-marker-alias".into(), format!("{} and {} parse to different keys", k.text, alt));
                    }
                }
            }
            if let Some(st) = &k.secret_text {
                let sk = |s: &str| DescriptorSecretKey::from_str(s).map_err(|e| e.to_string());
                if let Some((skey, _)) = roundtrip(rep, i, "DescriptorSecretKey", st, &sk) {
                    if let (Some((a, _)), Ok(Ok(p))) = (&parsed, guarded(std::panic::AssertUnwindSafe(|| skey.to_public(&world.secp).map_err(|e| e.to_string())))) {
                        if *a != p {
                            rep.violation(i, "C10:secret-to_public".into(), format!("to_public({}) = {} but the public expression is {}", st, p, a));
                        } else {
                            rep.count("secret-to_public-equals-public-expression");
                        }
                    }
                }
            }
        }
        for form in [KeyForm::Compressed, KeyForm::Uncompressed, KeyForm::XOnly] {
            let s = Names::key(&world, &KeyRef { id: rng.below(world.keys.len()), form });
            let pk = |s: &str| DescriptorPublicKey::from_str(s).map_err(|e| e.to_string());
            roundtrip(rep, i, "DescriptorPublicKey", &s, &pk);
            // the same key with a key origin
            let hm = if rng.coin() { "'" } else { "h" };
            let origin = match rng.below(3) {
                0 => format!("[{:08x}]", rng.next_u64() as u32),
                1 => format!("[{:08x}/{}{}/{}]", rng.next_u64() as u32, rng.below(100), hm, rng.below(100)),
                _ => format!("[{:08x}/86{}/0{}/{}{}]", rng.next_u64() as u32, hm, hm, rng.below(5), hm),
            };
            let so = format!("{}{}", origin, s);
            if let Some((_, printed)) = roundtrip(rep, i, "DescriptorPublicKey-with-origin", &so, &pk) {
                // the origin must still be there, with the hardened marker normalised at most
                let norm = |x: &str| x.replace('h', "'");
                if !norm(&printed).starts_with(&norm(&origin)) {
                    rep.violation(i, "C10:key-origin-lost".into(), format!("{} prints as {}", so, printed));
                }
            }
            if form != KeyForm::Uncompressed {
                let d = if form == KeyForm::XOnly { format!("tr({},pk({}))", so, s) } else { format!("wpkh({})", so) };
                let dp = |s: &str| Descriptor::<DescriptorPublicKey>::from_str(s).map_err(|e| e.to_string());
                if let Some((_, printed)) = roundtrip(rep, i, "Descriptor-with-key-origin", &d, &dp) {
                    if !printed.replace('h', "'").contains(&origin.replace('h', "'")) {
                        rep.violation(i, "C10:key-origin-lost".into(), format!("{} prints as {}", d, printed));
                    }
                }
            }
        }

        // multipath steps whose first alternatives coincide (the alternatives of a step need not differ)
        {
            let base = world.gen_xkey(&mut rng, false, false, false);
            let a_ = rng.below(9);
            let b_ = a_ + 1 + rng.below(5);
            for tail in [format!("/<{};{};{}>/*", a_, a_, b_), format!("/<{};{};{}>", a_, b_, a_), format!("/<{};{}>/3/*", b_, a_), format!("/7/<{};{};{};{}>", a_, a_, a_, b_)] {
                let ks = format!("{}{}", base.text, tail);
                let pk = |s: &str| DescriptorPublicKey::from_str(s).map_err(|e| e.to_string());
                if let Some((k, printed)) = roundtrip(rep, i, "DescriptorPublicKey-multipath-repeats", &ks, &pk) {
                    let n_in = tail.matches(';').count() + 1;
                    let n_out = guarded(std::panic::AssertUnwindSafe(|| k.clone().into_single_keys().len())).unwrap_or(0);
                    if n_out != n_in || printed.matches(';').count() + 1 != n_in {
                        rep.violation(i, "C10:multipath-alternatives-lost".into(), format!("{} has {} alternatives; parsed object has {}, printed as {}", ks, n_in, n_out, printed));
                    }
                }
            }
        }

        // extended keys at the BIP-32 depth limit: depth + path (+1 for a wildcard) up to 255 is
        // derivable and must parse and round trip; one more must be refused, never panic later
        if i % 8 == 0 {
            let mut xpub = world.xpub;
            let d = 245 + rng.below(11) as u8;
            xpub.depth = d;
            let room = 255usize - d as usize;
            for (extra, wildcard) in [(room, false), (room.saturating_sub(1), true), (room + 1, false), (room, true)] {
                let total = d as usize + extra + wildcard as usize;
                let ks = format!("{}{}{}", xpub, "/1".repeat(extra), if wildcard { "/*" } else { "" });
                let pk = |s: &str| DescriptorPublicKey::from_str(s).map_err(|e| e.to_string());
                rep.eval();
                match guarded(|| pk(&ks)) {
                    Ok(Ok(k)) => {
                        if total > 255 {
                            rep.violation(i, "C10:key-beyond-bip32-depth-accepted".into(), format!("{} (depth {} + {} steps{}) parses", ks, d, extra, if wildcard { " + wildcard" } else { "" }));
                        } else {
                            roundtrip(rep, i, "DescriptorPublicKey-at-depth-limit", &ks, &pk);
                            let _ = k;
                        }
                    }
                    Ok(Err(e)) => {
                        if total <= 255 {
                            rep.violation(i, "C10:derivable-key-refused".into(), format!("{} (depth {} + {} steps{} = {} <= 255) is refused: {}", ks, d, extra, if wildcard { " + wildcard" } else { "" }, total, e));
                        } else {
                            rep.count("key-beyond-bip32-depth-refused");
                        }
                    }
                    Err(m) => rep.violation(i, format!("C10:panic:parse:depth-limit:{}", norm_loc(&last_panic_loc())), format!("{} on {}", m, ks)),
                }
            }
        }

        // D. policies
        let nm = AbstractPolNames;
        let pcfg = PolGenCfg { max_leaves: 8, n_keys: 6, n_hash: 2, concrete: true, constants: rng.coin(), repeat_atoms: true, timelocks: true, hashes: true, max_depth: 4, timelock_heavy: false };
        let leaves = 1 + rng.below(8);
        let p = PolGen::new(&mut rng, pcfg).gen(leaves, 0);
        let pc = |s: &str| Concrete::<String>::from_str(s).map_err(|e| e.to_string());
        roundtrip(rep, i, "concrete-policy", &p.concrete(&nm), &pc);
        let ps = |s: &str| Semantic::<String>::from_str(s).map_err(|e| e.to_string());
        roundtrip(rep, i, "semantic-policy", &p.semantic(&nm), &ps);

        // D2. semantic policies with n-ary and/or/thresh: the library's reading of the text must mean
        // what the text means (judged by the harness's own parser + truth tables), and objects that
        // did not come from the parser (lifted, normalized) must survive printing
        {
            let pcfg = PolGenCfg { max_leaves: 7, n_keys: 6, n_hash: 2, concrete: false, constants: rng.chance(1, 4), repeat_atoms: rng.coin(), timelocks: true, hashes: true, max_depth: 3, timelock_heavy: false };
            let leaves = 1 + rng.below(7);
            let p2 = PolGen::new(&mut rng, pcfg).gen(leaves, 0);
            let s0 = p2.semantic(&nm);
            if let Some((obj, s1)) = roundtrip(rep, i, "semantic-policy-nary", &s0, &ps) {
                let (kl, hl) = crate::pol::abstract_lookup();
                let lk = crate::pol::PolLookup { key: &kl, hash: &hl };
                match (crate::pol::parse_pol(&s0, &lk), crate::pol::parse_pol(&s1, &lk)) {
                    (Ok(m0), Ok(m1)) => {
                        let mut atoms = m0.atoms();
                        for a in m1.atoms() {
                            if !atoms.contains(&a) {
                                atoms.push(a);
                            }
                        }
                        if atoms.len() <= 14 {
                            let mut diff = None;
                            for mask in 0u32..(1u32 << atoms.len()) {
                                let sigma = |a: &crate::pol::Atom| mask & (1 << atoms.iter().position(|x| x == a).unwrap()) != 0;
                                if m0.eval(&sigma) != m1.eval(&sigma) {
                                    diff = Some(mask);
                                    break;
                                }
                            }
                            match diff {
                                Some(mask) => rep.violation(i, "C10:text-meaning-changed:semantic-policy".into(), format!("{} is read and printed back as {} which means something else (atoms {:?}, assignment {:#b})", s0, s1, atoms, mask)),
                                None => rep.count("text-meaning-preserved:semantic-policy"),
                            }
                        }
                    }
                    (_, Err(e)) => rep.violation(i, "C10:printed-policy-unreadable-by-model".into(), format!("{} -> {} : {}", s0, s1, e)),
                    _ => rep.count("model-parser-rejects-generated-policy"),
                }
                // objects not produced by the parser
                let objs = guarded(std::panic::AssertUnwindSafe(|| vec![obj.clone().normalized(), obj.clone().at_age(bitcoin::relative::LockTime::from_height(150)), obj.clone().at_lock_time(bitcoin::absolute::LockTime::from_consensus(500_000_005))]));
                if let Ok(objs) = objs {
                    for o in objs {
                        rep.eval();
                        let printed = o.to_string();
                        match guarded(|| ps(&printed)) {
                            Ok(Ok(back)) if back == o => rep.count("object-roundtrip:semantic-policy(normalized/at_age/at_lock_time)"),
                            Ok(Ok(back)) => rep.violation(i, "C10:object-roundtrip:semantic-policy".into(), format!("object {:?} prints as {} which parses to {:?}", o, printed, back)),
                            Ok(Err(e)) => rep.violation(i, "C10:own-output-rejected:semantic-policy-object".into(), format!("{} : {}", printed, e)),
                            Err(m) => rep.violation(i, format!("C10:panic:parse:semantic-policy-object:{}", norm_loc(&last_panic_loc())), format!("{} on {}", m, printed)),
                        }
                    }
                }
            }
        }

        // E. wallet policies (templates) from multipath descriptors
        {
            // BIP-388 shaped key expressions only: [origin]xpub/<a;b>/* with a < b (the template
            // grammar has no place for further derivation steps)
            let mk = |rng: &mut Rng| loop {
                let mut k = world.gen_xkey(rng, false, false, false);
                if k.steps.is_empty() {
                    // pairs on both sides of a change in the number of digits included (9/10, 99/100)
                    let a = *rng.pick(&[0usize, 1, 2, 7, 8, 9, 98, 99, 999]);
                    let b = a + 1 + rng.below(5);
                    k.text = format!("{}/<{};{}>/*", k.text, a, b);
                    return k;
                }
            };
            let k1 = mk(&mut rng);
            let k2 = mk(&mut rng);
            for s in [format!("wsh(and_v(v:pk({}),pk({})))", k1.text, k2.text), format!("tr({},pk({}))", k1.text, k2.text), format!("wpkh({})", k1.text)] {
                rep.eval();
                let r = guarded(std::panic::AssertUnwindSafe(|| {
                    let d = Descriptor::<DescriptorPublicKey>::from_str(&s).map_err(|e| e.to_string())?;
                    let wp = WalletPolicy::from_descriptor(&d).map_err(|e| e.to_string())?;
                    let t = wp.to_string();
                    let back = wp.clone().into_descriptor().map_err(|e| e.to_string())?;
                    let reparsed = WalletPolicy::from_str(&t).map_err(|e| format!("template {} rejected: {}", t, e))?;
                    Ok::<_, String>((d, t, back, reparsed.to_string()))
                }));
                match r {
                    Ok(Ok((d, t, back, t2))) => {
                        if back != d {
                            rep.violation(i, "C10:wallet-policy-descriptor-roundtrip".into(), format!("{} -> template {} -> {}", d, t, back));
                        } else if t2 != t {
                            rep.violation(i, "C10:wallet-policy-template-fixed-point".into(), format!("{} -> {}", t, t2));
                        } else {
                            rep.count("wallet-policy-roundtrip");
                            rep.nontrivial(&format!("wp|{}", t));
                        }
                    }
                    Ok(Err(e)) if e.starts_with("template ") => rep.violation(
                        i,
                        "C10:wallet-policy-template-rejected".into(),
                        format!("descriptor {} gives a wallet policy whose printed {}", s, e),
                    ),
                    Ok(Err(_)) => rep.count("wallet-policy-refused"),
                    Err(m) => rep.violation(i, format!("C10:panic:wallet-policy:{}", norm_loc(&last_panic_loc())), format!("wallet policy code panicked ({}) on {}", m, s)),
                }
            }
        }

        // F. checksum corruption on one or two of this case's checksummed strings
        checksummed.retain(|s| s.len() <= max_len);
        if !checksummed.is_empty() {
            let pick = rng.below(checksummed.len());
            let s = checksummed[pick].clone();
            corrupt(rep, i, &mut rng, &s, n_double, n_quad);
            if rep.samples.len() < rep.max_samples && i % 211 == 0 {
                rep.sample(s);
            }
        }
    }
    if rep.samples.is_empty() {
        rep.sample("(see counters)".into());
    }
}
