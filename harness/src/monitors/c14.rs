//! C14: PSBT finalization yields a valid spend, atomically, idempotently and
//! independently of the order in which fields were added. Histories of operations are
//! recorded at the client boundary (snapshot after every call) and checked against a
//! sequential model; final inputs are executed in the reference VM.

use std::collections::BTreeMap;

use miniscript::bitcoin;
use miniscript::psbt::{Error as PsbtError, PsbtExt};
use miniscript::{Descriptor, ForEachKey, ToPublicKey};

use bitcoin::hashes::{hash160, ripemd160, sha256, sha256d, Hash};
use bitcoin::psbt::Psbt;
use bitcoin::taproot::TapLeafHash;
use bitcoin::{absolute, transaction, Amount, OutPoint, ScriptBuf, Sequence, Transaction, TxIn, TxOut, Witness};

use super::c01::{case_cfg, is_sane};
use super::{guarded, last_panic_loc, norm_loc, Report, RunCfg, Tier};
use crate::oracle::bip341;
use crate::prng::Rng;
use crate::refvm::verify::verify_input;
use crate::refvm::vm::{Flags, TxCtx};
use crate::satcase::*;
use crate::target::Target;
use crate::world::{hex, Assets, Dk, Spend, World};

#[derive(Clone, Debug)]
pub enum Op {
    Update(usize),
    AddSig(usize, usize),
    AddPre(usize, usize),
    FinAll(bool),
    FinInp(usize, bool),
    Extract,
    SerDe,
    /// what a combiner does: signer-side fields come back onto an input that is already final
    Merge(usize),
}

pub struct InputPlan {
    pub case: DescCase,
    pub desc: Descriptor<Dk>,
    pub target: Target,
    pub legacy: bool,
}

pub struct Setup {
    pub inputs: Vec<InputPlan>,
    pub tx: Transaction,
    pub prevouts: Vec<TxOut>,
    pub prev_txs: Vec<Option<Transaction>>,
    /// how a segwit input describes the coin it spends: 0 = witness_utxo, 1 = non_witness_utxo
    /// only, 2 = both (all three are allowed by BIP-174)
    pub utxo_style: Vec<u8>,
}

pub fn build_setup(rng: &mut Rng, world: &World, tier: Tier) -> Option<Setup> {
    let n = 1 + rng.below(4);
    let mut ccfg = case_cfg(tier);
    ccfg.max_nodes = ccfg.max_nodes.min(10);
    let mut inputs = vec![];
    let mut guard = 0;
    while inputs.len() < n && guard < 60 {
        guard += 1;
        let case = gen_desc_case(rng, world, &ccfg);
        let desc = match guarded(|| parse_desc(&case.desc)) {
            Ok(Ok(d)) => d,
            _ => continue,
        };
        if !case.spec_types().iter().all(|t| matches!(t, Some(t) if t.base == crate::oracle::spec_types::Base::B)) || !is_sane(&desc) {
            continue;
        }
        let target = match Target::from_descriptor(&desc) {
            Ok(t) => t,
            Err(_) => continue,
        };
        let legacy = matches!(case.kind, DescKind::Pk | DescKind::Pkh | DescKind::Bare | DescKind::Sh);
        inputs.push(InputPlan { case, desc, target, legacy });
    }
    if inputs.is_empty() {
        return None;
    }
    // lock times that let every input be satisfied if its keys are there: one absolute
    // value (the maximum height-based one if any) and per-input sequences
    let mut lt = 0u32;
    for ip in &inputs {
        let (a, _) = ip.case.timelocks();
        for v in a {
            if v < 500_000_000 && v > lt {
                lt = v;
            }
        }
    }
    let mut tx_in = vec![];
    let mut prevouts = vec![];
    let mut prev_txs = vec![];
    // hostile transaction shapes: version 1 (BIP-68 off: older() cannot be met whatever the
    // sequence says) and final sequences (nLockTime off: after() cannot be met)
    let version = match rng.below(8) {
        0 | 1 => 1,
        2 => 3,
        _ => 2,
    };
    let final_seq = rng.chance(1, 12);
    for (i, ip) in inputs.iter().enumerate() {
        let (_, o) = ip.case.timelocks();
        let mut seq = o.iter().cloned().filter(|v| v & (1 << 22) == 0).max().unwrap_or(0xffff_fffd + (i as u32 & 1)); // the two non-final values that carry no relative lock
        // all inputs final, or just this one (another input's finality is none of this input's business)
        if final_seq || rng.chance(1, 8) {
            seq = 0xffff_ffff;
        } else if !o.is_empty() && rng.chance(1, 6) {
            seq = *rng.pick(&[seq.wrapping_sub(1), seq | (1 << 31), seq | (1 << 22), 0]);
        }
        let utxo = TxOut { value: Amount::from_sat(100_000 + i as u64), script_pubkey: ScriptBuf::from_bytes(ip.target.spk.clone()) };
        let vout = rng.below(3) as u32;
        let mut outs = vec![];
        for v in 0..=vout {
            outs.push(if v == vout { utxo.clone() } else { TxOut { value: Amount::from_sat(5_000), script_pubkey: ScriptBuf::from_bytes(vec![0x51]) } });
        }
        let prev = Transaction {
            version: transaction::Version(2),
            lock_time: absolute::LockTime::ZERO,
            input: vec![TxIn { previous_output: OutPoint::null(), script_sig: ScriptBuf::from_bytes(vec![0x01, i as u8 + 1]), sequence: Sequence::MAX, witness: Witness::new() }],
            output: outs,
        };
        tx_in.push(TxIn { previous_output: OutPoint { txid: prev.compute_txid(), vout }, script_sig: ScriptBuf::new(), sequence: Sequence(seq), witness: Witness::new() });
        prevouts.push(utxo);
        prev_txs.push(Some(prev));
    }
    let tx = Transaction {
        version: transaction::Version(version),
        lock_time: absolute::LockTime::from_consensus(lt),
        input: tx_in,
        output: vec![TxOut { value: Amount::from_sat(50_000), script_pubkey: ScriptBuf::from_bytes(vec![0x6a, 0x01, 0x14]) }],
    };
    let utxo_style: Vec<u8> = (0..inputs.len()).map(|_| match rng.below(8) { 0 => 1, 1 => 2, _ => 0 }).collect();
    Some(Setup { inputs, tx, prevouts, prev_txs, utxo_style })
}

pub fn fresh_psbt(s: &Setup) -> Psbt {
    let mut psbt = Psbt::from_unsigned_tx(s.tx.clone()).expect("unsigned tx");
    for (i, ip) in s.inputs.iter().enumerate() {
        if ip.legacy {
            psbt.inputs[i].non_witness_utxo = s.prev_txs[i].clone();
        } else {
            if s.utxo_style[i] != 1 {
                psbt.inputs[i].witness_utxo = Some(s.prevouts[i].clone());
            }
            if s.utxo_style[i] != 0 {
                psbt.inputs[i].non_witness_utxo = s.prev_txs[i].clone();
            }
        }
    }
    psbt
}

/// Apply one operation; returns a description of the outcome for the checker.
#[derive(Debug)]
pub enum Outcome {
    Ok,
    Err(Vec<Option<usize>>),
    Panic(String),
    Tx(Transaction),
}

pub fn apply(world: &World, s: &Setup, psbt: &mut Psbt, op: &Op) -> Outcome {
    match op {
        Op::Update(i) => {
            let d = &s.inputs[*i].desc;
            match guarded(std::panic::AssertUnwindSafe(|| psbt.update_input_with_descriptor(*i, d))) {
                Ok(Ok(())) => Outcome::Ok,
                Ok(Err(_)) => Outcome::Err(vec![Some(*i)]),
                Err(m) => Outcome::Panic(m),
            }
        }
        Op::AddSig(i, _) | Op::AddPre(i, _) if is_final(&psbt.inputs[*i]) => Outcome::Ok,
        Op::Merge(i) => {
            if !is_final(&psbt.inputs[*i]) {
                return Outcome::Ok;
            }
            let fin = (psbt.inputs[*i].final_script_sig.take(), psbt.inputs[*i].final_script_witness.take());
            for id in s.inputs[*i].case.key_ids() {
                apply(world, s, psbt, &Op::AddSig(*i, id));
            }
            for p in s.inputs[*i].case.pre_ids() {
                apply(world, s, psbt, &Op::AddPre(*i, p));
            }
            match &s.inputs[*i].target.paths[0].wrap {
                crate::target::Wrap::P2sh { redeem } => psbt.inputs[*i].redeem_script = Some(ScriptBuf::from_bytes(redeem.clone())),
                crate::target::Wrap::P2wsh { script } => psbt.inputs[*i].witness_script = Some(ScriptBuf::from_bytes(script.clone())),
                crate::target::Wrap::P2shP2wsh { script, redeem } => {
                    psbt.inputs[*i].witness_script = Some(ScriptBuf::from_bytes(script.clone()));
                    psbt.inputs[*i].redeem_script = Some(ScriptBuf::from_bytes(redeem.clone()));
                }
                crate::target::Wrap::P2shP2wpkh { redeem } => psbt.inputs[*i].redeem_script = Some(ScriptBuf::from_bytes(redeem.clone())),
                _ => {}
            }
            psbt.inputs[*i].final_script_sig = fin.0;
            psbt.inputs[*i].final_script_witness = fin.1;
            Outcome::Ok
        }
        Op::AddSig(i, key_id) => {
            let ip = &s.inputs[*i];
            let spend = Spend { tx: s.tx.clone(), prevouts: s.prevouts.clone(), idx: *i };
            let mut assets = Assets::new(world, &spend, ip.target.ecdsa.clone());
            assets.keys.insert(*key_id);
            // every key of the descriptor owned by key_id signs, for every place it can be used
            let mut keys: Vec<Dk> = vec![];
            ip.desc.for_each_key(|k| {
                keys.push(k.clone());
                true
            });
            for k in keys {
                let x = k.to_x_only_pubkey();
                if world.owner_of(&x.serialize()) != Some(*key_id) {
                    continue;
                }
                if let Descriptor::Tr(tr) = &ip.desc {
                    if tr.internal_key().to_x_only_pubkey() == x {
                        if let Some(sig) = assets.schnorr_sig(&x, None, ip.target.tr_merkle_root) {
                            psbt.inputs[*i].tap_key_sig = Some(sig);
                        }
                    }
                    for p in &ip.target.paths {
                        if let Some(lh) = p.leaf_hash {
                            if let Some(sig) = assets.schnorr_sig(&x, Some(lh), None) {
                                psbt.inputs[*i].tap_script_sigs.insert((x, lh), sig);
                            }
                        }
                    }
                } else {
                    let pk = k.to_public_key();
                    if let Some(sig) = assets.ecdsa_sig(&pk) {
                        psbt.inputs[*i].partial_sigs.insert(pk, sig);
                    }
                }
            }
            Outcome::Ok
        }
        Op::AddPre(i, pid) => {
            let p = &world.pre[*pid];
            let inp = &mut psbt.inputs[*i];
            inp.sha256_preimages.insert(sha256::Hash::from_byte_array(p.sha256), p.pre.to_vec());
            inp.hash256_preimages.insert(sha256d::Hash::from_byte_array(p.hash256), p.pre.to_vec());
            inp.ripemd160_preimages.insert(ripemd160::Hash::from_byte_array(p.ripemd160), p.pre.to_vec());
            inp.hash160_preimages.insert(hash160::Hash::from_byte_array(p.hash160), p.pre.to_vec());
            Outcome::Ok
        }
        Op::FinAll(mall) => {
            let r = guarded(std::panic::AssertUnwindSafe(|| if *mall { psbt.finalize_mall_mut(&world.secp) } else { psbt.finalize_mut(&world.secp) }));
            match r {
                Ok(Ok(())) => Outcome::Ok,
                Ok(Err(es)) => Outcome::Err(
                    es.iter()
                        .map(|e| match e {
                            PsbtError::InputError(_, n) => Some(*n),
                            _ => None,
                        })
                        .collect(),
                ),
                Err(m) => Outcome::Panic(m),
            }
        }
        Op::FinInp(i, mall) => {
            let r = guarded(std::panic::AssertUnwindSafe(|| if *mall { psbt.finalize_inp_mall_mut(&world.secp, *i) } else { psbt.finalize_inp_mut(&world.secp, *i) }));
            match r {
                Ok(Ok(())) => Outcome::Ok,
                Ok(Err(_)) => Outcome::Err(vec![Some(*i)]),
                Err(m) => Outcome::Panic(m),
            }
        }
        Op::Extract => match guarded(std::panic::AssertUnwindSafe(|| psbt.extract(&world.secp))) {
            Ok(Ok(tx)) => Outcome::Tx(tx),
            Ok(Err(_)) => Outcome::Err(vec![]),
            Err(m) => Outcome::Panic(m),
        },
        Op::SerDe => {
            let bytes = psbt.serialize();
            match Psbt::deserialize(&bytes) {
                Ok(p2) => {
                    if p2 != *psbt {
                        return Outcome::Err(vec![None]);
                    }
                    *psbt = p2;
                    Outcome::Ok
                }
                Err(_) => Outcome::Err(vec![None]),
            }
        }
    }
}

fn is_final(inp: &bitcoin::psbt::Input) -> bool { inp.final_script_sig.is_some() || inp.final_script_witness.is_some() }

fn vm_check(world: &World, s: &Setup, psbt: &Psbt, i: usize) -> Result<(), String> {
    let mut tx = s.tx.clone();
    // the final fields of ALL final inputs go into the transaction (sighashes do not cover them)
    let inp = &psbt.inputs[i];
    let ss = inp.final_script_sig.clone().unwrap_or_default();
    let w: Vec<Vec<u8>> = inp.final_script_witness.as_ref().map(|w| w.to_vec()).unwrap_or_default();
    tx.input[i].script_sig = ScriptBuf::new();
    let txc = TxCtx { tx: &s.tx, idx: i, prevouts: &s.prevouts };
    verify_input(&s.inputs[i].target.spk, ss.as_bytes(), &w, &txc, Flags::STANDARD, &world.secp).map(|_| ()).map_err(|f| format!("{}: {}", f.category(), f.detail()))
}

fn describe(s: &Setup, hist: &[(Op, String)]) -> String {
    format!(
        "inputs: [{}]; nLockTime={}; history: {}",
        s.inputs.iter().enumerate().map(|(i, ip)| format!("#{} {} seq={:#x}", i, ip.case.desc, s.tx.input[i].sequence.0)).collect::<Vec<_>>().join(" | "),
        s.tx.lock_time.to_consensus_u32(),
        hist.iter().map(|(o, r)| format!("{:?}->{}", o, r)).collect::<Vec<_>>().join(", ")
    )
}

/// (vii) what update_input_with_descriptor recorded is consistent with the descriptor's output
fn check_update_fields(rep: &mut Report, case: u64, world: &World, s: &Setup, psbt: &Psbt, i: usize) {
    let ip = &s.inputs[i];
    let inp = &psbt.inputs[i];
    let spk = &ip.target.spk;
    let h160 = |b: &[u8]| hash160::Hash::hash(b).to_byte_array().to_vec();
    let sha = |b: &[u8]| sha256::Hash::hash(b).to_byte_array().to_vec();
    let mut bad: Vec<String> = vec![];
    match ip.case.kind {
        DescKind::Wsh => {
            match &inp.witness_script {
                Some(ws) => {
                    let mut want = vec![0x00, 0x20];
                    want.extend(sha(ws.as_bytes()));
                    if want != *spk {
                        bad.push("witness_script does not hash to the scriptPubKey".into());
                    }
                }
                None => bad.push("witness_script missing".into()),
            }
            if inp.redeem_script.is_some() {
                bad.push("redeem_script set for native wsh".into());
            }
        }
        DescKind::ShWsh => match (&inp.witness_script, &inp.redeem_script) {
            (Some(ws), Some(rs)) => {
                let mut want_rs = vec![0x00, 0x20];
                want_rs.extend(sha(ws.as_bytes()));
                let mut want_spk = vec![0xa9, 0x14];
                want_spk.extend(h160(rs.as_bytes()));
                want_spk.push(0x87);
                if want_rs != rs.to_bytes() || want_spk != *spk {
                    bad.push("sh(wsh) scripts do not chain to the scriptPubKey".into());
                }
            }
            _ => bad.push("witness_script / redeem_script missing for sh(wsh)".into()),
        },
        DescKind::Sh | DescKind::ShWpkh => match &inp.redeem_script {
            Some(rs) => {
                let mut want_spk = vec![0xa9, 0x14];
                want_spk.extend(h160(rs.as_bytes()));
                want_spk.push(0x87);
                if want_spk != *spk {
                    bad.push("redeem_script does not hash to the scriptPubKey".into());
                }
            }
            None => bad.push("redeem_script missing".into()),
        },
        DescKind::Tr => {
            if let Descriptor::Tr(tr) = &ip.desc {
                let ik = tr.internal_key().to_x_only_pubkey();
                if inp.tap_internal_key != Some(ik) {
                    bad.push("tap_internal_key differs from the descriptor's internal key".into());
                }
                // merkle root must reproduce the output key
                let root = inp.tap_merkle_root.map(|r| r.to_byte_array());
                match bip341::output_key(&world.secp, &ik, root) {
                    Some((q, _)) => {
                        let mut want = vec![0x51, 0x20];
                        want.extend_from_slice(&q.serialize());
                        if want != *spk {
                            bad.push("tap_internal_key + tap_merkle_root do not give the scriptPubKey".into());
                        }
                    }
                    None => {}
                }
                let n_leaves = ip.target.paths.iter().filter(|p| p.leaf_hash.is_some()).count();
                if inp.tap_scripts.len() != n_leaves && n_leaves == ip.case.frags.len() {
                    // identical leaves collapse in the map; only flag when all leaves are distinct
                    let distinct: std::collections::BTreeSet<Vec<u8>> = ip.target.paths.iter().filter(|p| p.leaf_hash.is_some()).map(|p| p.script.clone()).collect();
                    if distinct.len() == n_leaves {
                        bad.push(format!("{} tap_scripts for {} leaves", inp.tap_scripts.len(), n_leaves));
                    }
                }
                for (cb, (script, _ver)) in &inp.tap_scripts {
                    if bip341::verify_control_block(&world.secp, &spk[2..], &cb.serialize(), script.as_bytes()).is_err() {
                        bad.push("a tap_scripts control block does not prove its script".into());
                    }
                }
                // key origins: every key of the descriptor, with the leaves it occurs in
                let mut keys: Vec<Dk> = vec![];
                ip.desc.for_each_key(|k| {
                    keys.push(k.clone());
                    true
                });
                for k in &keys {
                    if !inp.tap_key_origins.contains_key(&k.to_x_only_pubkey()) {
                        bad.push(format!("tap_key_origins lacks key {}", k));
                    }
                }
                // ... completely: a leaf whose script names the key (or its hash) is listed under that
                // key, the internal key included when it is reused inside a leaf
                for (x, (leaves, _)) in &inp.tap_key_origins {
                    let kh = hash160::Hash::hash(&x.serialize()).to_byte_array();
                    for p in ip.target.paths.iter() {
                        if let Some(lh) = p.leaf_hash {
                            let named = p.script.windows(32).any(|w| w == x.serialize()) || p.script.windows(20).any(|w| w == kh);
                            if named && !leaves.contains(&lh) {
                                bad.push(format!("tap_key_origins of {} omits a leaf that names the key", if Some(*x) == inp.tap_internal_key { "the internal key" } else { "a leaf key" }));
                            }
                        }
                    }
                }
                for (x, (leaves, _)) in &inp.tap_key_origins {
                    for lh in leaves {
                        let kh = hash160::Hash::hash(&x.serialize()).to_byte_array();
                        let ok = ip.target.paths.iter().any(|p| {
                            p.leaf_hash == Some(*lh) && (p.script.windows(32).any(|w| w == x.serialize()) || p.script.windows(20).any(|w| w == kh))
                        });
                        if !ok {
                            bad.push("tap_key_origins lists a leaf hash whose script does not contain the key".into());
                        }
                    }
                }
            }
        }
        _ => {}
    }
    // bip32_derivation: public keys of the descriptor with fingerprint/path of the key expression
    if ip.case.kind != DescKind::Tr {
        let mut keys: Vec<Dk> = vec![];
        ip.desc.for_each_key(|k| {
            keys.push(k.clone());
            true
        });
        for k in &keys {
            let pk = k.to_public_key().inner;
            match inp.bip32_derivation.get(&pk) {
                Some((fp, path)) => {
                    // one map entry per secp key: the same key in two encodings has two fingerprints
                    let any = keys.iter().any(|k2| {
                        k2.to_public_key().inner == pk && *fp == k2.master_fingerprint() && Some(path.clone()) == k2.full_derivation_path()
                    });
                    if !any {
                        bad.push(format!("bip32_derivation of {} has the wrong key source", k));
                    }
                }
                None => bad.push(format!("bip32_derivation lacks key {}", k)),
            }
        }
    }
    if bad.is_empty() {
        rep.count("update-fields-consistent");
    } else {
        for b in bad {
            rep.violation(case, format!("C14:update-fields:{:?}:{}", ip.case.kind, b.split(' ').take(3).collect::<Vec<_>>().join("-")), format!("after update_input_with_descriptor({}): {}", ip.case.desc, b));
        }
    }
}

/// The planning API is the other updater: `Plan::update_psbt_input` must record the same scripts
/// and taproot commitments as `update_input_with_descriptor` did (which `check_update_fields`
/// has just validated against the models), and key origins only for keys of the descriptor.
fn check_plan_update(rep: &mut Report, case: u64, world: &World, s: &Setup, psbt: &Psbt, i: usize) {
    use miniscript::plan::Assets as LibAssets;
    let ip = &s.inputs[i];
    let mut keys = vec![];
    ip.desc.for_each_key(|k| {
        keys.push(k.clone());
        true
    });
    let internal = match &ip.desc {
        Descriptor::Tr(tr) => Some(tr.internal_key().clone()),
        _ => None,
    };
    for without_internal in [false, true] {
    if without_internal && internal.is_none() {
        continue;
    }
    let mut assets = LibAssets::new();
    for k in &keys {
        if without_internal && Some(k) == internal.as_ref() {
            continue; // forces a script-path plan
        }
        assets = assets.add(k.clone().into_descriptor_public_key());
    }
    for p in &world.pre {
        assets = assets
            .add(sha256::Hash::from_byte_array(p.sha256))
            .add(miniscript::hash256::Hash::from_byte_array(p.hash256))
            .add(ripemd160::Hash::from_byte_array(p.ripemd160))
            .add(hash160::Hash::from_byte_array(p.hash160));
    }
    assets = assets.after(s.tx.lock_time);
    if let Some(l) = s.tx.input[i].sequence.to_relative_lock_time() {
        assets = assets.older(l);
    }
    for mall in [false, true] {
        let d = ip.desc.clone();
        let a2 = &assets;
        let plan = match guarded(std::panic::AssertUnwindSafe(move || if mall { d.into_plan_mall(a2) } else { d.into_plan(a2) })) {
            Ok(Ok(p)) => p,
            Ok(Err(_)) => {
                rep.count("plan-update:no-plan");
                continue;
            }
            Err(m) => {
                rep.violation(case, format!("C14:panic:into_plan:{}", norm_loc(&last_panic_loc())), format!("into_plan panicked ({}) on {}", m, ip.case.desc));
                continue;
            }
        };
        let mut fresh = bitcoin::psbt::Input::default();
        if guarded(std::panic::AssertUnwindSafe(|| plan.update_psbt_input(&mut fresh))).is_err() {
            rep.violation(case, format!("C14:panic:Plan::update_psbt_input:{}", norm_loc(&last_panic_loc())), ip.case.desc.clone());
            continue;
        }
        let by_desc = &psbt.inputs[i];
        let mut bad = vec![];
        if fresh.witness_script != by_desc.witness_script {
            bad.push(format!("witness_script {:?} vs {:?}", fresh.witness_script.as_ref().map(|x| hex(x.as_bytes())), by_desc.witness_script.as_ref().map(|x| hex(x.as_bytes()))));
        }
        if fresh.redeem_script != by_desc.redeem_script {
            bad.push(format!("redeem_script {:?} vs {:?}", fresh.redeem_script.as_ref().map(|x| hex(x.as_bytes())), by_desc.redeem_script.as_ref().map(|x| hex(x.as_bytes()))));
        }
        if fresh.tap_internal_key.is_some() && fresh.tap_internal_key != by_desc.tap_internal_key {
            bad.push("tap_internal_key differs".into());
        }
        if fresh.tap_merkle_root.is_some() && fresh.tap_merkle_root != by_desc.tap_merkle_root {
            bad.push("tap_merkle_root differs".into());
        }
        for (cb, sv) in &fresh.tap_scripts {
            if by_desc.tap_scripts.get(cb) != Some(sv) {
                bad.push("tap_scripts entry unknown to the descriptor updater".into());
            }
        }
        for (pk, src) in &fresh.bip32_derivation {
            // one map entry per secp key: the same key in two encodings has two fingerprints
            let some_form = keys.iter().any(|k2| k2.to_public_key().inner == *pk && src.0 == k2.master_fingerprint() && Some(src.1.clone()) == k2.full_derivation_path());
            if by_desc.bip32_derivation.get(pk) != Some(src) && !some_form {
                bad.push(format!("bip32_derivation of {} differs from the descriptor updater", pk));
            }
        }
        // the leaf the plan spends through (if it is a script spend)
        let planned_leaf: Option<TapLeafHash> = fresh.tap_scripts.values().next().map(|(sc, ver)| TapLeafHash::from_script(sc, *ver));
        for (x, (lhs, src)) in &fresh.tap_key_origins {
            match by_desc.tap_key_origins.get(x) {
                Some((lhs2, src2)) if src2 == src => {
                    // BIP-371: the leaf hashes name the leaves the key is used in
                    if lhs.iter().any(|l| !lhs2.contains(l)) {
                        bad.push(format!("tap_key_origins of {} lists a leaf the key is not in", x));
                    }
                    if let Some(pl) = planned_leaf {
                        if lhs2.contains(&pl) && !lhs.contains(&pl) {
                            bad.push(format!("tap_key_origins of {} omits the leaf the plan signs in", x));
                        }
                    }
                }
                _ => bad.push(format!("tap_key_origins of {} differs from the descriptor updater", x)),
            }
        }
        if bad.is_empty() {
            rep.count("plan-update-consistent-with-descriptor-update");
        } else {
            rep.violation(
                case,
                format!("C14:plan-update-fields:{:?}:{}", ip.case.kind, bad[0].split(' ').take(if bad[0].starts_with("tap_key_origins") { 6 } else { 1 }).filter(|w| w.len() < 20).collect::<Vec<_>>().join("-")),
                format!("Plan::update_psbt_input (mall={}, internal key {}) for {} records fields inconsistent with the descriptor's output: {}", mall, if without_internal { "withheld" } else { "available" }, ip.case.desc, bad.join("; ")),
            );
        }
    }
    }
}

/// `PsbtExt::sighash_msg` on an updated input must be the digest a signer has to sign for this
/// output type (script code / leaf chosen by the harness from the descriptor's shape).
fn check_sighash_msg(rep: &mut Report, case: u64, world: &World, s: &Setup, psbt: &Psbt, i: usize) {
    let ip = &s.inputs[i];
    let spend = Spend { tx: s.tx.clone(), prevouts: s.prevouts.clone(), idx: i };
    let assets = Assets::new(world, &spend, ip.target.ecdsa.clone());
    let mut wants: Vec<(Option<TapLeafHash>, Option<[u8; 32]>)> = vec![];
    if ip.case.kind == DescKind::Tr {
        wants.push((None, assets.schnorr_digest(None)));
        for p in &ip.target.paths {
            if let Some(lh) = p.leaf_hash {
                wants.push((Some(lh), assets.schnorr_digest(Some(lh))));
            }
        }
    } else {
        wants.push((None, assets.ecdsa_digest()));
    }
    for (leaf, want) in wants {
        rep.eval();
        let got = guarded(std::panic::AssertUnwindSafe(|| {
            let mut cache = bitcoin::sighash::SighashCache::new(&psbt.unsigned_tx);
            psbt.sighash_msg(i, &mut cache, leaf).ok().map(|m| *m.to_secp_msg().as_ref())
        }));
        match (got, want) {
            (Err(m), _) => rep.violation(case, format!("C14:panic:sighash_msg:{}", norm_loc(&last_panic_loc())), format!("{} on {}", m, ip.case.desc)),
            (Ok(Some(g)), Some(w)) if g == w => rep.count("sighash_msg-equals-signer-digest"),
            (Ok(g), w) => rep.violation(
                case,
                format!("C14:sighash_msg:{:?}", ip.case.kind),
                format!("sighash_msg(input {}, leaf {:?}) = {:?} but a signer of {} must sign {:?}", i, leaf, g.map(|x| hex(&x)), ip.case.desc, w.map(|x| hex(&x))),
            ),
        }
    }
}

/// The PSBT satisfier sees the whole unsigned transaction, so its lock-time answers can be exact:
/// `check_after(n)` / `check_older(n)` must be what BIP-65 / BIP-68+112 say for THIS input of THIS
/// transaction (version, this input's sequence, nLockTime) - a wrong "no" makes the non-malleable
/// satisfier pick a malleable branch, a wrong "yes" an invalid one.
fn check_psbt_satisfier_locks(rep: &mut Report, case: u64, s: &Setup, psbt: &Psbt, i: usize) {
    use miniscript::psbt::PsbtInputSatisfier;
    use miniscript::Satisfier;
    let spend = Spend { tx: s.tx.clone(), prevouts: s.prevouts.clone(), idx: i };
    let (afters, olders) = s.inputs[i].case.timelocks();
    let mut a: Vec<u32> = afters.clone();
    a.extend([1, 499_999_999, 500_000_000, s.tx.lock_time.to_consensus_u32(), s.tx.lock_time.to_consensus_u32().wrapping_add(1)]);
    let mut o: Vec<u32> = olders.clone();
    let sq = s.tx.input[i].sequence.0;
    o.extend([1, 65_535, (1 << 22) | 1, sq & 0x0040_ffff, (sq & 0x0040_ffff).wrapping_add(1)]);
    let sat = PsbtInputSatisfier::new(psbt, i);
    for n in a {
        if n == 0 || n >= 0x8000_0000 {
            continue;
        }
        rep.eval();
        let lib = <PsbtInputSatisfier as Satisfier<Dk>>::check_after(&sat, absolute::LockTime::from_consensus(n));
        if lib != spend.cltv_ok(n) {
            rep.violation(case, "C14:psbt-satisfier:check_after".into(), format!("input {} of a version-{} tx with nLockTime {} and sequences {:?}: check_after({}) = {} but OP_CHECKLOCKTIMEVERIFY {}", i, s.tx.version.0, s.tx.lock_time.to_consensus_u32(), s.tx.input.iter().map(|x| format!("{:#x}", x.sequence.0)).collect::<Vec<_>>(), n, lib, if lib { "fails" } else { "passes" }));
        } else {
            rep.count("psbt-satisfier-lock-answer-exact");
        }
    }
    for n in o {
        let lt = match bitcoin::relative::LockTime::from_sequence(Sequence(n)) {
            Ok(l) => l,
            Err(_) => continue,
        };
        if n == 0 {
            continue;
        }
        rep.eval();
        let lib = <PsbtInputSatisfier as Satisfier<Dk>>::check_older(&sat, lt);
        if lib != spend.csv_ok(n) {
            rep.violation(case, "C14:psbt-satisfier:check_older".into(), format!("input {} of a version-{} tx with sequence {:#x}: check_older({:#x}) = {} but OP_CHECKSEQUENCEVERIFY {}", i, s.tx.version.0, sq, n, lib, if lib { "fails" } else { "passes" }));
        } else {
            rep.count("psbt-satisfier-lock-answer-exact");
        }
    }
}

/// `update_output_with_descriptor` on an output paying to the same descriptor must record the
/// same scripts, key origins and taproot data as the (model-checked) input updater did.
fn check_output_update(rep: &mut Report, case: u64, s: &Setup, psbt: &Psbt, i: usize) {
    let ip = &s.inputs[i];
    let tx = Transaction {
        version: transaction::Version(2),
        lock_time: absolute::LockTime::ZERO,
        input: vec![TxIn { previous_output: OutPoint::null(), script_sig: ScriptBuf::new(), sequence: Sequence::MAX, witness: Witness::new() }],
        output: vec![
            TxOut { value: Amount::from_sat(1_000), script_pubkey: ScriptBuf::from_bytes(vec![0x51]) },
            TxOut { value: Amount::from_sat(2_000), script_pubkey: ScriptBuf::from_bytes(ip.target.spk.clone()) },
        ],
    };
    let mut p2 = match Psbt::from_unsigned_tx(tx) {
        Ok(p) => p,
        Err(_) => return,
    };
    rep.eval();
    let d = &ip.desc;
    let r = guarded(std::panic::AssertUnwindSafe(|| (p2.update_output_with_descriptor(1, d).is_ok(), p2.clone().update_output_with_descriptor(0, d).is_ok(), p2.clone().update_output_with_descriptor(2, d).is_ok())));
    match r {
        Err(m) => rep.violation(case, format!("C14:panic:update_output:{}", norm_loc(&last_panic_loc())), format!("{} on {}", m, ip.case.desc)),
        Ok((ok, wrong_spk, out_of_range)) => {
            let by_inp = &psbt.inputs[i];
            let o = &p2.outputs[1];
            let mut bad = vec![];
            if !ok {
                bad.push("refused an output that pays to the descriptor".to_string());
            }
            if wrong_spk {
                bad.push("accepted an output with another scriptPubKey".to_string());
            }
            if out_of_range {
                bad.push("accepted an output index out of range".to_string());
            }
            if ok {
                if o.redeem_script != by_inp.redeem_script {
                    bad.push("redeem_script differs from the input updater".into());
                }
                if o.witness_script != by_inp.witness_script {
                    bad.push("witness_script differs from the input updater".into());
                }
                if o.bip32_derivation != by_inp.bip32_derivation {
                    bad.push("bip32_derivation differs from the input updater".into());
                }
                if o.tap_internal_key != by_inp.tap_internal_key {
                    bad.push("tap_internal_key differs from the input updater".into());
                }
                if o.tap_key_origins != by_inp.tap_key_origins {
                    bad.push("tap_key_origins differs from the input updater".into());
                }
                // the output's tap tree has exactly the leaves the input lists as tap_scripts
                let mut in_leaves: Vec<(usize, Vec<u8>)> = by_inp.tap_scripts.iter().map(|(cb, (sc, _))| (cb.merkle_branch.len(), sc.to_bytes())).collect();
                let mut out_leaves: Vec<(usize, Vec<u8>)> = o
                    .tap_tree
                    .as_ref()
                    .map(|t| t.script_leaves().map(|l| (l.merkle_branch().len(), l.script().to_bytes())).collect())
                    .unwrap_or_default();
                // identical sibling leaves share one control block: compare as sets
                in_leaves.sort();
                in_leaves.dedup();
                out_leaves.sort();
                out_leaves.dedup();
                if in_leaves != out_leaves {
                    bad.push(format!("tap_tree has {} leaves, the input updater recorded {} tap_scripts (depth, script)", out_leaves.len(), in_leaves.len()));
                }
            }
            if bad.is_empty() {
                rep.count("output-update-consistent");
            } else {
                rep.violation(case, format!("C14:update-output-fields:{:?}:{}", ip.case.kind, bad[0].split(' ').take(2).collect::<Vec<_>>().join("-")), format!("update_output_with_descriptor({}): {}", ip.case.desc, bad.join("; ")));
            }
        }
    }
}

pub fn run(cfg: &RunCfg, rep: &mut Report) {
    let world = World::new(cfg.seed);
    let total = cfg.n_cases(12_000, 300_000);
    let max_ops = if cfg.tier == Tier::Thorough { 20 } else { 14 };
    for i in cfg.cases(total) {
        let mut rng = cfg.case_rng(i);
        let s = match build_setup(&mut rng, &world, cfg.tier) {
            Some(s) => s,
            None => continue,
        };
        let n = s.inputs.len();
        // --- history
        let mut ops: Vec<Op> = vec![];
        let skip_update = if rng.chance(1, 6) { Some(rng.below(n)) } else { None };
        for k in 0..n {
            if Some(k) != skip_update {
                ops.push(Op::Update(k));
            }
        }
        let mut field_ops: Vec<Op> = vec![];
        for k in 0..n {
            for id in s.inputs[k].case.key_ids() {
                if rng.chance(4, 5) {
                    field_ops.push(Op::AddSig(k, id));
                }
            }
            for p in s.inputs[k].case.pre_ids() {
                if rng.chance(4, 5) {
                    field_ops.push(Op::AddPre(k, p));
                }
            }
        }
        rng.shuffle(&mut field_ops);
        let mut rest: Vec<Op> = field_ops.clone();
        // sprinkle finalize / extract / serde ops
        let n_extra = 2 + rng.below(6);
        for _ in 0..n_extra {
            let pos = rng.below(rest.len() + 1);
            let op = match rng.below(10) {
                0 | 1 => Op::FinAll(rng.coin()),
                2 | 3 | 4 => Op::FinInp(rng.below(n + 1), rng.coin()),
                5 => Op::Extract,
                6 | 7 => Op::Merge(rng.below(n)),
                _ => Op::SerDe,
            };
            rest.insert(pos, op);
        }
        rest.push(Op::FinAll(false));
        if rng.coin() {
            rest.push(Op::Merge(rng.below(n)));
        }
        rest.push(Op::FinInp(rng.below(n), rng.coin()));
        rest.push(Op::FinAll(false));
        rest.push(Op::Extract);
        rest.truncate(max_ops.max(field_ops.len() + 5));
        ops.extend(rest);

        // the updater's utxo checks, probed on input 0: it may only accept utxo data that is the
        // output this input references and that the descriptor pays to
        {
            let prev = s.prev_txs[0].clone();
            let good = s.prevouts[0].clone();
            let mut wrong_amount = good.clone();
            wrong_amount.value = Amount::from_sat(good.value.to_sat() / 2 + 1);
            let mut wrong_spk = good.clone();
            wrong_spk.script_pubkey = ScriptBuf::from_bytes(vec![0x51]);
            let mut other_tx = prev.clone();
            if let Some(t) = other_tx.as_mut() {
                t.lock_time = absolute::LockTime::from_consensus(7);
            }
            let probes: Vec<(&str, Option<TxOut>, Option<Transaction>, bool)> = vec![
                ("both forms, consistent", Some(good.clone()), prev.clone(), true),
                ("witness_utxo with another amount than the referenced output", Some(wrong_amount), prev.clone(), false),
                ("witness_utxo with another script than the referenced output", Some(wrong_spk.clone()), prev.clone(), false),
                ("non_witness_utxo that is not the referenced transaction", None, other_tx, false),
                ("witness_utxo the descriptor does not pay to", Some(wrong_spk), None, false),
                ("no utxo at all", None, None, false),
            ];
            for (what, wu, nwu, want_ok) in probes {
                let mut p = Psbt::from_unsigned_tx(s.tx.clone()).expect("unsigned tx");
                p.inputs[0].witness_utxo = wu;
                p.inputs[0].non_witness_utxo = nwu;
                rep.eval();
                let d = &s.inputs[0].desc;
                match guarded(std::panic::AssertUnwindSafe(|| p.update_input_with_descriptor(0, d).is_ok())) {
                    Ok(ok) if ok == want_ok => rep.count("updater-utxo-check-exact"),
                    Ok(ok) => rep.violation(i, format!("C14:update-utxo-check:{}", what.split(' ').take(4).collect::<Vec<_>>().join("-")), format!("update_input_with_descriptor with {} returned {} for {}", what, if ok { "Ok" } else { "Err" }, s.inputs[0].case.desc)),
                    Err(m) => rep.violation(i, format!("C14:panic:update_input:{}", norm_loc(&last_panic_loc())), format!("{} with {}", m, what)),
                }
            }
        }
        let mut psbt = fresh_psbt(&s);
        let mut hist: Vec<(Op, String)> = vec![];
        let mut ok_fin = 0;
        let mut err_fin = 0;
        for op in &ops {
            rep.eval();
            let before: Vec<bitcoin::psbt::Input> = psbt.inputs.clone();
            let psbt_before = psbt.clone();
            let out = apply(&world, &s, &mut psbt, op);
            // the consuming variants of the same operation must do exactly what the _mut ones do
            if matches!(op, Op::FinAll(_) | Op::FinInp(..)) && !matches!(out, Outcome::Panic(_)) {
                let twin = guarded(std::panic::AssertUnwindSafe(|| match op {
                    Op::FinAll(false) => psbt_before.clone().finalize(&world.secp).map_err(|(p, _)| p),
                    Op::FinAll(true) => psbt_before.clone().finalize_mall(&world.secp).map_err(|(p, _)| p),
                    Op::FinInp(k, false) => psbt_before.clone().finalize_inp(&world.secp, *k).map_err(|(p, _)| p),
                    Op::FinInp(k, true) => psbt_before.clone().finalize_inp_mall(&world.secp, *k).map_err(|(p, _)| p),
                    _ => unreachable!(),
                }));
                match twin {
                    Err(m) => rep.violation(i, format!("C14:panic:consuming-finalize:{}", norm_loc(&last_panic_loc())), format!("{:?} (consuming variant) panicked ({}): {}", op, m, describe(&s, &hist))),
                    Ok(r) => {
                        let (ok2, p2) = match r {
                            Ok(p) => (true, p),
                            Err(p) => (false, p),
                        };
                        let ok1 = matches!(out, Outcome::Ok);
                        if ok1 != ok2 || p2 != psbt {
                            rep.violation(i, "C14:consuming-variant-differs".into(), format!("{:?}: the _mut variant returned {} and the consuming variant {}, resulting PSBTs equal = {}: {}", op, if ok1 { "Ok" } else { "Err" }, if ok2 { "Ok" } else { "Err" }, p2 == psbt, describe(&s, &hist)));
                        } else {
                            rep.count("consuming-variant-equals-mut-variant");
                        }
                    }
                }
            }
            let tag = match &out {
                Outcome::Ok => "ok".to_string(),
                Outcome::Err(v) => format!("err{:?}", v),
                Outcome::Panic(_) => "PANIC".to_string(),
                Outcome::Tx(_) => "tx".to_string(),
            };
            hist.push((op.clone(), tag));
            if let Outcome::Panic(m) = &out {
                rep.violation(i, format!("C14:panic:{}", norm_loc(&last_panic_loc())), format!("{:?} panicked ({}): {}", op, m, describe(&s, &hist)));
                break;
            }
            let is_fin_op = matches!(op, Op::FinAll(_) | Op::FinInp(..));
            for j in 0..n {
                let was = is_final(&before[j]);
                let now = is_final(&psbt.inputs[j]);
                // only library operations are judged: the harness itself adds fields in AddSig/AddPre
                let lib_op = !matches!(op, Op::AddSig(..) | Op::AddPre(..) | Op::Merge(..));
                if was && lib_op && psbt.inputs[j] != before[j] {
                    rep.violation(i, "C14:final-input-altered".into(), format!("input {} was final and changed by {:?}: {}", j, op, describe(&s, &hist)));
                }
                if !was && now {
                    let covered = match op {
                        Op::FinAll(_) => true,
                        Op::FinInp(k, _) => *k == j,
                        _ => false,
                    };
                    if !covered {
                        rep.violation(i, "C14:finalized-by-non-finalize-op".into(), format!("input {} became final through {:?}: {}", j, op, describe(&s, &hist)));
                    }
                    match vm_check(&world, &s, &psbt, j) {
                        Ok(()) => {
                            rep.count("final-input-verified-in-vm");
                            ok_fin += 1;
                        }
                        Err(e) => rep.violation(
                            i,
                            format!("C14:final-input-does-not-spend:{:?}", s.inputs[j].case.kind),
                            format!("input {} was finalized with scriptSig {} witness [{}] which refvm rejects ({}): {}", j,
                                psbt.inputs[j].final_script_sig.as_ref().map(|x| hex(x.as_bytes())).unwrap_or_default(),
                                psbt.inputs[j].final_script_witness.as_ref().map(|w| w.iter().map(hex).collect::<Vec<_>>().join(",")).unwrap_or_default(),
                                e, describe(&s, &hist)),
                        ),
                    }
                }
                if !was && !now && is_fin_op && psbt.inputs[j] != before[j] {
                    rep.violation(i, "C14:failed-finalize-altered-input".into(), format!("input {} was not finalized by {:?} but its fields changed: {}", j, op, describe(&s, &hist)));
                }
            }
            match (op, &out) {
                (Op::FinAll(_), Outcome::Ok) => {
                    if !(0..n).all(|j| is_final(&psbt.inputs[j])) {
                        rep.violation(i, "C14:finalize-ok-but-input-not-final".into(), describe(&s, &hist));
                    }
                }
                (Op::FinAll(_), Outcome::Err(idx)) => {
                    err_fin += 1;
                    for j in 0..n {
                        let named = idx.contains(&Some(j));
                        if named && is_final(&before[j]) {
                            rep.violation(i, "C14:not-idempotent:finalize".into(), format!("input {} was already final and is reported as failing by {:?}: {}", j, op, describe(&s, &hist)));
                        }
                        if named == is_final(&psbt.inputs[j]) && !is_final(&before[j]) {
                            rep.violation(i, "C14:finalize-error-list-inconsistent".into(), format!("input {}: named in the error list = {}, final afterwards = {}: {}", j, named, is_final(&psbt.inputs[j]), describe(&s, &hist)));
                        }
                    }
                }
                (Op::FinInp(k, _), Outcome::Ok) => {
                    if *k < n && !is_final(&psbt.inputs[*k]) {
                        rep.violation(i, "C14:finalize-ok-but-input-not-final".into(), describe(&s, &hist));
                    }
                }
                (Op::FinInp(k, _), Outcome::Err(_)) => {
                    err_fin += 1;
                    if *k < n && is_final(&before[*k]) {
                        rep.violation(i, "C14:not-idempotent:finalize_inp".into(), format!("finalizing input {} again, which was already final, returned an error: {}", k, describe(&s, &hist)));
                    }
                }
                (Op::Update(k), Outcome::Ok) => {
                    check_update_fields(rep, i, &world, &s, &psbt, *k);
                    check_plan_update(rep, i, &world, &s, &psbt, *k);
                    check_sighash_msg(rep, i, &world, &s, &psbt, *k);
                    check_psbt_satisfier_locks(rep, i, &s, &psbt, *k);
                    check_output_update(rep, i, &s, &psbt, *k);
                }
                (Op::Update(k), Outcome::Err(_)) => {
                    rep.violation(i, "C14:update-refused".into(), format!("update_input_with_descriptor({}) refused a matching utxo: {}", k, describe(&s, &hist)));
                }
                (Op::SerDe, Outcome::Err(_)) => rep.violation(i, "C14:serialize-roundtrip".into(), describe(&s, &hist)),
                (Op::Extract, Outcome::Tx(tx)) => {
                    for j in 0..n {
                        if !is_final(&psbt.inputs[j]) {
                            rep.violation(i, "C14:extract-with-unfinalized-input".into(), describe(&s, &hist));
                        } else if vm_check(&world, &s, &psbt, j).is_err() {
                            rep.violation(i, "C14:extracted-tx-does-not-validate".into(), describe(&s, &hist));
                        }
                        let fs = psbt.inputs[j].final_script_sig.clone().unwrap_or_default();
                        let fw = psbt.inputs[j].final_script_witness.clone().unwrap_or_default();
                        if tx.input[j].script_sig != fs || tx.input[j].witness != fw || tx.input[j].previous_output != s.tx.input[j].previous_output || tx.input[j].sequence != s.tx.input[j].sequence {
                            rep.violation(i, "C14:extracted-tx-differs".into(), describe(&s, &hist));
                        }
                    }
                    if tx.output != s.tx.output || tx.lock_time != s.tx.lock_time || tx.version != s.tx.version {
                        rep.violation(i, "C14:extracted-tx-differs".into(), describe(&s, &hist));
                    }
                    rep.count("extract-verified");
                }
                _ => {}
            }
        }
        if ok_fin > 0 && err_fin > 0 {
            rep.nontrivial(&describe(&s, &hist));
        } else if ok_fin > 0 {
            rep.count("history-with-only-successful-finalizes");
            rep.nontrivial(&format!("okonly|{}", describe(&s, &hist)));
        }
        if rep.samples.len() < rep.max_samples && i % 37 == 0 {
            rep.sample(describe(&s, &hist));
        }

        // --- order independence: the same multiset of field ops in two orders
        let finals = |order: &[Op], single: Option<&[usize]>, mall: bool| -> Option<Vec<(Option<ScriptBuf>, Option<Witness>)>> {
            let mut p = fresh_psbt(&s);
            for k in 0..n {
                if let Outcome::Panic(_) = apply(&world, &s, &mut p, &Op::Update(k)) {
                    return None;
                }
            }
            for o in order {
                if let Outcome::Panic(_) = apply(&world, &s, &mut p, o) {
                    return None;
                }
            }
            match single {
                None => {
                    apply(&world, &s, &mut p, &Op::FinAll(mall));
                }
                Some(seq) => {
                    for k in seq {
                        apply(&world, &s, &mut p, &Op::FinInp(*k, mall));
                    }
                }
            }
            Some(p.inputs.iter().map(|x| (x.final_script_sig.clone(), x.final_script_witness.clone())).collect())
        };
        let mut o2 = field_ops.clone();
        rng.shuffle(&mut o2);
        rep.eval();
        if let (Some(a), Some(b)) = (finals(&field_ops, None, false), finals(&o2, None, false)) {
            if a != b {
                rep.violation(i, "C14:order-dependent".into(), format!("the same signatures / preimages added in two orders finalize differently: order1 {:?} order2 {:?}; {}", field_ops, o2, describe(&s, &[])));
            } else {
                rep.count("order-independent");
            }
        }
        // --- finalizing input by input (any order) equals finalizing all at once, in both modes
        for mall in [false, true] {
            let mut seq: Vec<usize> = (0..n).collect();
            rng.shuffle(&mut seq);
            rep.eval();
            if let (Some(a), Some(b)) = (finals(&field_ops, None, mall), finals(&field_ops, Some(&seq), mall)) {
                // judged without assuming what a failing whole-PSBT call does to the other inputs:
                // an input final in both runs has the same data, and "everything final" agrees
                let fin = |x: &(Option<ScriptBuf>, Option<Witness>)| x.0.is_some() || x.1.is_some();
                let differs = a.iter().zip(b.iter()).any(|(x, y)| fin(x) && fin(y) && x != y) || a.iter().all(fin) != b.iter().all(fin);
                if differs {
                    rep.violation(
                        i,
                        format!("C14:single-vs-all-finalize:{}", if mall { "mall" } else { "nonmall" }),
                        format!("finalize{}_mut and finalize_inp{}_mut on every input (order {:?}) give different results; {}; fields {:?}", if mall { "_mall" } else { "" }, if mall { "_mall" } else { "" }, seq, describe(&s, &[]), field_ops),
                    );
                } else {
                    rep.count("single-equals-all");
                }
            }
        }
    }
    let _: BTreeMap<u8, TapLeafHash> = BTreeMap::new();
    if rep.samples.is_empty() {
        rep.sample("(see counters)".into());
    }
}
