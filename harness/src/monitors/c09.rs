//! C09: static size and resource figures are true upper bounds (script size: equal).
//! Measured on every satisfaction the library produces and on its execution trace.

use miniscript::bitcoin;
use miniscript::descriptor::{Descriptor, ShInner};
use miniscript::{Miniscript, MiniscriptKey, ScriptContext, ToPublicKey};

use super::c01::{case_cfg, describe, for_each_satisfaction, is_sane, CaseRun, Produced};
use super::{guarded, Report, RunCfg, Tier};
use crate::oracle::bip341::compact_size;
use crate::refvm::script::{parse, Op};
use crate::refvm::verify::{SpendKind, Verified};
use crate::refvm::vm::Fail;
use crate::satcase::*;
use crate::target::Target;
use crate::world::{Dk, World};

struct Declared {
    script_size: usize,
    pk_cost: usize,
    encoded_len: usize,
    max_wit_elems: Option<usize>,
    max_sat_size: Option<usize>,
    wit_count: Option<usize>,
    wit_size: Option<usize>,
    ss_size: Option<usize>,
    exec_stack: Option<usize>,
    ops: Option<usize>,
}

fn declared<Pk: MiniscriptKey + ToPublicKey, Ctx: ScriptContext>(ms: &Miniscript<Pk, Ctx>) -> Declared {
    Declared {
        script_size: ms.script_size(),
        pk_cost: ms.ext.pk_cost,
        encoded_len: ms.encode().len(),
        max_wit_elems: ms.max_satisfaction_witness_elements().ok(),
        max_sat_size: ms.max_satisfaction_size().ok(),
        wit_count: ms.ext.sat_data.map(|d| d.max_witness_stack_count),
        wit_size: ms.ext.sat_data.map(|d| d.max_witness_stack_size),
        ss_size: ms.ext.sat_data.map(|d| d.max_script_sig_size),
        exec_stack: ms.ext.sat_data.map(|d| d.max_exec_stack_count),
        ops: ms.ext.sat_data.map(|d| ms.ext.static_ops + d.max_exec_op_count),
    }
}

fn pushes(script_sig: &[u8]) -> Vec<(Vec<u8>, usize)> {
    // (data, encoded size of the push)
    let mut out = vec![];
    if let Ok(ops) = parse(script_sig) {
        for o in ops {
            if let Op::Push { data, opcode, .. } = o {
                let enc = if opcode <= 0x4b && opcode != 0 {
                    1 + data.len()
                } else if opcode == 0x4c {
                    2 + data.len()
                } else if opcode == 0x4d {
                    3 + data.len()
                } else {
                    1
                };
                out.push((data, enc));
            }
        }
    }
    out
}

fn check_le(rep: &mut Report, case: u64, what: &str, ctx: &str, measured: usize, declared: Option<usize>, detail: &dyn Fn() -> String) {
    match declared {
        None => rep.violation(
            case,
            format!("C09:declared-impossible-but-produced:{}:{}", what, ctx),
            format!("{} is declared impossible (None) but a satisfaction was produced: {}", what, detail()),
        ),
        Some(d) => {
            if measured > d {
                rep.violation(
                    case,
                    format!("C09:undershoot:{}:{}", what, ctx),
                    format!("{}: measured {} > declared {} on {}", what, measured, d, detail()),
                );
            } else {
                rep.add(&format!("slack-sum:{}", what), (d - measured) as u64);
                rep.count(&format!("bound-held:{}", what));
                if d == measured {
                    rep.count(&format!("bound-tight:{}", what));
                }
            }
        }
    }
}

fn judge_ms(
    rep: &mut Report,
    case: u64,
    d: &Declared,
    ctxname: &str,
    segwit: bool,
    tap: bool,
    stack: &[(Vec<u8>, usize)],
    v: &Verified,
    detail: &dyn Fn() -> String,
) {
    if d.script_size != d.encoded_len {
        rep.violation(
            case,
            format!("C09:script_size:{}", ctxname),
            format!("script_size() = {} but encode().len() = {} on {}", d.script_size, d.encoded_len, detail()),
        );
    } else {
        rep.count("script_size-equal");
    }
    if d.pk_cost != d.encoded_len {
        rep.violation(
            case,
            format!("C09:pk_cost:{}", ctxname),
            format!("ext.pk_cost = {} but encode().len() = {} on {}", d.pk_cost, d.encoded_len, detail()),
        );
    }
    check_le(rep, case, "witness-elements", ctxname, stack.len(), d.wit_count, detail);
    check_le(rep, case, "witness-elements+script", ctxname, stack.len() + 1, d.max_wit_elems, detail);
    if segwit {
        let sz: usize = stack.iter().map(|(e, _)| compact_size(e.len()).len() + e.len()).sum();
        check_le(rep, case, "witness-stack-size", ctxname, sz, d.wit_size, detail);
        check_le(rep, case, "max_satisfaction_size", ctxname, sz, d.max_sat_size, detail);
    } else {
        let sz: usize = stack.iter().map(|(_, enc)| *enc).sum();
        check_le(rep, case, "script-sig-size", ctxname, sz, d.ss_size, detail);
        check_le(rep, case, "max_satisfaction_size", ctxname, sz, d.max_sat_size, detail);
    }
    if !tap {
        check_le(rep, case, "executed-opcodes", ctxname, v.trace.op_count, d.ops, detail);
    }
    let total = match (d.wit_count, d.exec_stack) {
        (Some(a), Some(b)) => Some(a + b),
        _ => None,
    };
    check_le(rep, case, "stack-depth", ctxname, v.trace.max_stack, total, detail);
}

fn txin_weight_diff(script_sig: &[u8], witness: &[Vec<u8>]) -> usize {
    let ss = compact_size(script_sig.len()).len() + script_sig.len();
    let w = crate::refvm::verify::witness_serialized_size(witness);
    4 * (ss - 1) + (w - 1)
}

pub fn run(cfg: &RunCfg, rep: &mut Report) {
    let world = World::new(cfg.seed);
    let total = cfg.n_cases(4_000, 60_000);
    let ccfg = case_cfg(cfg.tier);
    let (n_tl, max_worlds) = match cfg.tier {
        Tier::Quick => (3, 12),
        Tier::Thorough => (6, 40),
    };
    for i in cfg.cases(total) {
        let mut rng = cfg.case_rng(i);
        let case = gen_desc_case(&mut rng, &world, &ccfg);
        let desc = match guarded(|| parse_desc(&case.desc)) {
            Ok(Ok(d)) => d,
            _ => {
                rep.eval();
                rep.count("desc-rejected");
                continue;
            }
        };
        if !case
            .spec_types()
            .iter()
            .all(|t| matches!(t, Some(t) if t.base == crate::oracle::spec_types::Base::B))
        {
            continue;
        }
        let target = match Target::from_descriptor(&desc) {
            Ok(t) => t,
            Err(_) => continue,
        };
        let sane = is_sane(&desc);
        let mwts = guarded(std::panic::AssertUnwindSafe(|| desc.max_weight_to_satisfy()));
        let run = CaseRun { case: &case, desc: &desc, target: &target };
        for_each_satisfaction(
            &world,
            &mut rng,
            &run,
            n_tl,
            max_worlds,
            rep,
            i,
            |rep, p: &Produced, _spend, assets| {
                let v = match &p.standard {
                    Ok(v) => v,
                    Err(Fail::Limit(why)) if sane => {
                        rep.violation(
                            i,
                            format!("C09:limit-hit-on-sane:{:?}", case.kind),
                            format!("descriptor passes the sanity rules but its satisfaction hits a limit ({}): {}", why, describe(p, &case)),
                        );
                        return;
                    }
                    Err(_) => return, // C01's business
                };
                rep.nontrivial(&format!(
                    "{}|{}|{}|{}|{}|{}|{}",
                    case.desc, p.key_mask, p.pre_mask, p.lock_time, p.sequence, p.mall, p.flow
                ));
                let detail = || describe(p, &case);
                // descriptor level
                match &mwts {
                    Ok(Ok(w)) => {
                        let measured = txin_weight_diff(&p.script_sig, &p.witness);
                        check_le(rep, i, "max_weight_to_satisfy", &format!("{:?}", case.kind), measured, Some(w.to_wu() as usize), &detail);
                    }
                    Ok(Err(_)) => rep.violation(
                        i,
                        format!("C09:max_weight_to_satisfy-err-but-produced:{:?}", case.kind),
                        format!("max_weight_to_satisfy() is Err but a satisfaction was produced: {}", detail()),
                    ),
                    Err(m) => rep.violation(
                        i,
                        format!("C09:panic:max_weight_to_satisfy:{:?}", case.kind),
                        format!("max_weight_to_satisfy panicked ({}) on {}", m, case.desc),
                    ),
                }
                // plan level
                if p.flow == "plan" {
                    let sat = satisfier(assets, &target);
                    let plan = if p.mall { desc.clone().into_plan_mall(&sat) } else { desc.clone().into_plan(&sat) };
                    if let Ok(plan) = plan {
                        let ss = compact_size(p.script_sig.len()).len() + p.script_sig.len();
                        let w = if p.witness.is_empty() { 0 } else { crate::refvm::verify::witness_serialized_size(&p.witness) };
                        let k = format!("{:?}", case.kind);
                        check_le(rep, i, "plan.scriptsig_size", &k, ss, Some(plan.scriptsig_size()), &detail);
                        // Known defect (pinned by the repository's own plan tests): for wsh / sh(wsh)
                        // the witness script item is not part of the announced witness size. That
                        // exact shortfall gets its own key so that any other undershoot of the same
                        // figures is still reported under the generic key.
                        let script_item = match case.kind {
                            DescKind::Wsh | DescKind::ShWsh => {
                                let l = p.witness.last().map(|s| s.len()).unwrap_or(0);
                                compact_size(l).len() + l
                            }
                            _ => 0,
                        };
                        let (dw, dsw) = (plan.witness_size(), plan.satisfaction_weight());
                        if script_item > 0 && (w > dw || w + 4 * ss > dsw) && w - script_item <= dw && w + 4 * ss - script_item <= dsw {
                            rep.violation(
                                i,
                                format!("C09:plan-size-omits-witness-script:{}", k),
                                format!("Plan::witness_size() = {} / satisfaction_weight() = {} but the real witness has {} bytes (weight {}): the {}-byte witness script item is not counted: {}", dw, dsw, w, w + 4 * ss, script_item, detail()),
                            );
                        } else {
                            check_le(rep, i, "plan.witness_size", &k, w, Some(dw), &detail);
                            check_le(rep, i, "plan.satisfaction_weight", &k, w + 4 * ss, Some(dsw), &detail);
                        }
                    }
                }
                // miniscript level
                let ss_pushes = pushes(&p.script_sig);
                match (&desc, &v.kind) {
                    (Descriptor::Bare(b), SpendKind::Bare) => {
                        judge_ms(rep, i, &declared(b.as_inner()), "bare", false, false, &ss_pushes, v, &detail)
                    }
                    (Descriptor::Wsh(w), SpendKind::P2wsh) => {
                        let st: Vec<(Vec<u8>, usize)> = p.witness[..p.witness.len() - 1].iter().map(|e| (e.clone(), 0)).collect();
                        judge_ms(rep, i, &declared(w.as_inner()), "wsh", true, false, &st, v, &detail)
                    }
                    (Descriptor::Sh(s), _) => match s.as_inner() {
                        ShInner::Ms(m) => {
                            let st = &ss_pushes[..ss_pushes.len().saturating_sub(1)];
                            judge_ms(rep, i, &declared(m), "sh", false, false, st, v, &detail)
                        }
                        ShInner::Wsh(w) => {
                            let st: Vec<(Vec<u8>, usize)> = p.witness[..p.witness.len() - 1].iter().map(|e| (e.clone(), 0)).collect();
                            judge_ms(rep, i, &declared(w.as_inner()), "sh-wsh", true, false, &st, v, &detail)
                        }
                        ShInner::Wpkh(_) => {}
                    },
                    (Descriptor::Tr(t), SpendKind::TrScript) => {
                        let script = &p.witness[p.witness.len() - 2];
                        for leaf in t.leaves() {
                            if leaf.compute_script().as_bytes() == &script[..] {
                                let st: Vec<(Vec<u8>, usize)> = p.witness[..p.witness.len() - 2].iter().map(|e| (e.clone(), 0)).collect();
                                judge_ms(rep, i, &declared::<Dk, miniscript::Tap>(leaf.miniscript()), "tr-leaf", true, true, &st, v, &detail);
                                break;
                            }
                        }
                    }
                    _ => {}
                }
            },
            |_rep, _flow, _mall, _spend, _assets, _km, _pm| {},
        );
        let _ = bitcoin::Amount::ZERO;
    }
    if rep.samples.is_empty() {
        rep.sample("(see counters: bound-held / bound-tight / slack-sum per figure)".into());
    }
}
