//! C01: every satisfaction the library returns actually spends the output.
//! Also hosts the shared "produce satisfactions" loop used by C09 and C13.

use miniscript::bitcoin;
use miniscript::descriptor::Descriptor;

use super::{guarded, last_panic_loc, norm_loc, Report, RunCfg, Tier};
use crate::refvm::verify::Verified;
use crate::refvm::vm::{Fail, Flags};
use crate::satcase::*;
use crate::target::Target;
use crate::world::{hex, Assets, Dk, Spend, World};

#[derive(Clone, Debug)]
pub struct Produced {
    pub flow: &'static str,
    pub mall: bool,
    pub witness: Vec<Vec<u8>>,
    pub script_sig: Vec<u8>,
    pub standard: Result<Verified, Fail>,
    pub consensus: Result<Verified, Fail>,
    pub key_mask: u64,
    pub pre_mask: u64,
    pub lock_time: u32,
    pub sequence: u32,
}

pub struct CaseRun<'a> {
    pub case: &'a DescCase,
    pub desc: &'a Descriptor<Dk>,
    pub target: &'a Target,
}

/// Drive one descriptor case through all chosen worlds and flows, calling
/// `on_produced` for every satisfaction the library returned and `on_failed`
/// for every refusal.
pub fn for_each_satisfaction<FP, FF>(
    world: &World,
    rng: &mut crate::prng::Rng,
    run: &CaseRun,
    n_tl_worlds: usize,
    max_worlds: usize,
    rep: &mut Report,
    case_idx: u64,
    mut on_produced: FP,
    mut on_failed: FF,
) where
    FP: FnMut(&mut Report, &Produced, &Spend, &Assets),
    FF: FnMut(&mut Report, &'static str, bool, &Spend, &Assets, u64, u64),
{
    let case = run.case;
    let target = run.target;
    let desc = run.desc;
    let nk = case.key_ids().len();
    let np = case.pre_ids().len();
    let tls = timelock_worlds(rng, case, n_tl_worlds);
    let kms = subsets(rng, nk, 5, 24);
    let pms = subsets(rng, np, 2, 6);
    // all combinations, sampled down to max_worlds
    let mut combos = vec![];
    for tl in &tls {
        for km in &kms {
            for pm in &pms {
                combos.push((*tl, *km, *pm));
            }
        }
    }
    if combos.len() > max_worlds {
        rng.shuffle(&mut combos);
        // always keep the "everything available" world
        let all = (tls[0], *kms.last().unwrap(), *pms.last().unwrap());
        combos.truncate(max_worlds - 1);
        combos.push(all);
    }
    let builtin_worlds: Vec<((u32, u32), u64, u64)> =
        combos.iter().filter(|((_, seq), _, _)| *seq != 0xffff_ffff).take(6).cloned().collect();
    for ((lt, seq), km, pm) in combos {
        let spend = Spend::simple(bitcoin::ScriptBuf::from_bytes(target.spk.clone()), lt, seq);
        let assets = make_assets(world, &spend, target, case, km, pm);
        for mall in [false, true] {
            // flow 1: Descriptor::get_satisfaction(_mall)
            let sat = satisfier(&assets, target);
            let r = guarded(std::panic::AssertUnwindSafe(|| {
                if mall {
                    desc.get_satisfaction_mall(&sat)
                } else {
                    desc.get_satisfaction(&sat)
                }
            }));
            // twins of the same operation: Descriptor::satisfy writes the same pair into a TxIn, and
            // plan()/plan_mall() are into_plan()/into_plan_mall()
            if !mall {
                if let Ok(r0) = &r {
                    let twin = guarded(std::panic::AssertUnwindSafe(|| {
                        let mut txin = spend.tx.input[spend.idx].clone();
                        desc.satisfy(&mut txin, &sat).map(|_| (txin.witness.to_vec(), txin.script_sig))
                    }));
                    let same = match (&twin, r0) {
                        (Ok(Ok(a)), Ok(b)) => a.0 == b.0 && a.1 == b.1,
                        (Ok(Err(_)), Err(_)) => true,
                        _ => false,
                    };
                    if same {
                        rep.count("satisfy(txin)-equals-get_satisfaction");
                    } else {
                        rep.violation(case_idx, format!("{}:satisfy-txin-differs:{:?}", rep.cfg.prop, case.kind), format!("Descriptor::satisfy(&mut txin) and get_satisfaction disagree on {} keys={:#x} pre={:#x} lt={} seq={:#x}: {:?} vs {:?}", case.desc, km, pm, lt, seq, twin.as_ref().map(|x| x.as_ref().map(|y| y.0.len()).map_err(|e| e.to_string())), r0.as_ref().map(|y| y.0.len()).map_err(|e| e.to_string())));
                    }
                }
            }
            handle(
                world, rep, case_idx, run, "get_satisfaction", mall, r, &spend, &assets, km, pm, lt,
                seq, &mut on_produced, &mut on_failed,
            );
            // flow 2: plan + Plan::satisfy
            let r2 = guarded(std::panic::AssertUnwindSafe(|| {
                let sat = satisfier(&assets, target);
                let plan = if mall {
                    desc.clone().into_plan_mall(&sat)
                } else {
                    desc.clone().into_plan(&sat)
                };
                #[allow(deprecated)]
                let twin = if mall { desc.clone().plan_mall(&sat) } else { desc.clone().plan(&sat) };
                if plan.is_ok() != twin.is_ok() {
                    panic!("plan()/plan_mall() and into_plan()/into_plan_mall() disagree on whether a plan exists");
                }
                match plan {
                    Ok(p) => p.satisfy(&sat),
                    Err(_) => Err(miniscript::Error::CouldNotSatisfy),
                }
            }));
            handle(
                world, rep, case_idx, run, "plan", mall, r2, &spend, &assets, km, pm, lt, seq,
                &mut on_produced, &mut on_failed,
            );
        }
    }
    // flow 4: the library's own lock-time satisfiers. Signatures and preimages come from the
    // harness signer (with its lock-time answers switched off), the lock times from the
    // library's `impl Satisfier for absolute::LockTime` and `for Sequence`, combined by the
    // tuple satisfier. Only with a non-final sequence: a bare LockTime satisfier cannot know
    // that a final sequence disables nLockTime, which is the caller's business.
    // flow 5: the library's own map satisfiers (key -> signature, key hash -> (key, signature), with
    // and without tap leaf hash; BTreeMap and HashMap), holding exactly the signatures the party
    // can make. Preimages and lock-time answers come from the harness signer (keys switched off)
    // through the tuple satisfier. There is no map for the taproot key-path signature: tr() cases
    // take part only when the internal key's owner is not among the signers.
    for ((lt, seq), km, pm) in builtin_worlds.iter().cloned().take(4) {
        use miniscript::{ForEachKey, ToPublicKey};
        use std::collections::{BTreeMap, HashMap};
        let spend = Spend::simple(bitcoin::ScriptBuf::from_bytes(target.spk.clone()), lt, seq);
        let assets = make_assets(world, &spend, target, case, km, pm);
        let mut keys: Vec<Dk> = vec![];
        desc.for_each_key(|k| {
            keys.push(k.clone());
            true
        });
        let is_tr = matches!(desc, Descriptor::Tr(_));
        if is_tr {
            if let Some(ik) = case.internal {
                if assets.keys.contains(&ik.id) {
                    continue;
                }
            }
        }
        let mut m_key: BTreeMap<Dk, bitcoin::ecdsa::Signature> = BTreeMap::new();
        let mut m_hash: HashMap<bitcoin::hashes::hash160::Hash, (Dk, bitcoin::ecdsa::Signature)> = HashMap::new();
        let mut t_key: BTreeMap<(Dk, bitcoin::taproot::TapLeafHash), bitcoin::taproot::Signature> = BTreeMap::new();
        let mut t_hash: HashMap<(bitcoin::hashes::hash160::Hash, bitcoin::taproot::TapLeafHash), (Dk, bitcoin::taproot::Signature)> = HashMap::new();
        for k in &keys {
            if is_tr {
                let x = k.to_x_only_pubkey();
                for p in &target.paths {
                    if let Some(lh) = p.leaf_hash {
                        if let Some(sig) = assets.schnorr_sig(&x, Some(lh), None) {
                            t_key.insert((k.clone(), lh), sig);
                            t_hash.insert((k.to_pubkeyhash(miniscript::SigType::Schnorr), lh), (k.clone(), sig));
                        }
                    }
                }
            } else if let Some(sig) = assets.ecdsa_sig(&k.to_public_key()) {
                m_key.insert(k.clone(), sig);
                m_hash.insert(k.to_pubkeyhash(miniscript::SigType::Ecdsa), (k.clone(), sig));
            }
        }
        for (variant, mall) in [(0, false), (0, true), (1, false), (1, true)] {
            let mut a2 = Assets::new(world, &spend, assets.ecdsa.clone());
            a2.pre = assets.pre.clone();
            let inner = satisfier(&a2, target);
            let r = guarded(std::panic::AssertUnwindSafe(|| match (is_tr, variant) {
                (false, 0) => {
                    let sat = (&m_key, inner);
                    if mall { desc.get_satisfaction_mall(&sat) } else { desc.get_satisfaction(&sat) }
                }
                (false, _) => {
                    let sat = (&m_hash, inner);
                    if mall { desc.get_satisfaction_mall(&sat) } else { desc.get_satisfaction(&sat) }
                }
                (true, 0) => {
                    let sat = (&t_key, inner);
                    if mall { desc.get_satisfaction_mall(&sat) } else { desc.get_satisfaction(&sat) }
                }
                (true, _) => {
                    let sat = (&t_hash, inner);
                    if mall { desc.get_satisfaction_mall(&sat) } else { desc.get_satisfaction(&sat) }
                }
            }));
            handle(
                world, rep, case_idx, run, if variant == 0 { "library-map-satisfier(key)" } else { "library-map-satisfier(key-hash)" }, mall, r, &spend, &assets, km, pm, lt, seq,
                &mut on_produced, &mut on_failed,
            );
        }
    }
    for ((lt, seq), km, pm) in builtin_worlds {
        let spend = Spend::simple(bitcoin::ScriptBuf::from_bytes(target.spk.clone()), lt, seq);
        let assets = make_assets(world, &spend, target, case, km, pm);
        for mall in [false, true] {
            let mut a2 = Assets::new(world, &spend, assets.ecdsa.clone());
            a2.keys = assets.keys.clone();
            a2.pre = assets.pre.clone();
            a2.force_timelocks = Some(false);
            let inner = satisfier(&a2, target);
            let sat = (inner, bitcoin::absolute::LockTime::from_consensus(lt), bitcoin::Sequence(seq));
            let r = guarded(std::panic::AssertUnwindSafe(|| if mall { desc.get_satisfaction_mall(&sat) } else { desc.get_satisfaction(&sat) }));
            // the signatures handed out are what observers of this flow know about
            *assets.log.borrow_mut() = a2.log.borrow().clone();
            handle(
                world, rep, case_idx, run, "builtin-locktime-satisfiers", mall, r, &spend, &assets, km, pm, lt, seq,
                &mut on_produced, &mut on_failed,
            );
        }
    }
    // flow 3: the order a wallet uses. The party claims every time lock is acceptable, the
    // plan reports which ones it needs, the transaction is built with EXACTLY those values
    // (nLockTime 0 / final sequence when none is reported), then signed and completed.
    for km in kms.iter().rev().take(3) {
        let pm = *pms.last().unwrap();
        for mall in [false, true] {
            let probe_spend = Spend::simple(bitcoin::ScriptBuf::from_bytes(target.spk.clone()), 0, 0xffff_ffff);
            let mut probe = make_assets(world, &probe_spend, target, case, *km, pm);
            probe.force_timelocks = Some(true);
            let sat = satisfier(&probe, target);
            let plan = match guarded(std::panic::AssertUnwindSafe(|| if mall { desc.clone().into_plan_mall(&sat) } else { desc.clone().into_plan(&sat) })) {
                Ok(Ok(p)) => p,
                Ok(Err(_)) => continue,
                Err(msg) => {
                    rep.violation(case_idx, format!("{}:panic:into_plan:{}", rep.cfg.prop, norm_loc(&last_panic_loc())), format!("into_plan panicked ({}) on {}", msg, case.desc));
                    continue;
                }
            };
            let lt = plan.absolute_timelock.map(|l| l.to_consensus_u32()).unwrap_or(0);
            let seq = plan
                .relative_timelock
                .map(|l| l.to_consensus_u32())
                .unwrap_or(if plan.absolute_timelock.is_some() { 0xffff_fffe } else { 0xffff_ffff });
            let spend = Spend::simple(bitcoin::ScriptBuf::from_bytes(target.spk.clone()), lt, seq);
            let mut assets = make_assets(world, &spend, target, case, *km, pm);
            assets.force_timelocks = Some(true);
            // the signer keeps the signature hash types it announced when the plan was made
            assets.ecdsa_hashtype = probe.ecdsa_hashtype;
            assets.tap_hashtype = probe.tap_hashtype;
            let r3 = guarded(std::panic::AssertUnwindSafe(|| {
                let sat = satisfier(&assets, target);
                plan.satisfy(&sat)
            }));
            handle(
                world, rep, case_idx, run, "plan-reported-locktimes", mall, r3, &spend, &assets, *km, pm, lt, seq,
                &mut on_produced, &mut on_failed,
            );
        }
    }
}

#[allow(clippy::too_many_arguments)]
fn handle<FP, FF>(
    world: &World,
    rep: &mut Report,
    case_idx: u64,
    run: &CaseRun,
    flow: &'static str,
    mall: bool,
    r: Result<Result<(Vec<Vec<u8>>, bitcoin::ScriptBuf), miniscript::Error>, String>,
    spend: &Spend,
    assets: &Assets,
    km: u64,
    pm: u64,
    lt: u32,
    seq: u32,
    on_produced: &mut FP,
    on_failed: &mut FF,
) where
    FP: FnMut(&mut Report, &Produced, &Spend, &Assets),
    FF: FnMut(&mut Report, &'static str, bool, &Spend, &Assets, u64, u64),
{
    rep.eval();
    match r {
        Err(msg) => {
            let loc = norm_loc(&last_panic_loc());
            rep.violation(
                case_idx,
                format!("{}:panic:{}:{}", rep.cfg.prop, flow, loc),
                format!(
                    "{} panicked ({}) at {} on {} keys={:#x} pre={:#x} lt={} seq={:#x} mall={}",
                    flow, msg, loc, run.case.desc, km, pm, lt, seq, mall
                ),
            );
        }
        Ok(Err(_)) => {
            rep.count(&format!("refused:{}", flow));
            on_failed(rep, flow, mall, spend, assets, km, pm);
        }
        Ok(Ok((witness, script_sig))) => {
            let ss = script_sig.to_bytes();
            let standard = run.target.verify(&ss, &witness, spend, Flags::STANDARD, &world.secp);
            let consensus = run.target.verify(&ss, &witness, spend, Flags::CONSENSUS, &world.secp);
            let p = Produced {
                flow,
                mall,
                witness,
                script_sig: ss,
                standard,
                consensus,
                key_mask: km,
                pre_mask: pm,
                lock_time: lt,
                sequence: seq,
            };
            on_produced(rep, &p, spend, assets);
        }
    }
}

pub fn describe(p: &Produced, case: &DescCase) -> String {
    format!(
        "{} [{} mall={} keys={:#x} pre={:#x} nLockTime={} nSequence={:#x}] scriptSig={} witness=[{}]",
        case.desc,
        p.flow,
        p.mall,
        p.key_mask,
        p.pre_mask,
        p.lock_time,
        p.sequence,
        hex(&p.script_sig),
        p.witness.iter().map(|w| hex(w)).collect::<Vec<_>>().join(",")
    )
}

pub fn case_cfg(tier: Tier) -> CaseCfg {
    match tier {
        Tier::Quick => CaseCfg { max_nodes: 12, max_leaves: 4, chaos_pct: 0, repeat_keys: false, timelock_heavy: false },
        Tier::Thorough => CaseCfg { max_nodes: 40, max_leaves: 8, chaos_pct: 0, repeat_keys: true, timelock_heavy: false },
    }
}

/// Is the library's own sanity check passed by every fragment of the descriptor?
pub fn is_sane(desc: &Descriptor<Dk>) -> bool {
    use miniscript::descriptor::ShInner;
    use miniscript::{Legacy, ScriptContext, Segwitv0, Tap};
    match desc {
        Descriptor::Bare(b) => b.as_inner().validate(&miniscript::BareCtx::SANE).is_ok(),
        Descriptor::Pkh(_) | Descriptor::Wpkh(_) => true,
        Descriptor::Wsh(w) => w.as_inner().validate(&Segwitv0::SANE).is_ok(),
        Descriptor::Sh(s) => match s.as_inner() {
            ShInner::Wpkh(_) => true,
            ShInner::Wsh(w) => w.as_inner().validate(&Segwitv0::SANE).is_ok(),
            ShInner::Ms(m) => m.validate(&Legacy::SANE).is_ok(),
        },
        Descriptor::Tr(t) => t.leaves().all(|l| l.miniscript().validate(&Tap::SANE).is_ok()),
    }
}

pub fn run(cfg: &RunCfg, rep: &mut Report) {
    let world = World::new(cfg.seed);
    let total = cfg.n_cases(1600, 40_000);
    let ccfg = case_cfg(cfg.tier);
    let (n_tl, max_worlds) = match cfg.tier {
        Tier::Quick => (3, 16),
        Tier::Thorough => (6, 48),
    };
    for i in cfg.cases(total) {
        let mut rng = cfg.case_rng(i);
        let case = gen_desc_case(&mut rng, &world, &ccfg);
        let desc = match guarded(|| parse_desc(&case.desc)) {
            Ok(Ok(d)) => d,
            Ok(Err(_)) => {
                rep.eval();
                rep.count("desc-rejected");
                continue;
            }
            Err(m) => {
                rep.eval();
                rep.violation(
                    i,
                    format!("C01:panic:from_str:{}", norm_loc(&last_panic_loc())),
                    format!("Descriptor::from_str panicked ({}) on {}", m, case.desc),
                );
                continue;
            }
        };
        // only descriptors whose fragments are complete boolean scripts per the specification
        if !case.spec_types().iter().all(|t| matches!(t, Some(t) if t.base == crate::oracle::spec_types::Base::B))
        {
            rep.eval();
            rep.count("not-B-by-spec");
            continue;
        }
        let target = match Target::from_descriptor(&desc) {
            Ok(t) => t,
            Err(_) => {
                rep.count("no-target");
                continue;
            }
        };
        let sane = is_sane(&desc);
        let run = CaseRun { case: &case, desc: &desc, target: &target };
        let kind = format!("{:?}", case.kind);
        for_each_satisfaction(
            &world,
            &mut rng,
            &run,
            n_tl,
            max_worlds,
            rep,
            i,
            |rep, p, _spend, _assets| {
                rep.count(&format!("produced:{}:{}", kind, if p.mall { "mall" } else { "nonmall" }));
                rep.nontrivial(&format!(
                    "{}|{}|{}|{}|{}|{}",
                    case.desc, p.key_mask, p.pre_mask, p.lock_time, p.sequence, p.mall
                ));
                for f in &case.frags {
                    f.walk(&mut |n| rep.count(&format!("frag:{}", n.name())));
                }
                match &p.standard {
                    Ok(v) => {
                        rep.count(&format!("vm-accept:{:?}", v.kind));
                        rep.add("vm-steps", v.trace.steps as u64);
                        if rep.samples.len() < rep.max_samples && rep.evaluations % 97 == 0 {
                            rep.sample(describe(p, &case));
                        }
                    }
                    Err(f) if f.is_unsupported() => rep.inconclusive("vm-unsupported"),
                    Err(f) => {
                        let policy_limit = matches!(f, Fail::Limit(_)) && p.consensus.is_ok();
                        if policy_limit && !sane {
                            rep.count("info:policy-limit-on-insane");
                        } else {
                            rep.violation(
                                i,
                                format!("C01:rejected:{}:{:?}:{}", p.flow, case.kind, f.category()),
                                format!("refvm STANDARD rejects ({}: {}): {}", f.category(), f.detail(), describe(p, &case)),
                            );
                        }
                    }
                }
                if let (Ok(_), Err(f)) = (&p.standard, &p.consensus) {
                    if !f.is_unsupported() {
                        // oracle self-check: STANDARD accept must imply CONSENSUS accept
                        rep.violation(
                            i,
                            "C01:oracle-inconsistent".to_string(),
                            format!("refvm accepts under STANDARD but not CONSENSUS: {}", describe(p, &case)),
                        );
                    }
                }
            },
            |_rep, _flow, _mall, _spend, _assets, _km, _pm| {},
        );
    }
    if rep.samples.is_empty() {
        rep.sample("(no sample captured)".to_string());
    }
}
