//! C08: compiled policies keep their meaning and are sane in the target context.

use std::str::FromStr;
use std::time::Instant;

use miniscript::bitcoin;
use miniscript::iter::TreeLike as _;
use miniscript::miniscript::types::{ExtData, Type};
use miniscript::policy::concrete::DescriptorCtx;
use miniscript::policy::{Concrete, Liftable};
use miniscript::{BareCtx, Descriptor, Legacy, Miniscript, ScriptContext, Segwitv0, Tap};

use super::c02::search_cfg;
use super::c07::world_lookup;
use super::c12::ctx_rules_ext;
use super::{guarded, last_panic_loc, norm_loc, Report, RunCfg, Tier};
use crate::frag::{parse_frag, Cx, KeyForm, ParseCtx};
use crate::pol::*;
use crate::prng::Rng;
use crate::refvm::vm::Flags;
use crate::satcase::{make_assets, party_alphabet, satisfier, subsets, DescCase, DescKind};
use crate::target::{search_target, Target};
use crate::world::{Dk, Spend, World};

/// A compiler panic returns nothing, so C08 (a statement about what the compiler returns) is
/// not violated by it; C11 runs the same policies through the same entry points and judges it.
/// With `C11` as the reporting property the same code raises the violation.
fn compile_panicked(rep: &mut Report, case: u64, name: &str, m: &str, pstr: &str) {
    if rep.cfg.prop == "C11" {
        rep.violation(case, format!("C11:panic:policy-{}:{}", name, norm_loc(&last_panic_loc())), format!("compile panicked ({}) on {}", m, pstr));
    } else {
        rep.count("compile-panicked(judged-by-C11)");
    }
}

fn to_pol_abs(s: &str) -> Result<Pol, String> {
    let (k, h) = abstract_lookup();
    // the unspendable key used for tr compilation is named UNSPENDABLE: map to a key id nobody holds
    let k2 = |x: &str| if x == "UNSPENDABLE" { Some(999) } else { k(x) };
    parse_pol(s, &PolLookup { key: &k2, hash: &h })
}

fn equivalent(a: &Pol, b: &Pol) -> Option<Vec<Atom>> {
    let mut atoms = a.atoms();
    for x in b.atoms() {
        if !atoms.contains(&x) {
            atoms.push(x);
        }
    }
    atoms.retain(|x| *x != Atom::Key(999));
    if atoms.len() > 14 {
        return None;
    }
    for mask in 0u32..(1u32 << atoms.len()) {
        let sg = |x: &Atom| atoms.iter().position(|y| y == x).map(|k| mask & (1 << k) != 0).unwrap_or(false);
        if a.eval(&sg) != b.eval(&sg) {
            return Some(atoms.iter().enumerate().filter(|(i, _)| mask & (1 << i) != 0).map(|(_, a)| a.clone()).collect());
        }
    }
    Some(vec![Atom::Key(usize::MAX)]).filter(|_| false)
}

/// Checks on a compiled miniscript (String keys).
fn judge_ms<Ctx: ScriptContext>(rep: &mut Report, case: u64, cx: Cx, p: &Pol, pstr: &str, ms: &Miniscript<String, Ctx>, how: &str) {
    let out = ms.to_string();
    rep.nontrivial(&format!("{}|{}|{}", how, pstr, out));
    // (1) meaning (for tap leaves the meaning is judged on the whole descriptor)
    if how != "tr-leaf-structure" {
    match guarded(std::panic::AssertUnwindSafe(|| ms.lift().map(|l| l.to_string()))) {
        Ok(Ok(ls)) => match to_pol_abs(&ls) {
            Ok(lp) => match equivalent(p, &lp) {
                None => rep.count(&format!("meaning-preserved:{}", how)),
                Some(w) => rep.violation(
                    case,
                    format!("C08:meaning-changed:{}", how),
                    format!("policy {} compiled ({}) to {} which lifts to {}; they differ when exactly {:?} are available", pstr, how, out, ls, w),
                ),
            },
            Err(e) => rep.violation(case, format!("C08:lift-unparseable:{}", how), format!("{} : {}", ls, e)),
        },
        Ok(Err(e)) => rep.violation(case, format!("C08:output-not-liftable:{}", how), format!("policy {} compiled to {} which cannot be lifted: {}", pstr, out, e)),
        Err(m) => rep.violation(case, format!("C08:panic:lift:{}", norm_loc(&last_panic_loc())), format!("{} on {}", m, out)),
    }
    }
    // (2) signature on every path, non-malleable; (3) sane and re-parseable
    if !ms.ty.mall.signed {
        rep.violation(case, format!("C08:output-sigless:{}", how), format!("policy {} compiled to {} which does not require a signature on every path", pstr, out));
    }
    if !ms.ty.mall.non_malleable {
        rep.violation(case, format!("C08:output-malleable:{}", how), format!("policy {} compiled to the malleable {}", pstr, out));
    }
    if let Err(e) = ms.validate(&Ctx::SANE) {
        rep.violation(case, format!("C08:output-not-sane:{}", how), format!("policy {} compiled to {} which fails the sanity rules of the target context: {}", pstr, out, e));
    }
    match guarded(|| Miniscript::<String, Ctx>::from_str(&out)) {
        Ok(Ok(back)) if back == *ms && back.to_string() == out => {}
        Ok(other) => rep.violation(case, format!("C08:output-does-not-reparse:{}", how), format!("{} -> {:?}", out, other.map(|m| m.to_string()).map_err(|e| e.to_string()))),
        Err(m) => rep.violation(case, format!("C08:panic:reparse:{}", norm_loc(&last_panic_loc())), format!("{} on {}", m, out)),
    }
    // (4) stored type information equals what the type checker computes for every node
    for node in ms.pre_order_iter() {
        let ty = Type::type_check(&node.node);
        let ext = ExtData::type_check(&node.node);
        match ty {
            Ok(t) if t == node.ty && ext == node.ext => {}
            Ok(t) => {
                rep.violation(
                    case,
                    format!("C08:stored-type-differs:{}", how),
                    format!("node {} of {} stores ty {:?} / ext {:?} but type_check computes {:?} / {:?}", node, out, node.ty, node.ext, t, ext),
                );
                break;
            }
            Err(e) => {
                rep.violation(case, format!("C08:output-ill-typed:{}", how), format!("node {} of {}: {}", node, out, e));
                break;
            }
        }
    }
    // (5) context rules on the output (independent AST walker)
    let mut pc = ParseCtx::new(if cx == Cx::Tap { KeyForm::XOnly } else { KeyForm::Compressed });
    match parse_frag(&out, &mut pc) {
        Ok(f) => {
            if let Err(rule) = ctx_rules_ext(&f, cx, true, Some(ms.script_size()), false, true) {
                rep.violation(case, format!("C08:context-rule:{}:{}", how, rule.split(':').next().unwrap_or("")), format!("policy {} compiled to {} which breaks '{}' in {}", pstr, out, rule, cx.name()));
            }
        }
        Err(e) => rep.violation(case, format!("C08:output-unparseable-by-model:{}", how), format!("{} : {}", out, e)),
    }
}

fn judge_desc(rep: &mut Report, case: u64, p: &Pol, pstr: &str, d: &Descriptor<String>, how: &str) {
    let out = format!("{:#}", d);
    rep.nontrivial(&format!("{}|{}|{}", how, pstr, out));
    match guarded(std::panic::AssertUnwindSafe(|| d.lift().map(|l| l.to_string()))) {
        Ok(Ok(ls)) => match to_pol_abs(&ls) {
            Ok(lp) => match equivalent(p, &lp) {
                None => rep.count(&format!("meaning-preserved:{}", how)),
                Some(w) => rep.violation(
                    case,
                    format!("C08:meaning-changed:{}", how),
                    format!("policy {} compiled ({}) to {} which lifts to {}; they differ when exactly {:?} are available", pstr, how, out, ls, w),
                ),
            },
            Err(e) => rep.violation(case, format!("C08:lift-unparseable:{}", how), format!("{} : {}", ls, e)),
        },
        Ok(Err(e)) => rep.violation(case, format!("C08:output-not-liftable:{}", how), format!("policy {} compiled to {}: {}", pstr, out, e)),
        Err(m) => rep.violation(case, format!("C08:panic:lift:{}", norm_loc(&last_panic_loc())), format!("{} on {}", m, out)),
    }
    match guarded(|| Descriptor::<String>::from_str(&d.to_string())) {
        Ok(Ok(back)) if back == *d => {}
        _ => rep.violation(case, format!("C08:output-does-not-reparse:{}", how), out.clone()),
    }
    match d {
        Descriptor::Tr(tr) => {
            let mut depth_ok = true;
            for leaf in tr.leaves() {
                if leaf.depth() > 128 {
                    depth_ok = false;
                }
                judge_ms::<Tap>(rep, case, Cx::Tap, &leaf_pol_any(), "(leaf)", leaf.miniscript(), "tr-leaf-structure");
            }
            if !depth_ok {
                rep.violation(case, "C08:tap-tree-too-deep".into(), out);
            }
        }
        Descriptor::Wsh(w) => {
            if w.as_inner().validate(&Segwitv0::SANE).is_err() {
                rep.violation(case, format!("C08:output-not-sane:{}", how), out);
            }
        }
        Descriptor::Sh(s) => match s.as_inner() {
            miniscript::descriptor::ShInner::Ms(m) => {
                if m.validate(&Legacy::SANE).is_err() {
                    rep.violation(case, format!("C08:output-not-sane:{}", how), out);
                }
            }
            miniscript::descriptor::ShInner::Wsh(w) => {
                if w.as_inner().validate(&Segwitv0::SANE).is_err() {
                    rep.violation(case, format!("C08:output-not-sane:{}", how), out);
                }
            }
            _ => {}
        },
        Descriptor::Bare(b) => {
            if b.as_inner().validate(&BareCtx::SANE).is_err() {
                rep.violation(case, format!("C08:output-not-sane:{}", how), out);
            }
        }
        _ => {}
    }
}

/// Placeholder policy for per-leaf structural checks (meaning is judged on the whole descriptor).
fn leaf_pol_any() -> Pol { Pol::Trivial }

/// A signer that has a maximum-size ECDSA signature (72-byte DER + hash type) for every key but one.
struct EverySigBut(Option<bitcoin::PublicKey>);
impl miniscript::Satisfier<bitcoin::PublicKey> for EverySigBut {
    fn lookup_ecdsa_sig(&self, pk: &bitcoin::PublicKey) -> Option<bitcoin::ecdsa::Signature> {
        if Some(*pk) == self.0 {
            return None;
        }
        let mut c = [0u8; 64];
        c[0] = 0x80;
        c[31] = 1;
        c[32] = 0x80;
        c[63] = 1;
        bitcoin::secp256k1::ecdsa::Signature::from_compact(&c).ok().map(|signature| bitcoin::ecdsa::Signature { signature, sighash_type: bitcoin::EcdsaSighashType::All })
    }
}

fn push_len(n: usize) -> usize {
    if n == 0 {
        1
    } else if n <= 75 {
        1 + n
    } else if n <= 255 {
        2 + n
    } else {
        3 + n
    }
}

/// Resource limits of the P2SH context, measured on a real satisfaction: policies over 13..=19
/// real keys whose cheapest script stays below 520 bytes while its satisfaction approaches the
/// 1650-byte scriptSig limit. The compiler may refuse; what it returns must be spendable within
/// the limits of the context it was compiled for.
/// The 201-opcode limit of segwit v0 counts one opcode per CHECKMULTISIG key on top of the
/// opcodes in the script: policies whose compilation has ~160 opcodes of single-key checks plus
/// one or two multi() fragments sit on both sides of the limit.
fn segwit_ops_case(rep: &mut Report, case: u64, rng: &mut Rng) {
    let n1 = 44 + rng.below(14);
    let k1 = n1 - rng.below(4);
    let m = 12 + rng.below(9);
    let groups = 1 + rng.below(2);
    let mut next = 0usize;
    let mut take = |n: usize| -> String {
        let v: Vec<String> = (next..next + n).map(|j| format!("pk(K{})", j)).collect();
        next += n;
        v.join(",")
    };
    let big = format!("thresh({},{})", k1, take(n1));
    let g1 = format!("thresh(1,{})", take(m));
    let ptext = if groups == 1 { format!("and({},{})", big, g1) } else { format!("and({},and({},thresh(1,{})))", big, g1, take(m)) };
    let conc = match guarded(|| Concrete::<String>::from_str(&ptext)) {
        Ok(Ok(c)) => c,
        _ => return,
    };
    rep.eval();
    match guarded(move || conc.compile::<Segwitv0>()) {
        Ok(Ok(ms)) => {
            let text = ms.to_string();
            rep.nontrivial(&format!("segwit-ops|{}|{}|{}|{}", n1, k1, m, groups));
            if let Err(e) = ms.validate(&Segwitv0::SANE) {
                rep.violation(case, "C08:output-not-sane:ops:compile<Segwitv0>".into(), format!("{}-of-{} keys and {} group(s) of 1-of-{} compiled to a script that fails the sanity rules of its context: {} ({} bytes)", k1, n1, groups, m, e, ms.script_size()));
            } else if let Ok(Err(e)) = guarded(|| Miniscript::<String, Segwitv0>::from_str(&text).map(|_| ()).map_err(|e| e.to_string())) {
                rep.violation(case, "C08:output-does-not-reparse:ops:compile<Segwitv0>".into(), format!("{}-of-{} keys and {} group(s) of 1-of-{}: {}", k1, n1, groups, m, e));
            } else {
                rep.count("segwit-ops: compiled, sane, re-parsed");
            }
        }
        Ok(Err(_)) => rep.count("segwit-ops: refused"),
        Err(m2) => compile_panicked(rep, case, "compile<Segwitv0>", &m2, &ptext),
    }
}

fn legacy_limits_case(rep: &mut Report, case: u64, world: &World, rng: &mut Rng) {
    let n = 13 + rng.below(7);
    let base = 1 + rng.below(200) as u8;
    let keys: Vec<String> = (0..=n)
        .map(|j| {
            let mut sk = [0x22u8; 32];
            sk[30] = base;
            sk[31] = j as u8 + 1;
            let pk = bitcoin::secp256k1::PublicKey::from_secret_key(&world.secp, &bitcoin::secp256k1::SecretKey::from_slice(&sk).unwrap());
            crate::world::hex(&pk.serialize())
        })
        .collect();
    let all = keys[1..].iter().map(|k| format!("pk({})", k)).collect::<Vec<_>>().join(",");
    let ptext = match rng.below(3) {
        0 => format!("or(99@pk({}),1@thresh({},{}))", keys[0], n, all),
        1 => format!("thresh({},{})", n, all),
        _ => format!("or(1@pk({}),9@thresh({},{}))", keys[0], n - 1, all),
    };
    let conc = match guarded(|| Concrete::<bitcoin::PublicKey>::from_str(&ptext)) {
        Ok(Ok(c)) => c,
        _ => return,
    };
    rep.eval();
    let c2 = conc.clone();
    match guarded(move || c2.compile::<Legacy>()) {
        Ok(Ok(ms)) => {
            let script_len = ms.encode().len();
            // the single cheap key is away: the spend has to go through the wide branch
            let away = bitcoin::PublicKey::from_str(&keys[0]).ok();
            let sat = guarded(std::panic::AssertUnwindSafe(|| ms.satisfy(EverySigBut(away))));
            match sat {
                Ok(Ok(items)) => {
                    let script_sig = items.iter().map(|x| push_len(x.len())).sum::<usize>() + push_len(script_len);
                    rep.nontrivial(&format!("legacy-limits|{}|{}", n, script_sig));
                    if script_len > 520 {
                        rep.violation(case, "C08:output-exceeds-limits:compile<Legacy>:redeem-script-size".into(), format!("policy over {} keys compiled for P2SH to a script of {} bytes (limit 520): {}", n, script_len, ptext));
                    } else if script_sig > 1650 {
                        rep.violation(
                            case,
                            "C08:output-exceeds-limits:compile<Legacy>:scriptsig-size".into(),
                            format!("policy over {} keys compiled for P2SH to {} ({} bytes); its satisfaction with every key signing needs a scriptSig of {} bytes (standardness limit 1650): {}", n, ms, script_len, script_sig, ptext),
                        );
                    } else {
                        rep.count("legacy-limits: compiled and spendable within 520 / 1650 bytes");
                    }
                }
                _ => rep.count("legacy-limits: compiled, not satisfiable by the all-keys signer"),
            }
        }
        Ok(Err(_)) => rep.count("legacy-limits: refused"),
        Err(m) => compile_panicked(rep, case, "compile<Legacy>", &m, &ptext),
    }
}

fn timed<T>(rep: &mut Report, what: &str, f: impl FnOnce() -> T + std::panic::UnwindSafe) -> Result<T, String> {
    let t = Instant::now();
    let r = guarded(f);
    let ms = t.elapsed().as_millis() as u64;
    rep.max(&format!("max:compile-ms:{}", what), ms);
    r
}

pub fn run(cfg: &RunCfg, rep: &mut Report) {
    let world = World::new(cfg.seed);
    let total = cfg.n_cases(900, 30_000);
    let max_leaves = if cfg.tier == Tier::Thorough { 8 } else { 5 };
    let nm = AbstractPolNames;
    for i in cfg.cases(total) {
        if i >= 0x0800_0000 {
            break;
        }
        let mut rng = cfg.case_rng(i);
        let pcfg = PolGenCfg {
            max_leaves,
            n_keys: 8,
            n_hash: 2,
            concrete: true,
            constants: rng.chance(1, 10),
            // policies the compiler must refuse (repeated keys, two lock-time units on one
            // path) are part of the workload: refusing is fine, an insane output is not
            repeat_atoms: rng.chance(1, 5),
            timelocks: true,
            hashes: true,
            max_depth: 4,
            timelock_heavy: rng.chance(1, 5),
        };
        let leaves = 1 + rng.below(max_leaves);
        let p = PolGen::new(&mut rng, pcfg).gen(leaves, 0);
        let pstr = p.concrete(&nm);
        rep.eval();
        // One case in five: a conjunction / disjunction with 3..=5 children assembled through the
        // enum variants (the parser only builds binary ones). The compiler may refuse it; what it
        // returns has to keep every branch.
        let mut api_built: Option<(Pol, String, Concrete<String>)> = None;
        if i % 5 == 2 {
            let n = 3 + rng.below(3);
            let is_and = rng.chance(1, 3);
            let mut kids: Vec<(usize, Pol)> = vec![];
            for j in 0..n {
                let key = Pol::Atom(Atom::Key(j));
                let kid = match rng.below(5) {
                    0 => Pol::And(vec![key, Pol::Atom(Atom::Older(100 + j as u32))]),
                    1 => Pol::And(vec![key, Pol::Atom(Atom::Sha256(j % 2))]),
                    _ => key,
                };
                kids.push((1 + rng.below(3), kid));
            }
            let texts: Vec<String> = kids.iter().map(|(_, k)| k.concrete(&nm)).collect();
            let parsed: Vec<Concrete<String>> = texts.iter().filter_map(|t| Concrete::<String>::from_str(t).ok()).collect();
            if parsed.len() == n {
                let (model, obj, shown) = if is_and {
                    (
                        Pol::And(kids.iter().map(|(_, k)| k.clone()).collect()),
                        Concrete::And(parsed.iter().map(|c| std::sync::Arc::new(c.clone())).collect()),
                        format!("Policy::And[{}] (built through the enum variant)", texts.join(", ")),
                    )
                } else {
                    (
                        Pol::Or(kids.clone()),
                        Concrete::Or(kids.iter().zip(parsed.iter()).map(|((w, _), c)| (*w, std::sync::Arc::new(c.clone()))).collect()),
                        format!("Policy::Or[{}] (built through the enum variant)", kids.iter().zip(texts.iter()).map(|((w, _), t)| format!("{}@{}", w, t)).collect::<Vec<_>>().join(", ")),
                    )
                };
                rep.count("api-built-nary-policy");
                api_built = Some((model, shown, obj));
            }
        }
        // one case in nine: a threshold with k < n over keys and two absolute (or two relative) locks
        // of different units, in every child order: whether the two units can meet on one path
        // depends on k and on nothing else
        if api_built.is_none() && i % 9 == 4 {
            let n_keys = 1 + rng.below(3);
            let mut kids: Vec<Pol> = (0..n_keys).map(|j| Pol::Atom(Atom::Key(j))).collect();
            if rng.coin() {
                kids.push(Pol::Atom(Atom::After(*rng.pick(&[100u32, 144, 499_999_999]))));
                kids.push(Pol::Atom(Atom::After(*rng.pick(&[500_000_000u32, 500_000_001, 1_700_000_000]))));
            } else {
                kids.push(Pol::Atom(Atom::Older(*rng.pick(&[1u32, 10, 65_535]))));
                kids.push(Pol::Atom(Atom::Older((1 << 22) | *rng.pick(&[1u32, 10, 65_535]))));
            }
            rng.shuffle(&mut kids);
            let k = 1 + rng.below(kids.len());
            let text = format!("thresh({},{})", k, kids.iter().map(|c| c.concrete(&nm)).collect::<Vec<_>>().join(","));
            if let Ok(c) = Concrete::<String>::from_str(&text) {
                rep.count("thresh-over-two-lock-units(accepted by the policy parser)");
                api_built = Some((Pol::Thresh(k, kids), text, c));
            } else {
                rep.count("thresh-over-two-lock-units(refused by the policy parser)");
            }
        }
        let (p, pstr, conc) = match api_built {
            Some(x) => x,
            None => match guarded(|| Concrete::<String>::from_str(&pstr)) {
                Ok(Ok(c)) => (p, pstr, c),
                _ => {
                    rep.count("policy-rejected");
                    continue;
                }
            },
        };
        if rep.samples.len() < rep.max_samples && i % 53 == 0 {
            rep.sample(pstr.clone());
        }
        // miniscript targets
        macro_rules! ms_target {
            ($ctx:ty, $cx:expr, $name:expr) => {{
                let c2 = conc.clone();
                rep.eval();
                match timed(rep, $name, move || c2.compile::<$ctx>()) {
                    Ok(Ok(ms)) => {
                        rep.count(concat!("compiled:", $name));
                        // structural checks use the real policy
                        judge_ms::<$ctx>(rep, i, $cx, &p, &pstr, &ms, $name);
                    }
                    Ok(Err(_)) => rep.count(concat!("refused:", $name)),
                    Err(m) => compile_panicked(rep, i, $name, &m, &pstr),
                }
            }};
        }
        ms_target!(Segwitv0, Cx::Segwitv0, "compile<Segwitv0>");
        ms_target!(Legacy, Cx::Legacy, "compile<Legacy>");
        ms_target!(Tap, Cx::Tap, "compile<Tap>");
        ms_target!(BareCtx, Cx::Bare, "compile<Bare>");
        // descriptor targets
        let unspendable = "UNSPENDABLE".to_string();
        let targets: Vec<(&str, Box<dyn Fn(&Concrete<String>) -> Result<Descriptor<String>, String>>)> = vec![
            ("descriptor:Wsh", Box::new(|c| c.compile_to_descriptor::<Segwitv0>(DescriptorCtx::Wsh).map_err(|e| e.to_string()))),
            ("descriptor:ShWsh", Box::new(|c| c.compile_to_descriptor::<Segwitv0>(DescriptorCtx::ShWsh).map_err(|e| e.to_string()))),
            ("descriptor:Sh", Box::new(|c| c.compile_to_descriptor::<Legacy>(DescriptorCtx::Sh).map_err(|e| e.to_string()))),
            ("descriptor:Bare", Box::new(|c| c.compile_to_descriptor::<BareCtx>(DescriptorCtx::Bare).map_err(|e| e.to_string()))),
            ("descriptor:Tr(None)", Box::new(|c| c.compile_to_descriptor::<Tap>(DescriptorCtx::Tr(None)).map_err(|e| e.to_string()))),
            ("compile_tr(Some)", Box::new({
                let u = unspendable.clone();
                move |c| c.compile_tr(Some(u.clone())).map_err(|e| e.to_string())
            })),
            ("compile_tr_native(1)", Box::new({
                let u = unspendable.clone();
                move |c| c.compile_tr_native(Some(u.clone()), 1).map_err(|e| e.to_string())
            })),
            ("compile_tr_native(8)", Box::new({
                let u = unspendable.clone();
                move |c| c.compile_tr_native(Some(u.clone()), 8).map_err(|e| e.to_string())
            })),
            ("compile_tr_native(1024)", Box::new({
                let u = unspendable.clone();
                move |c| c.compile_tr_native(Some(u.clone()), 1024).map_err(|e| e.to_string())
            })),
            ("compile_tr_private_experimental", Box::new({
                let u = unspendable.clone();
                move |c| c.compile_tr_private_experimental(Some(u.clone())).map_err(|e| e.to_string())
            })),
        ];
        for (name, f) in &targets {
            rep.eval();
            let c2 = &conc;
            match timed(rep, name, std::panic::AssertUnwindSafe(|| f(c2))) {
                Ok(Ok(d)) => {
                    rep.count(&format!("compiled:{}", name));
                    judge_desc(rep, i, &p, &pstr, &d, name);
                    if name.starts_with("compile_tr_native") {
                        // native leaves contain no IF-style fragments
                        if let Descriptor::Tr(tr) = &d {
                            for leaf in tr.leaves() {
                                let s = leaf.miniscript().to_string();
                                if ["or_i(", "or_d(", "or_c(", "andor(", "d:", "j:", "l:", "u:"].iter().any(|x| s.contains(x)) && !s.contains("and_v(or_c") {
                                    // textual pre-filter; exact check on the AST
                                    let mut pc = ParseCtx::new(KeyForm::XOnly);
                                    if let Ok(fr) = parse_frag(&s, &mut pc) {
                                        use crate::frag::Frag;
                                        if fr.any(&|n| matches!(n, Frag::OrI(..) | Frag::OrD(..) | Frag::OrC(..) | Frag::AndOr(..) | Frag::DupIf(..) | Frag::NonZero(..))) {
                                            rep.violation(i, format!("C08:if-fragment-in-native-leaf:{}", name), format!("policy {} -> {} has the leaf {}", pstr, d, s));
                                        }
                                    }
                                }
                            }
                        }
                    }
                }
                Ok(Err(_)) => rep.count(&format!("refused:{}", name)),
                Err(m) => compile_panicked(rep, i, name, &m, &pstr),
            }
        }
        if i % 6 == 3 {
            legacy_limits_case(rep, i, &world, &mut rng);
        }
        if i % 12 == 5 {
            segwit_ops_case(rep, i, &mut rng);
        }
        // real keys in mixed serialisations: a context that forbids a key kind (uncompressed in
        // segwit v0) must refuse or avoid it; what it returns must re-parse in that context
        if i % 4 == 1 {
            struct Mixed<'w>(&'w World);
            impl PolNames for Mixed<'_> {
                fn key(&self, i: usize) -> String {
                    let k = &self.0.keys[i % self.0.keys.len()];
                    if i % 2 == 1 {
                        k.uncompressed_hex.clone()
                    } else {
                        k.compressed_hex.clone()
                    }
                }
                fn hash32(&self, i: usize, kind: u8) -> String { self.0.hash32(i, kind) }
                fn hash20(&self, i: usize, kind: u8) -> String { self.0.hash20(i, kind) }
            }
            let preal = p.concrete(&Mixed(&world));
            if let Ok(Ok(creal)) = guarded(|| Concrete::<bitcoin::PublicKey>::from_str(&preal)) {
                macro_rules! real_target {
                    ($ctx:ty, $name:expr) => {{
                        let c2 = creal.clone();
                        rep.eval();
                        match guarded(move || c2.compile::<$ctx>()) {
                            Ok(Ok(ms)) => {
                                let text = ms.to_string();
                                match guarded(|| Miniscript::<bitcoin::PublicKey, $ctx>::from_str(&text).map(|_| ()).map_err(|e| e.to_string())) {
                                    Ok(Ok(())) => rep.count(concat!("real-keys-compiled-and-reparsed:", $name)),
                                    Ok(Err(e)) => rep.violation(i, format!("C08:output-does-not-reparse:real-keys:{}", $name), format!("policy {} compiled ({}) to {} which the context's own parser rejects: {}", preal, $name, text, e)),
                                    Err(m) => rep.violation(i, format!("C08:panic:reparse:{}", norm_loc(&last_panic_loc())), format!("{} on {}", m, text)),
                                }
                            }
                            Ok(Err(_)) => rep.count(concat!("real-keys-refused:", $name)),
                            Err(m) => compile_panicked(rep, i, $name, &m, &preal),
                        }
                    }};
                }
                real_target!(Segwitv0, "compile<Segwitv0>");
                real_target!(Legacy, "compile<Legacy>");
                real_target!(BareCtx, "compile<Bare>");
            }
        }
        // ground truth in the VM on a sample: real keys, wsh and tr
        if i % 3 == 0 {
            vm_sample(rep, i, &world, &p, &mut rng, cfg.tier);
        }
    }
    // wide thresholds around the numeric limits of the contexts (20 / 21 keys for CHECKMULTISIG,
    // 999 / 1000 for CHECKSIGADD and the 1000-element stack, 201 opcodes, 3600 / 10000 bytes): what
    // the compiler returns must re-parse under the default rules of the same context and keep "k of n"
    if cfg.only_case.is_none() || cfg.only_case.map(|c| c >= 0x0800_0000).unwrap_or(false) {
        let mut idx = 0u64;
        for n in [3usize, 15, 16, 17, 19, 20, 21, 22, 49, 50, 67, 100, 200, 250, 997, 998, 999, 1000, 1001] {
            for k in [1usize, 2, n / 2, n - 1, n] {
                let id = 0x0800_0000 + idx;
                idx += 1;
                let mine = match cfg.only_case {
                    Some(c) => c == id,
                    None => id % cfg.nshards == cfg.shard,
                };
                if !mine || k == 0 {
                    continue;
                }
                let keys: Vec<String> = (0..n).map(|j| format!("W{}", j)).collect();
                let pstr = format!("thresh({},{})", k, keys.iter().map(|x| format!("pk({})", x)).collect::<Vec<_>>().join(","));
                let conc = match guarded(|| Concrete::<String>::from_str(&pstr)) {
                    Ok(Ok(c)) => c,
                    _ => continue,
                };
                let mut outs: Vec<(&str, Result<(), String>, bool)> = vec![];
                macro_rules! wide {
                    ($ctx:ty, $name:expr) => {{
                        let c2 = conc.clone();
                        rep.eval();
                        match timed(rep, concat!("wide:", $name), move || c2.compile::<$ctx>()) {
                            Ok(Ok(ms)) => {
                                let text = ms.to_string();
                                let re = guarded(|| Miniscript::<String, $ctx>::from_str(&text).map(|_| ()).map_err(|e| e.to_string()));
                                outs.push(($name, re.unwrap_or_else(|m| Err(format!("panic: {}", m))), true));
                                // meaning on sampled assignments with exactly k-1 and k keys present
                                if let Ok(l) = ms.lift() {
                                    let ls = l.to_string();
                                    let kk = |x: &str| x.strip_prefix('W').and_then(|d| d.parse::<usize>().ok());
                                    let hh = |_: &str| None;
                                    if let Ok(lp) = parse_pol(&ls, &PolLookup { key: &kk, hash: &hh }) {
                                        for have in [k.saturating_sub(1), k] {
                                            let sigma = |a: &Atom| matches!(a, Atom::Key(j) if (*j + 3) % n < have);
                                            if lp.eval(&sigma) != (have >= k) {
                                                rep.violation(id, format!("C08:meaning-changed:wide:{}", $name), format!("{} of {} keys: the compiled {}-of-{} ({}) evaluates to {}", have, n, k, n, $name, lp.eval(&sigma)));
                                            }
                                        }
                                    }
                                }
                            }
                            Ok(Err(_)) => outs.push(($name, Ok(()), false)),
                            Err(m) => compile_panicked(rep, id, $name, &m, &pstr),
                        }
                    }};
                }
                wide!(Segwitv0, "compile<Segwitv0>");
                wide!(Legacy, "compile<Legacy>");
                wide!(Tap, "compile<Tap>");
                {
                    let c2 = conc.clone();
                    rep.eval();
                    match timed(rep, "wide:compile_tr", move || c2.compile_tr(Some("UNSPENDABLE".to_string()))) {
                        Ok(Ok(d)) => {
                            let text = d.to_string();
                            let re = guarded(|| Descriptor::<String>::from_str(&text).map(|_| ()).map_err(|e| e.to_string()));
                            outs.push(("compile_tr", re.unwrap_or_else(|m| Err(format!("panic: {}", m))), true));
                        }
                        Ok(Err(_)) => outs.push(("compile_tr", Ok(()), false)),
                        Err(m) => compile_panicked(rep, id, "compile_tr", &m, &pstr),
                    }
                }
                for (name, re, compiled) in outs {
                    if !compiled {
                        rep.count(&format!("wide-refused:{}", name));
                        continue;
                    }
                    rep.nontrivial(&format!("wide|{}|{}|{}", name, k, n));
                    match re {
                        Ok(()) => rep.count(&format!("wide-compiled-and-reparsed:{}", name)),
                        Err(e) => rep.violation(id, format!("C08:output-does-not-reparse:wide:{}", name), format!("{}-of-{} keys compiled by {} does not re-parse under the default rules: {}", k, n, name, e)),
                    }
                }
            }
        }
    }
    if rep.samples.is_empty() {
        rep.sample("(see counters)".into());
    }
}

/// Compile with real keys and compare the POLICY's truth value with the existence of a witness.
fn vm_sample(rep: &mut Report, case: u64, world: &World, p: &Pol, rng: &mut Rng, tier: Tier) {
    if p.atoms().contains(&Atom::Key(7)) {
        return; // world key 7 serves as the unspendable internal key
    }
    let tap = rng.coin();
    let pstr = if tap { p.concrete(&XOnlyNames(world)) } else { p.concrete(world) };
    let conc = match guarded(|| Concrete::<Dk>::from_str(&pstr)) {
        Ok(Ok(c)) => c,
        _ => return,
    };
    let d: Descriptor<Dk> = match guarded(std::panic::AssertUnwindSafe(|| {
        if tap {
            conc.compile_tr(Some(Dk::from_str(&world.keys[7].xonly_hex).unwrap())).map_err(|e| e.to_string())
        } else {
            conc.compile_to_descriptor::<Segwitv0>(DescriptorCtx::Wsh).map_err(|e| e.to_string())
        }
    })) {
        Ok(Ok(d)) => d,
        _ => return,
    };
    let target = match Target::from_descriptor(&d) {
        Ok(t) => t,
        Err(_) => return,
    };
    // a DescCase shell so that the shared world helpers can be used: parse the output with the model parser
    let ds = format!("{:#}", d);
    let (kl, hl) = world_lookup(world);
    let mut frags = vec![];
    let mut internal = None;
    {
        use crate::frag::KeyRef;
        let parse_one = |s: &str| -> Option<crate::frag::Frag> {
            let mut pc = ParseCtx::new(if tap { KeyForm::XOnly } else { KeyForm::Compressed });
            let f = parse_frag(s, &mut pc).ok()?;
            // map parser-local ids to world ids
            let keymap: Vec<usize> = pc.key_names.iter().map(|k| kl(k)).collect::<Option<Vec<_>>>()?;
            let hmap: Vec<usize> = pc.hash_names.iter().map(|h| hl(h)).collect::<Option<Vec<_>>>()?;
            Some(remap(&f, &keymap, &hmap))
        };
        if let Descriptor::Tr(tr) = &d {
            internal = kl(&tr.internal_key().to_string()).map(|id| KeyRef { id, form: KeyForm::XOnly });
            for leaf in tr.leaves() {
                match parse_one(&leaf.miniscript().to_string()) {
                    Some(f) => frags.push(f),
                    None => return,
                }
            }
        } else if let Descriptor::Wsh(w) = &d {
            match parse_one(&w.as_inner().to_string()) {
                Some(f) => frags.push(f),
                None => return,
            }
        }
    }
    let case_shell = DescCase { kind: if tap { DescKind::Tr } else { DescKind::Wsh }, desc: ds.clone(), frags, internal, cx: None };
    let scfg = search_cfg(tier);
    let key_ids = case_shell.key_ids();
    let pre_ids = case_shell.pre_ids();
    let kms = subsets(rng, key_ids.len(), 4, 10);
    let pms = subsets(rng, pre_ids.len(), 2, 4);
    let tls = crate::satcase::timelock_worlds(rng, &case_shell, 3);
    let mut n = 0;
    for (lt, seq) in &tls {
        for km in &kms {
            for pm in &pms {
                n += 1;
                if n > 24 {
                    return;
                }
                rep.eval();
                let spend = Spend::simple(bitcoin::ScriptBuf::from_bytes(target.spk.clone()), *lt, *seq);
                let mut assets = make_assets(world, &spend, &target, &case_shell, *km, *pm);
                assets.keys.remove(&7);
                let pw = PolWorld {
                    keys: (0..world.keys.len()).map(|id| assets.keys.contains(&id)).collect(),
                    pre: (0..world.pre.len()).map(|id| assets.pre.contains(&id)).collect(),
                    lock_time: *lt,
                    sequence: *seq,
                };
                let truth = p.eval(&pw.sigma());
                let sat = satisfier(&assets, &target);
                let mut exists = None;
                if let Ok(Ok((w, ss))) = guarded(std::panic::AssertUnwindSafe(|| d.get_satisfaction_mall(&sat))) {
                    if target.verify(ss.as_bytes(), &w, &spend, Flags::STANDARD, &world.secp).is_ok() {
                        exists = Some(true);
                    }
                }
                if exists.is_none() {
                    let r = search_target(&target, &spend, Flags::STANDARD, &world.secp, &scfg, |path| party_alphabet(world, &assets, &target, &case_shell, path, false));
                    if !r.found.is_empty() {
                        exists = Some(true);
                    } else if r.inconclusive {
                        rep.inconclusive("search-budget");
                        continue;
                    } else {
                        exists = Some(false);
                    }
                }
                // the unspendable internal key (world key 7 when the policy does not use it) must not count
                let exists = exists.unwrap();
                if truth != exists {
                    rep.violation(
                        case,
                        format!("C08:vm-ground-truth:{}", if truth { "policy-true-but-unspendable" } else { "policy-false-but-spendable" }),
                        format!("policy {} compiled to {}: with keys={:?} preimages={:?} nLockTime={} nSequence={:#x} the policy is {} but a witness {}", pstr, ds, assets.keys, assets.pre, lt, seq, truth, if exists { "exists" } else { "does not exist" }),
                    );
                } else {
                    rep.count("vm-ground-truth-agrees");
                    rep.nontrivial(&format!("vm|{}|{}|{}|{}|{}", ds, km, pm, lt, seq));
                }
            }
        }
    }
}

fn remap(f: &crate::frag::Frag, keys: &[usize], hashes: &[usize]) -> crate::frag::Frag {
    use crate::frag::{Frag, KeyRef};
    let k = |r: &KeyRef| KeyRef { id: keys[r.id], form: r.form };
    let bx = |x: &Frag| Box::new(remap(x, keys, hashes));
    match f {
        Frag::PkK(r) => Frag::PkK(k(r)),
        Frag::PkH(r) => Frag::PkH(k(r)),
        Frag::Sha256(i) => Frag::Sha256(hashes[*i]),
        Frag::Hash256(i) => Frag::Hash256(hashes[*i]),
        Frag::Ripemd160(i) => Frag::Ripemd160(hashes[*i]),
        Frag::Hash160(i) => Frag::Hash160(hashes[*i]),
        Frag::Multi(n, ks) => Frag::Multi(*n, ks.iter().map(k).collect()),
        Frag::SortedMulti(n, ks) => Frag::SortedMulti(*n, ks.iter().map(k).collect()),
        Frag::MultiA(n, ks) => Frag::MultiA(*n, ks.iter().map(k).collect()),
        Frag::SortedMultiA(n, ks) => Frag::SortedMultiA(*n, ks.iter().map(k).collect()),
        Frag::Alt(x) => Frag::Alt(bx(x)),
        Frag::Swap(x) => Frag::Swap(bx(x)),
        Frag::Check(x) => Frag::Check(bx(x)),
        Frag::DupIf(x) => Frag::DupIf(bx(x)),
        Frag::Verify(x) => Frag::Verify(bx(x)),
        Frag::NonZero(x) => Frag::NonZero(bx(x)),
        Frag::ZeroNotEqual(x) => Frag::ZeroNotEqual(bx(x)),
        Frag::AndV(a, b) => Frag::AndV(bx(a), bx(b)),
        Frag::AndB(a, b) => Frag::AndB(bx(a), bx(b)),
        Frag::OrB(a, b) => Frag::OrB(bx(a), bx(b)),
        Frag::OrC(a, b) => Frag::OrC(bx(a), bx(b)),
        Frag::OrD(a, b) => Frag::OrD(bx(a), bx(b)),
        Frag::OrI(a, b) => Frag::OrI(bx(a), bx(b)),
        Frag::AndOr(a, b, c) => Frag::AndOr(bx(a), bx(b), bx(c)),
        Frag::Thresh(n, xs) => Frag::Thresh(*n, xs.iter().map(|x| remap(x, keys, hashes)).collect()),
        other => other.clone(),
    }
}
