//! ST: validation of the oracles themselves (DESIGN.md 4.4). A failure here is a
//! broken check (exit 2 in the driver), never a verdict on a property.

use std::rc::Rc;

use miniscript::bitcoin;

use bitcoin::consensus::Decodable;
use bitcoin::{ScriptBuf, Transaction, TxOut};

use super::{Report, RunCfg};
use crate::frag::{parse_frag, KeyForm, ParseCtx};
use crate::refvm::script::*;
use crate::refvm::search::{self, Alphabet, Finish, SearchCfg, Tag};
use crate::refvm::verify::verify_input;
use crate::refvm::vm::*;
use crate::world::{Spend, World};

fn fail(rep: &mut Report, what: &str, detail: String) {
    rep.violation(0, format!("ST:{}", what), detail);
}

fn extract_bytes(src: &str, after: &str) -> Option<Vec<u8>> {
    let i = src.find(after)?;
    let rest = &src[i + after.len()..];
    let j = rest.find("]")?;
    let body = &rest[..j];
    let mut v = vec![];
    for tok in body.split(|c: char| c == ',' || c.is_whitespace()) {
        let tok = tok.trim();
        if let Some(h) = tok.strip_prefix("0x") {
            v.push(u8::from_str_radix(h, 16).ok()?);
        }
    }
    Some(v)
}

fn spec_vs_vectors(rep: &mut Report) {
    let src = match std::fs::read_to_string("/repo/src/miniscript/ms_tests.rs") {
        Ok(s) => s,
        Err(_) => {
            rep.inconclusive("ms_tests.rs not readable");
            return;
        }
    };
    let mut n = 0;
    for line in src.lines() {
        let line = line.trim();
        let (valid, rest) = if let Some(r) = line.strip_prefix("ms_test(\"") {
            (true, r)
        } else if let Some(r) = line.strip_prefix("invalid_ms(\"") {
            (false, r)
        } else {
            continue;
        };
        let end = match rest.find('"') {
            Some(e) => e,
            None => continue,
        };
        let ms = &rest[..end];
        let mut pc = ParseCtx::new(KeyForm::Compressed);
        let frag = match parse_frag(ms, &mut pc) {
            Ok(f) => f,
            Err(e) => {
                if valid {
                    fail(rep, "vector-parse", format!("cannot parse vector {}: {}", ms, e));
                }
                continue;
            }
        };
        rep.eval();
        n += 1;
        let ty = frag.spec_type(false);
        if valid {
            let exp_start = rest[end + 1..].find('"').map(|i| end + 1 + i + 1);
            let exp = exp_start.and_then(|s| rest[s..].find('"').map(|e| &rest[s..s + e]));
            let exp = match exp {
                Some(e) => e,
                None => continue,
            };
            match ty {
                Err(e) => fail(rep, "spec-rejects-valid-vector", format!("{}: {}", ms, e)),
                Ok(t) => {
                    let mut a: Vec<char> = t.type_string().chars().collect();
                    let mut b: Vec<char> = exp.chars().collect();
                    a.sort();
                    b.sort();
                    if a != b {
                        fail(
                            rep,
                            "spec-type-differs-from-vector",
                            format!("{}: model {} vector {}", ms, t.type_string(), exp),
                        );
                    } else {
                        rep.nontrivial(ms);
                        rep.count("vector-type-equal");
                    }
                }
            }
        } else {
            // invalid vectors may be invalid for non-typing reasons; only count
            match ty {
                Err(_) => rep.count("invalid-vector-rejected-by-model"),
                Ok(t) if t.base != crate::oracle::spec_types::Base::B => {
                    rep.count("invalid-vector-non-B")
                }
                Ok(_) => rep.count("invalid-vector-typed-B-by-model(other reason)"),
            }
        }
    }
    rep.add("vectors", n);
}

fn real_tx_vectors(rep: &mut Report, world: &World) {
    let src = match std::fs::read_to_string("/repo/examples/verify_tx.rs") {
        Ok(s) => s,
        Err(_) => {
            rep.inconclusive("verify_tx.rs not readable");
            return;
        }
    };
    let txb = extract_bytes(&src, "let tx_bytes = vec![");
    let spk = extract_bytes(&src, "bitcoin::ScriptBuf::from(vec![");
    let (txb, spk) = match (txb, spk) {
        (Some(a), Some(b)) if !a.is_empty() && !b.is_empty() => (a, b),
        _ => {
            rep.inconclusive("verify_tx.rs vectors not found");
            return;
        }
    };
    let tx = match Transaction::consensus_decode(&mut &txb[..]) {
        Ok(t) => t,
        Err(_) => {
            rep.inconclusive("verify_tx.rs tx does not decode");
            return;
        }
    };
    let prevouts = vec![
        TxOut { value: bitcoin::Amount::from_sat(0), script_pubkey: ScriptBuf::from_bytes(spk.clone()) },
        TxOut { value: bitcoin::Amount::from_sat(0), script_pubkey: ScriptBuf::new() },
    ];
    let txc = TxCtx { tx: &tx, idx: 0, prevouts: &prevouts };
    let ss = tx.input[0].script_sig.to_bytes();
    rep.eval();
    match verify_input(&spk, &ss, &[], &txc, Flags::STANDARD, &world.secp) {
        Ok(v) => {
            rep.nontrivial("real-tx-accept");
            rep.add("real-tx-sigchecks", v.trace.sig_checks.len() as u64);
        }
        Err(f) => fail(
            rep,
            "real-tx-rejected",
            format!("mainnet tx f27eba16.. input 0 rejected by refvm: {:?}", f),
        ),
    }
    // every single-byte flip inside the scriptSig must be rejected (or change nothing observable:
    // flipping a push opcode can still be valid only if it re-encodes identically, which it cannot)
    let mut accepted_flips = 0;
    for i in 0..ss.len() {
        let mut m = ss.clone();
        m[i] ^= 0x04;
        rep.eval();
        if verify_input(&spk, &m, &[], &txc, Flags::STANDARD, &world.secp).is_ok() {
            accepted_flips += 1;
            fail(rep, "real-tx-flip-accepted", format!("flip of scriptSig byte {} still accepted", i));
        }
    }
    rep.add("real-tx-flips-rejected", (ss.len() - accepted_flips) as u64);
    rep.nontrivial("real-tx-flips");
}

fn run_script(
    world: &World,
    script: &[u8],
    stack: Vec<Vec<u8>>,
    sv: SigVersion,
    flags: Flags,
) -> Result<Vec<Vec<u8>>, Fail> {
    let spend = Spend::simple(ScriptBuf::new(), 0, 0xffff_fffe);
    let txc = spend.txc();
    let env = Env::new(&txc, sv, flags, script.to_vec(), None, &world.secp);
    let ops = parse(script).map_err(|_| Fail::Abort("parse"))?;
    let mut m = Machine::new(Rc::new(ops), stack, false, 0);
    match run_to_end(&mut m, &env) {
        Ok(()) => Ok(m
            .stack
            .iter()
            .map(|e| match e {
                Elem::B(b) => (**b).clone(),
                Elem::V(_) => vec![],
            })
            .collect()),
        Err(Stop::Fail(f)) => Err(f),
        Err(Stop::Fork { .. }) => Err(Fail::Abort("fork")),
    }
}

fn opcode_cases(rep: &mut Report, world: &World) {
    use SigVersion::*;
    let std = Flags::STANDARD;
    let con = Flags::CONSENSUS;
    // (name, script, stack, sigversion, flags, expected Ok(stack) / Err(category))
    type Case = (&'static str, Vec<u8>, Vec<Vec<u8>>, SigVersion, Flags, Result<Vec<Vec<u8>>, &'static str>);
    let cases: Vec<Case> = vec![
        ("add", vec![OP_1, OP_1 + 1, OP_ADD], vec![], Base, std, Ok(vec![vec![3]])),
        ("add-neg", vec![OP_1NEGATE, OP_1, OP_ADD], vec![], Base, std, Ok(vec![vec![]])),
        ("size", vec![OP_SIZE], vec![vec![7; 32]], Base, std, Ok(vec![vec![7; 32], vec![32]])),
        ("size0", vec![OP_SIZE], vec![vec![]], Base, std, Ok(vec![vec![], vec![]])),
        ("0notequal", vec![OP_0NOTEQUAL], vec![vec![5]], Base, std, Ok(vec![vec![1]])),
        ("0notequal-nonminimal", vec![OP_0NOTEQUAL], vec![vec![5, 0]], Base, std, Err("encoding")),
        ("0notequal-nonminimal-consensus", vec![OP_0NOTEQUAL], vec![vec![5, 0]], Base, con, Ok(vec![vec![1]])),
        ("num-overflow", vec![OP_0NOTEQUAL], vec![vec![1, 2, 3, 4, 5]], Base, con, Err("encoding")),
        ("negzero-false", vec![OP_VERIFY], vec![vec![0x80]], Base, con, Err("script-false")),
        ("if-minimalif-v0-std", vec![OP_IF, OP_1, OP_ENDIF], vec![vec![2]], WitnessV0, std, Err("encoding")),
        ("if-minimalif-v0-consensus", vec![OP_IF, OP_1, OP_ENDIF], vec![vec![2]], WitnessV0, con, Ok(vec![vec![1]])),
        ("if-minimalif-tap-consensus", vec![OP_IF, OP_1, OP_ENDIF], vec![vec![2]], Tapscript, con, Err("encoding")),
        ("if-base-std", vec![OP_IF, OP_1, OP_ENDIF], vec![vec![2]], Base, std, Ok(vec![vec![1]])),
        ("notif-else", vec![OP_NOTIF, OP_1, OP_ELSE, OP_1 + 1, OP_ENDIF], vec![vec![]], Base, std, Ok(vec![vec![1]])),
        ("notif-else2", vec![OP_NOTIF, OP_1, OP_ELSE, OP_1 + 1, OP_ENDIF], vec![vec![1]], Base, std, Ok(vec![vec![2]])),
        ("unbalanced", vec![OP_IF, OP_1], vec![vec![1]], Base, std, Err("abort")),
        ("nonminimal-push", vec![0x01, 0x05], vec![], Base, std, Err("encoding")),
        ("nonminimal-push-consensus", vec![0x01, 0x05], vec![], Base, con, Ok(vec![vec![5]])),
        ("pushdata1-nonminimal", vec![OP_PUSHDATA1, 0x02, 9, 9], vec![], Base, std, Err("encoding")),
        ("equalverify-fail", vec![OP_EQUALVERIFY], vec![vec![1], vec![2]], Base, std, Err("script-false")),
        ("toalt", vec![OP_TOALTSTACK, OP_1, OP_FROMALTSTACK], vec![vec![9]], Base, std, Ok(vec![vec![1], vec![9]])),
        ("fromalt-empty", vec![OP_FROMALTSTACK], vec![], Base, std, Err("abort")),
        ("ifdup-true", vec![OP_IFDUP], vec![vec![1]], Base, std, Ok(vec![vec![1], vec![1]])),
        ("ifdup-false", vec![OP_IFDUP], vec![vec![]], Base, std, Ok(vec![vec![]])),
        ("swap", vec![OP_SWAP], vec![vec![1], vec![2]], Base, std, Ok(vec![vec![2], vec![1]])),
        ("booland", vec![OP_BOOLAND], vec![vec![1], vec![]], Base, std, Ok(vec![vec![]])),
        ("boolor", vec![OP_BOOLOR], vec![vec![1], vec![]], Base, std, Ok(vec![vec![1]])),
        ("numequal", vec![OP_NUMEQUAL], vec![vec![2], vec![2]], Base, std, Ok(vec![vec![1]])),
        ("cltv-final-seq", vec![OP_1, OP_CLTV], vec![], Base, std, Err("locktime")),
        ("csv-disabled-seq", vec![OP_1, OP_CSV], vec![], Base, std, Err("locktime")),
        ("csv-disable-flag-in-operand", vec![0x05, 0x01, 0x00, 0x00, 0x80, 0x00, OP_CSV], vec![], Base, std, Ok(vec![vec![0x01, 0x00, 0x00, 0x80, 0x00]])),
        ("csv-unit", vec![0x03, 0x01, 0x00, 0x40, OP_CSV], vec![], Base, std, Err("locktime")),
        ("csv-negative", vec![OP_1NEGATE, OP_CSV], vec![], Base, std, Err("locktime")),
        ("checksig-empty-sig", {
            let mut s = vec![33];
            s.extend_from_slice(&world.keys[0].pk.serialize());
            s.push(OP_CHECKSIG);
            s
        }, vec![vec![]], WitnessV0, std, Ok(vec![vec![]])),
        ("checksig-junk-sig-nullfail", {
            let mut s = vec![33];
            s.extend_from_slice(&world.keys[0].pk.serialize());
            s.push(OP_CHECKSIG);
            s
        }, vec![vec![0x30, 0x06, 0x02, 0x01, 0x01, 0x02, 0x01, 0x01, 0x01]], WitnessV0, std, Err("signature")),
        ("checksig-junk-sig-consensus", {
            let mut s = vec![33];
            s.extend_from_slice(&world.keys[0].pk.serialize());
            s.push(OP_CHECKSIG);
            s
        }, vec![vec![0x30, 0x06, 0x02, 0x01, 0x01, 0x02, 0x01, 0x01, 0x01]], WitnessV0, con, Ok(vec![vec![]])),
        ("checksig-nonder", {
            let mut s = vec![33];
            s.extend_from_slice(&world.keys[0].pk.serialize());
            s.push(OP_CHECKSIG);
            s
        }, vec![vec![1, 2, 3]], WitnessV0, con, Err("signature")),
        ("multisig-dummy", {
            let mut s = vec![OP_1, 33];
            s.extend_from_slice(&world.keys[0].pk.serialize());
            s.extend_from_slice(&[OP_1, OP_CHECKMULTISIG]);
            s
        }, vec![vec![1], vec![]], Base, std, Err("encoding")),
        ("multisig-empty", {
            let mut s = vec![OP_1, 33];
            s.extend_from_slice(&world.keys[0].pk.serialize());
            s.extend_from_slice(&[OP_1, OP_CHECKMULTISIG]);
            s
        }, vec![vec![], vec![]], Base, std, Ok(vec![vec![]])),
        ("multisig-tapscript", vec![OP_0, OP_0, OP_CHECKMULTISIG], vec![vec![]], Tapscript, con, Err("abort")),
        ("checksigadd-v0", vec![OP_CHECKSIGADD], vec![vec![], vec![], vec![1; 32]], WitnessV0, con, Err("abort")),
        ("opcount", {
            let mut s = vec![OP_1];
            s.extend(std::iter::repeat(OP_DUP).take(101));
            s.extend(std::iter::repeat(OP_DROP).take(101));
            s
        }, vec![], Base, con, Err("limit")),
        ("opcount-tapscript", {
            let mut s = vec![OP_1];
            s.extend(std::iter::repeat(OP_DUP).take(101));
            s.extend(std::iter::repeat(OP_DROP).take(101));
            s
        }, vec![], Tapscript, con, Ok(vec![vec![1]])),
        ("stacklimit", {
            let mut s = vec![OP_1];
            s.extend(std::iter::repeat(OP_DUP).take(1000));
            s
        }, vec![], Tapscript, con, Err("limit")),
        ("unknown-op", vec![0xb3], vec![], Base, con, Err("unsupported")),
    ];
    for (name, script, stack, sv, flags, expect) in cases {
        rep.eval();
        let got = run_script(world, &script, stack, sv, flags);
        let ok = match (&got, &expect) {
            (Ok(a), Ok(b)) => a == b,
            (Err(f), Err(c)) => f.category() == *c,
            _ => false,
        };
        if ok {
            rep.nontrivial(&format!("op:{}", name));
            rep.count("opcode-case-ok");
        } else {
            fail(rep, "opcode-case", format!("{}: got {:?}, expected {:?}", name, got, expect));
        }
    }
}

/// Lazy search vs plain enumeration of all witnesses up to length 4 over the same alphabet.
fn search_vs_enumeration(rep: &mut Report, world: &World, cfg: &RunCfg) {
    use crate::frag::{Cx, Gen, GenCfg};
    use crate::oracle::spec_types::Base;
    let n = 150;
    for i in 0..n {
        let mut rng = cfg.case_rng(0x5e1f_0000 + i);
        let mut gc = GenCfg::new(Cx::Segwitv0, 5);
        gc.n_keys = 2;
        gc.n_pre = 1;
        let frag = {
            let mut g = Gen::new(&mut rng, gc);
            g.gen(Base::B, 5)
        };
        let s = frag.to_string_with(world);
        let ms: miniscript::Miniscript<bitcoin::PublicKey, miniscript::Segwitv0> =
            match miniscript::Miniscript::from_str_with_validation_params(&s, &miniscript::ValidationParams::MAX) {
                Ok(m) => m,
                Err(_) => continue,
            };
        let script = ms.encode().to_bytes();
        let spk = ScriptBuf::from_bytes(script.clone()).to_p2wsh();
        let spend = Spend::simple(spk, 200, 200);
        let txc = spend.txc();
        let env = Env::new(&txc, SigVersion::WitnessV0, Flags::STANDARD, script.clone(), None, &world.secp);
        // alphabet: basics + sigs of both keys + key bytes + preimage
        let mut assets = crate::world::Assets::new(
            world,
            &spend,
            crate::world::EcdsaMode::Segwit(ScriptBuf::from_bytes(script.clone())),
        );
        assets.keys.extend(0..world.keys.len());
        let mut alpha = Alphabet::with_basics(false);
        for k in frag.keys() {
            let pk = bitcoin::PublicKey::new(world.keys[k.id].pk);
            if let Some(sig) = assets.ecdsa_sig(&pk) {
                alpha.add(sig.to_vec(), Tag::Sig);
            }
            
            alpha.add(pk.to_bytes(), Tag::Key);
        }
        alpha.add(world.pre[0].pre.to_vec(), Tag::Preimage);
        let ops = Rc::new(parse(&script).unwrap());
        let cfg_s = SearchCfg { max_steps: 2_000_000, max_vars: 4, max_results: 100_000 };
        let lazy = search::search(ops.clone(), &env, &alpha, &cfg_s, Finish::ExactlyOneTrue, i64::MAX);
        if lazy.exhausted_budget {
            rep.inconclusive("selftest-search-budget");
            continue;
        }
        let mut lazy_set: Vec<Vec<Vec<u8>>> = lazy.found.iter().map(|f| f.stack.clone()).collect();
        lazy_set.sort();
        lazy_set.dedup();
        // brute force: all stacks of length 0..=4 over the alphabet
        let items: Vec<Vec<u8>> = alpha.items.iter().map(|(v, _)| (**v).clone()).collect();
        let mut brute: Vec<Vec<Vec<u8>>> = vec![];
        let mut total = 0u64;
        let a = items.len();
        for len in 0..=4usize {
            let count = a.pow(len as u32);
            if total + count as u64 > 400_000 {
                break;
            }
            for mut idx in 0..count {
                let mut st = Vec::with_capacity(len);
                for _ in 0..len {
                    st.push(items[idx % a].clone());
                    idx /= a;
                }
                total += 1;
                let mut m = Machine::new(ops.clone(), st.clone(), false, 0);
                if run_to_end(&mut m, &env).is_ok()
                    && m.stack.len() == 1
                    && m.resolve(&m.stack[0]).map(|b| cast_to_bool(&b)).unwrap_or(false)
                {
                    brute.push(st);
                }
            }
        }
        brute.sort();
        brute.dedup();
        rep.eval();
        // every brute-force witness (len<=4 fully enumerated) must be found by the lazy search,
        // and every lazy witness of length <= the enumerated length must be in the brute set
        let max_len_enumerated = {
            let mut t = 0u64;
            let mut l = 0;
            for len in 0..=4usize {
                t += a.pow(len as u32) as u64;
                if t > 400_000 {
                    break;
                }
                l = len;
            }
            l
        };
        let lazy_small: Vec<&Vec<Vec<u8>>> =
            lazy_set.iter().filter(|w| w.len() <= max_len_enumerated).collect();
        let brute_refs: Vec<&Vec<Vec<u8>>> = brute.iter().collect();
        // a lazily found witness leaves never-inspected elements empty; brute force finds all
        // variants. Compare: lazy ⊆ brute and brute nonempty ⇔ lazy nonempty.
        for w in &lazy_small {
            if !brute_refs.contains(w) {
                fail(rep, "search-unsound", format!("{}: lazy witness not confirmed by enumeration", s));
            }
        }
        if brute.is_empty() != lazy_small.is_empty() {
            fail(
                rep,
                "search-incomplete",
                format!("{}: enumeration found {} witnesses (len<={}), lazy search {}", s, brute.len(), max_len_enumerated, lazy_small.len()),
            );
        } else {
            rep.count("search-agrees-with-enumeration");
            rep.add("enumerated-stacks", total);
            if !brute.is_empty() {
                rep.nontrivial(&format!("search:{}", s));
            }
        }
    }
}

pub fn run(cfg: &RunCfg, rep: &mut Report) {
    if cfg.shard != 0 {
        rep.sample("(selftest runs on shard 0)".into());
        return;
    }
    let world = World::new(cfg.seed);
    spec_vs_vectors(rep);
    real_tx_vectors(rep, &world);
    opcode_cases(rep, &world);
    search_vs_enumeration(rep, &world, cfg);
    rep.sample("spec model vs ms_tests.rs vectors; refvm vs mainnet tx f27eba16..; opcode cases; search vs enumeration".into());
}
