//! C03: non-malleable satisfactions of sane descriptors cannot be altered by third parties.
//! Oracle: lazy witness search with the adversary's alphabet must find no
//! accepted (scriptSig, witness) other than the one the library produced.

use super::c01::{case_cfg, for_each_satisfaction, is_sane, CaseRun};
use super::c02::has_choice;
use super::{guarded, Report, RunCfg, Tier};
use crate::frag::KeyForm;
use crate::refvm::search::{Alphabet, SearchCfg, Tag};
use crate::refvm::vm::Flags;
use crate::satcase::*;
use crate::target::{search_target, Target};
use crate::world::{hex, World};

/// Third-party alphabet for one path: every element of the original witness
/// (signatures tagged as such), the basic constants, all preimages of the script,
/// every public key of the descriptor (all encodings), one junk element.
pub fn adversary_alphabet(
    world: &World,
    case: &DescCase,
    orig_elems: &[Vec<u8>],
    known_sigs: &[Vec<u8>],
    include_two: bool,
) -> Alphabet {
    let mut a = Alphabet::with_basics(include_two);
    for e in orig_elems {
        if known_sigs.iter().any(|s| s == e) {
            a.add(e.clone(), Tag::Sig);
        }
    }
    for id in case.pre_ids() {
        a.add(world.pre[id].pre.to_vec(), Tag::Preimage);
    }
    for f in &case.frags {
        for k in f.keys() {
            let ki = &world.keys[k.id];
            match k.form {
                KeyForm::Compressed => a.add(ki.pk.serialize().to_vec(), Tag::Key),
                KeyForm::Uncompressed => a.add(ki.pk.serialize_uncompressed().to_vec(), Tag::Key),
                KeyForm::XOnly => a.add(ki.xonly.serialize().to_vec(), Tag::Key),
            }
        }
    }
    for e in orig_elems {
        a.add(e.clone(), Tag::Other);
    }
    a.add(vec![0x42; 33], Tag::Other);
    a
}

pub fn run(cfg: &RunCfg, rep: &mut Report) {
    let world = World::new(cfg.seed);
    let total = cfg.n_cases(5_000, 15_000);
    let ccfg = case_cfg(cfg.tier);
    let scfg = match cfg.tier {
        Tier::Quick => SearchCfg { max_steps: 200_000, max_vars: 40, max_results: 8 },
        Tier::Thorough => SearchCfg { max_steps: 1_000_000, max_vars: 60, max_results: 8 },
    };
    let (n_tl, max_worlds) = match cfg.tier {
        Tier::Quick => (2, 8),
        Tier::Thorough => (4, 24),
    };
    for i in cfg.cases(total) {
        let mut rng = cfg.case_rng(i);
        let case = gen_desc_case(&mut rng, &world, &ccfg);
        let desc = match guarded(|| parse_desc(&case.desc)) {
            Ok(Ok(d)) => d,
            _ => {
                rep.eval();
                rep.count("desc-rejected");
                continue;
            }
        };
        if !case
            .spec_types()
            .iter()
            .all(|t| matches!(t, Some(t) if t.base == crate::oracle::spec_types::Base::B))
        {
            continue;
        }
        // descriptors that fail the sanity rules are outside the property; they serve as a
        // positive control of the oracle (the adversary search should find second witnesses
        // for malleable scripts), counted but never judged.
        let mut control = !is_sane(&desc);
        // The same secret key in two encodings (compressed / uncompressed) is two different
        // `Pk` values for the library's duplicate-key rule, but an ECDSA signature verifies
        // under both encodings. Such descriptors are not "sane" in the sense of the property
        // (a key is reused); they are treated as controls, not judged.
        {
            let mut seen: std::collections::BTreeMap<usize, KeyForm> = Default::default();
            for f in &case.frags {
                for k in f.keys() {
                    if let Some(prev) = seen.insert(k.id, k.form) {
                        if prev != k.form {
                            control = true;
                            rep.count("same-key-two-encodings(treated as control)");
                        }
                    }
                }
            }
        }
        let target = match Target::from_descriptor(&desc) {
            Ok(t) => t,
            Err(_) => continue,
        };
        let choice = has_choice(&case);
        let run = CaseRun { case: &case, desc: &desc, target: &target };
        for_each_satisfaction(
            &world,
            &mut rng,
            &run,
            n_tl,
            max_worlds,
            rep,
            i,
            |rep, p, spend, assets| {
                // the direct satisfier, with the harness's lock-time answers and with the library's
                // own lock-time satisfiers
                if (p.flow != "get_satisfaction" && p.flow != "builtin-locktime-satisfiers") || p.standard.is_err() {
                    return;
                }
                if control != p.mall {
                    return;
                }
                let log = assets.log.borrow().clone();
                let mut known_sigs: Vec<Vec<u8>> = log.ecdsa.values().cloned().collect();
                known_sigs.extend(log.schnorr.values().cloned());
                // elements of the original witness and scriptSig pushes
                let mut elems: Vec<Vec<u8>> = p.witness.clone();
                if let Ok(ops) = crate::refvm::script::parse(&p.script_sig) {
                    for o in ops {
                        if let crate::refvm::script::Op::Push { data, .. } = o {
                            elems.push(data);
                        }
                    }
                }
                let include_two = matches!(case.kind, DescKind::Sh | DescKind::Bare | DescKind::Pk | DescKind::Pkh);
                let r = search_target(&target, spend, Flags::STANDARD, &world.secp, &scfg, |_path| {
                    adversary_alphabet(&world, &case, &elems, &known_sigs, include_two)
                });
                rep.add("search-steps", r.steps as u64);
                rep.add("search-paths", r.paths as u64);
                if r.unconfirmed > 0 {
                    rep.violation(
                        i,
                        "ORACLE:search-result-unconfirmed".into(),
                        format!("search result failed concrete re-verification on {}", case.desc),
                    );
                }
                let mut found_orig = false;
                let mut other = None;
                for f in &r.found {
                    if f.script_sig == p.script_sig && f.witness == p.witness {
                        found_orig = true;
                    } else if case.kind == DescKind::Tr
                        && f.witness.len() == p.witness.len()
                        && f.witness.len() >= 2
                        && f.witness[..f.witness.len() - 1] == p.witness[..p.witness.len() - 1]
                    {
                        // the same leaf script occurs twice in the tree: only the Merkle proof differs.
                        // That is a property of the descriptor the user wrote (a duplicated leaf), not of
                        // the satisfaction the library chose: counted, not judged.
                        rep.count("control(duplicate tap leaf): same stack and script, other control block");
                    } else if other.is_none() {
                        other = Some(f.clone());
                    }
                }
                if control {
                    rep.count(if other.is_some() {
                        "control(insane descriptor): second witness found"
                    } else {
                        "control(insane descriptor): no second witness"
                    });
                    return;
                }
                if let Some(f) = other {
                    rep.violation(
                        i,
                        format!("C03:second-witness:{:?}", case.kind),
                        format!(
                            "{} [keys={:#x} pre={:#x} nLockTime={} nSequence={:#x}] non-malleable witness [{}] scriptSig={} can be replaced by a third party with path {} witness [{}] scriptSig={}",
                            case.desc, p.key_mask, p.pre_mask, p.lock_time, p.sequence,
                            p.witness.iter().map(|w| hex(w)).collect::<Vec<_>>().join(","), hex(&p.script_sig),
                            f.path_index,
                            f.witness.iter().map(|w| hex(w)).collect::<Vec<_>>().join(","), hex(&f.script_sig)
                        ),
                    );
                } else if r.inconclusive {
                    rep.inconclusive("search-budget");
                } else if !found_orig {
                    rep.violation(
                        i,
                        "ORACLE:search-incomplete".into(),
                        format!("the adversary search did not re-find the library's own witness for {}", case.desc),
                    );
                } else {
                    rep.count("unique-witness-confirmed");
                    if choice {
                        rep.nontrivial(&format!(
                            "{}|{}|{}|{}|{}",
                            case.desc, p.key_mask, p.pre_mask, p.lock_time, p.sequence
                        ));
                        if rep.samples.len() < rep.max_samples && rep.evaluations % 211 == 0 {
                            rep.sample(format!("{} keys={:#x}: unique among {} explored paths", case.desc, p.key_mask, r.paths));
                        }
                    }
                }
            },
            |_rep, _flow, _mall, _spend, _assets, _km, _pm| {},
        );
    }
    if rep.samples.is_empty() {
        rep.sample("(see counters)".into());
    }
}
