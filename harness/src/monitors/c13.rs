//! C13: the transaction interpreter agrees with real script execution.

use std::collections::BTreeMap;

use miniscript::bitcoin;
use miniscript::interpreter::{HashLockType, Interpreter, KeySigPair, SatisfiedConstraint};

use bitcoin::hashes::Hash;
use bitcoin::sighash::Prevouts;
use bitcoin::{ScriptBuf, Witness};

use super::c01::{case_cfg, describe, for_each_satisfaction, is_sane, CaseRun, Produced};
use super::{guarded, last_panic_loc, norm_loc, Report, RunCfg, Tier};
use crate::prng::Rng;
use crate::refvm::verify::{SpendKind, Verified};
use crate::refvm::vm::{Fail, Flags};
use crate::satcase::*;
use crate::target::Target;
use crate::world::{hex, Assets, Spend, World};

#[derive(Debug, Clone, PartialEq, Eq, PartialOrd, Ord)]
pub enum Cons {
    Sig(Vec<u8>, Vec<u8>),
    Hash(Vec<u8>, Vec<u8>),
    After(u32),
    Older(u32),
}

pub struct InterpOutcome {
    pub accepted: bool,
    pub constraints: Vec<Cons>,
    pub error: Option<String>,
    pub inferred_spk: Option<Vec<u8>>,
}

pub fn run_interpreter(
    world: &World,
    spk: &[u8],
    script_sig: &[u8],
    witness: &[Vec<u8>],
    spend: &Spend,
) -> Result<InterpOutcome, String> {
    let spk = ScriptBuf::from_bytes(spk.to_vec());
    let ss = ScriptBuf::from_bytes(script_sig.to_vec());
    let wit = Witness::from_slice(witness);
    let seq = spend.tx.input[spend.idx].sequence;
    let lt = spend.tx.lock_time;
    guarded(std::panic::AssertUnwindSafe(|| {
        let interp = match Interpreter::from_txdata(&spk, &ss, &wit, seq, lt) {
            Ok(i) => i,
            Err(e) => {
                return InterpOutcome {
                    accepted: false,
                    constraints: vec![],
                    error: Some(format!("from_txdata: {}", e)),
                    inferred_spk: None,
                }
            }
        };
        let prevouts = Prevouts::All(&spend.prevouts);
        let mut cons = vec![];
        let mut error = None;
        for item in interp.iter(&world.secp, &spend.tx, spend.idx, &prevouts) {
            match item {
                Ok(c) => cons.push(match c {
                    SatisfiedConstraint::PublicKey { key_sig }
                    | SatisfiedConstraint::PublicKeyHash { key_sig, .. } => match key_sig {
                        KeySigPair::Ecdsa(pk, sig) => Cons::Sig(pk.to_bytes(), sig.to_vec()),
                        KeySigPair::Schnorr(pk, sig) => Cons::Sig(pk.serialize().to_vec(), sig.to_vec()),
                    },
                    SatisfiedConstraint::HashLock { hash, preimage } => {
                        let h = match hash {
                            HashLockType::Sha256(h) => h.to_byte_array().to_vec(),
                            HashLockType::Hash256(h) => h.to_byte_array().to_vec(),
                            HashLockType::Hash160(h) => h.to_byte_array().to_vec(),
                            HashLockType::Ripemd160(h) => h.to_byte_array().to_vec(),
                        };
                        Cons::Hash(h, preimage.to_vec())
                    }
                    SatisfiedConstraint::RelativeTimelock { n } => Cons::Older(n.to_consensus_u32()),
                    SatisfiedConstraint::AbsoluteTimelock { n } => Cons::After(n.to_consensus_u32()),
                }),
                Err(e) => {
                    error = Some(e.to_string());
                    break;
                }
            }
        }
        let inferred_spk = interp.inferred_descriptor().ok().map(|d| d.script_pubkey().to_bytes());
        InterpOutcome { accepted: error.is_none(), constraints: cons, error, inferred_spk }
    }))
}

/// What the VM trace says was checked and satisfied.
pub fn vm_constraints(v: &Verified) -> Vec<Cons> {
    let mut out = vec![];
    for (k, s, ok) in &v.trace.sig_checks {
        if *ok {
            out.push(Cons::Sig(k.clone(), s.clone()));
        }
    }
    for (idx, (_, pre, digest)) in v.trace.hash_ops.iter().enumerate() {
        // a hash lock is satisfied when its digest then compared equal (EQUAL / EQUALVERIFY);
        // key hashes (pk_h) also do, but their preimage is the key of a signature check
        let is_key = v.trace.sig_checks.iter().any(|(k, _, _)| k == pre);
        if !is_key && v.trace.hash_matched.contains(&idx) {
            out.push(Cons::Hash(digest.clone(), pre.clone()));
        }
    }
    for n in &v.trace.cltv {
        out.push(Cons::After(*n as u32));
    }
    for n in &v.trace.csv {
        // the interpreter reports a relative::LockTime, which only has the bits BIP-68/112 give a
        // meaning to: the executed operand is compared by that meaning
        out.push(Cons::Older((*n as u32) & ((1 << 22) | 0xffff)));
    }
    out.sort();
    out
}


/// Re-sign: replace every signature of `log_old` occurring in the elements by the
/// signature of the same key in `assets_new`.
fn resign(
    elems: &[Vec<u8>],
    old: &crate::world::SigLog,
    new_assets: &Assets,
    target: &Target,
    leaf_of: Option<bitcoin::taproot::TapLeafHash>,
) -> Vec<Vec<u8>> {
    let mut map: BTreeMap<Vec<u8>, Vec<u8>> = BTreeMap::new();
    for (pk, sig) in &old.ecdsa {
        if let Ok(pk) = bitcoin::PublicKey::from_slice(pk) {
            if let Some(ns) = new_assets.ecdsa_sig(&pk) {
                map.insert(sig.clone(), ns.to_vec());
            }
        }
    }
    for ((x, leaf), sig) in &old.schnorr {
        if let Ok(xo) = bitcoin::secp256k1::XOnlyPublicKey::from_slice(x) {
            let lh = leaf.map(bitcoin::taproot::TapLeafHash::from_byte_array);
            let _ = leaf_of;
            if let Some(ns) = new_assets.schnorr_sig(&xo, lh, target.tr_merkle_root) {
                map.insert(sig.clone(), ns.to_vec());
            }
        }
    }
    elems.iter().map(|e| map.get(e).cloned().unwrap_or_else(|| e.clone())).collect()
}

pub fn mutate(rng: &mut Rng, w: &[Vec<u8>], pool: &[Vec<u8>]) -> Vec<Vec<u8>> {
    let mut w = w.to_vec();
    let steps = 1 + rng.below(3);
    for _ in 0..steps {
        if w.is_empty() {
            w.push(rng.pick(pool).clone());
            continue;
        }
        let i = rng.below(w.len());
        match rng.below(9) {
            7 => {
                // one more byte at the end of an element (a hash type byte on a signature, among others)
                let b = *rng.pick(&[0x00u8, 0x01, 0x02, 0x03, 0x81, 0x83]);
                w[i].push(b);
            }
            8 => {
                w[i].pop();
            }
            0 => {
                w.remove(i);
            }
            1 => {
                let e = w[i].clone();
                w.insert(i, e);
            }
            2 => {
                let j = rng.below(w.len());
                w.swap(i, j);
            }
            3 => w[i] = vec![],
            4 => w[i] = vec![1],
            5 => w[i] = rng.pick(pool).clone(),
            _ => w.insert(i, rng.pick(pool).clone()),
        }
    }
    w
}

pub fn run(cfg: &RunCfg, rep: &mut Report) {
    let world = World::new(cfg.seed);
    let total = cfg.n_cases(3_000, 50_000);
    let ccfg = case_cfg(cfg.tier);
    let (n_tl, max_worlds, n_mut) = match cfg.tier {
        Tier::Quick => (3, 8, 6),
        Tier::Thorough => (6, 24, 16),
    };
    for i in cfg.cases(total) {
        let mut rng = cfg.case_rng(i);
        let mut mrng = cfg.case_rng(i ^ 0x1357_0000_0000);
        let case = gen_desc_case(&mut rng, &world, &ccfg);
        let desc = match guarded(|| parse_desc(&case.desc)) {
            Ok(Ok(d)) => d,
            _ => {
                rep.eval();
                rep.count("desc-rejected");
                continue;
            }
        };
        if !case
            .spec_types()
            .iter()
            .all(|t| matches!(t, Some(t) if t.base == crate::oracle::spec_types::Base::B))
        {
            continue;
        }
        let target = match Target::from_descriptor(&desc) {
            Ok(t) => t,
            Err(_) => continue,
        };
        let sane = is_sane(&desc);
        let run = CaseRun { case: &case, desc: &desc, target: &target };
        let (afters, olders) = case.timelocks();
        for_each_satisfaction(
            &world,
            &mut rng,
            &run,
            n_tl,
            max_worlds,
            rep,
            i,
            |rep, p: &Produced, spend, assets| {
                if p.flow != "get_satisfaction" {
                    return;
                }
                let v = match &p.standard {
                    Ok(v) => v,
                    Err(_) => return,
                };
                // (1) the interpreter must accept the library's own satisfaction (sane descriptors)
                let out = match run_interpreter(&world, &target.spk, &p.script_sig, &p.witness, spend) {
                    Ok(o) => o,
                    Err(m) => {
                        rep.violation(
                            i,
                            format!("C13:panic:{}", norm_loc(&last_panic_loc())),
                            format!("interpreter panicked ({}) on {}", m, describe(p, &case)),
                        );
                        return;
                    }
                };
                if !out.accepted {
                    if sane {
                        rep.violation(
                            i,
                            format!("C13:rejects-library-satisfaction:{:?}", case.kind),
                            format!("interpreter rejects ({}) the library's own satisfaction: {}", out.error.clone().unwrap_or_default(), describe(p, &case)),
                        );
                    } else {
                        rep.count("interp-rejects-insane-satisfaction(info)");
                    }
                } else {
                    rep.count("interp-accepts-library-satisfaction");
                    rep.nontrivial(&format!(
                        "acc|{}|{}|{}|{}|{}|{}",
                        case.desc, p.key_mask, p.pre_mask, p.lock_time, p.sequence, p.mall
                    ));
                    compare_constraints(rep, i, &out, v, &|| describe(p, &case), &format!("{:?}", case.kind));
                    // information only (not part of the property): does inferred_descriptor()
                    // reproduce the spent scriptPubKey?
                    match &out.inferred_spk {
                        Some(s) if *s == target.spk => rep.count("info:inferred-descriptor-reproduces-spk"),
                        Some(_) => rep.count("info:inferred-descriptor-other-spk"),
                        None => rep.count("info:inferred-descriptor-unavailable"),
                    }
                }
                // (2) mutated witnesses / scriptSigs: accept => refvm accepts under CONSENSUS
                let log = assets.log.borrow().clone();
                // other spellings of false and true (zero bytes, negative zero, non-minimal one) next to the canonical ones
                let mut pool: Vec<Vec<u8>> = vec![vec![], vec![1], vec![0; 32], vec![0x42; 33], vec![0], vec![0], vec![0, 0], vec![0x80], vec![1, 0], vec![2]];
                pool.extend(log.ecdsa.values().cloned());
                pool.extend(log.schnorr.values().cloned());
                pool.extend(p.witness.iter().cloned());
                for id in case.pre_ids() {
                    pool.push(world.pre[id].pre.to_vec());
                }
                // split into the mutable stack part and the fixed tail
                let (stack, tail_w, is_ss): (Vec<Vec<u8>>, Vec<Vec<u8>>, bool) = match v.kind {
                    SpendKind::P2wsh | SpendKind::P2shP2wsh => {
                        let n = p.witness.len();
                        (p.witness[..n - 1].to_vec(), p.witness[n - 1..].to_vec(), false)
                    }
                    SpendKind::TrScript => {
                        let n = p.witness.len();
                        (p.witness[..n - 2].to_vec(), p.witness[n - 2..].to_vec(), false)
                    }
                    SpendKind::P2wpkh | SpendKind::P2shP2wpkh | SpendKind::TrKey => (p.witness.clone(), vec![], false),
                    SpendKind::Bare | SpendKind::P2sh => {
                        let mut elems = vec![];
                        if let Ok(ops) = crate::refvm::script::parse(&p.script_sig) {
                            for o in ops {
                                if let crate::refvm::script::Op::Push { data, .. } = o {
                                    elems.push(data);
                                }
                            }
                        }
                        if v.kind == SpendKind::P2sh && !elems.is_empty() {
                            let t = elems.pop().unwrap();
                            (elems, vec![t], true)
                        } else {
                            (elems, vec![], true)
                        }
                    }
                };
                for _ in 0..n_mut {
                    let m = mutate(&mut mrng, &stack, &pool);
                    if m == stack {
                        continue;
                    }
                    let (ss, w) = if is_ss {
                        let mut s = vec![];
                        for e in m.iter().chain(tail_w.iter()) {
                            crate::refvm::script::push_minimal(&mut s, e);
                        }
                        (s, vec![])
                    } else {
                        let mut w = m.clone();
                        w.extend(tail_w.iter().cloned());
                        (p.script_sig.clone(), w)
                    };
                    judge_pair(rep, i, &world, &target, &case, &ss, &w, spend, "mutated-witness");
                }
                // (2b) scriptSig edits on witness spends: native witness programs need an empty
                // scriptSig, P2SH-wrapped ones exactly the one push of the redeem script
                if matches!(v.kind, SpendKind::P2wsh | SpendKind::P2wpkh | SpendKind::TrKey | SpendKind::TrScript | SpendKind::P2shP2wsh | SpendKind::P2shP2wpkh) {
                    let push = |items: &[&[u8]]| {
                        let mut s = vec![];
                        for it in items {
                            crate::refvm::script::push_minimal(&mut s, it);
                        }
                        s
                    };
                    let redeem: Vec<u8> = crate::refvm::script::parse(&p.script_sig)
                        .ok()
                        .and_then(|ops| ops.into_iter().rev().find_map(|o| if let crate::refvm::script::Op::Push { data, .. } = o { Some(data) } else { None }))
                        .unwrap_or_default();
                    let junk = mrng.pick(&pool).clone();
                    let mut variants: Vec<Vec<u8>> = vec![push(&[&junk]), push(&[&[]]), push(&[&[1]]), vec![0x61]];
                    if !redeem.is_empty() {
                        variants = vec![
                            push(&[&redeem, &redeem]),
                            push(&[&junk, &redeem]),
                            push(&[&[], &redeem]),
                            push(&[&[1], &redeem]),
                            [push(&[&redeem]), vec![0x51]].concat(),
                            [vec![0x61], push(&[&redeem])].concat(),
                            vec![],
                        ];
                    }
                    for ss in variants {
                        if ss == p.script_sig {
                            continue;
                        }
                        judge_pair(rep, i, &world, &target, &case, &ss, &p.witness, spend, "scriptsig-edit-on-witness-spend");
                    }
                }
                // (3) other lock-time worlds with re-signed witnesses
                if !afters.is_empty() || !olders.is_empty() {
                    for _ in 0..3 {
                        let tlw = timelock_worlds(&mut mrng, &case, 6);
                        let (lt, seq) = *mrng.pick(&tlw);
                        if lt == p.lock_time && seq == p.sequence {
                            continue;
                        }
                        let spend2 = Spend::simple(ScriptBuf::from_bytes(target.spk.clone()), lt, seq);
                        let assets2 = make_assets(&world, &spend2, &target, &case, p.key_mask, p.pre_mask);
                        let w2 = resign(&p.witness, &log, &assets2, &target, None);
                        // scriptSig pushes
                        let ss2 = if is_ss {
                            let mut elems = vec![];
                            if let Ok(ops) = crate::refvm::script::parse(&p.script_sig) {
                                for o in ops {
                                    if let crate::refvm::script::Op::Push { data, .. } = o {
                                        elems.push(data);
                                    }
                                }
                            }
                            let e2 = resign(&elems, &log, &assets2, &target, None);
                            let mut s = vec![];
                            for e in &e2 {
                                crate::refvm::script::push_minimal(&mut s, e);
                            }
                            s
                        } else {
                            p.script_sig.clone()
                        };
                        judge_pair(rep, i, &world, &target, &case, &ss2, &w2, &spend2, "other-locktime-world");
                    }
                }
            },
            |_rep, _flow, _mall, _spend, _assets, _km, _pm| {},
        );
    }
    if rep.samples.is_empty() {
        rep.sample("(see counters)".into());
    }
}

fn compare_constraints(
    rep: &mut Report,
    case: u64,
    out: &InterpOutcome,
    v: &Verified,
    detail: &dyn Fn() -> String,
    kind: &str,
) {
    let mut a = out.constraints.clone();
    a.sort();
    let b = vm_constraints(v);
    if a != b {
        rep.violation(
            case,
            format!("C13:constraints-differ:{}", kind),
            format!("interpreter reports {:?} but the executed path checked {:?}: {}", short(&a), short(&b), detail()),
        );
    } else {
        rep.count("constraints-equal-vm-trace");
    }
}

fn short(c: &[Cons]) -> Vec<String> {
    c.iter()
        .map(|x| match x {
            Cons::Sig(k, s) => format!("sig({}..,{}..)", hex(&k[..4.min(k.len())]), hex(&s[..6.min(s.len())])),
            Cons::Hash(h, p) => format!("hash({}..,{}..)", hex(&h[..4]), hex(&p[..4])),
            Cons::After(n) => format!("after({})", n),
            Cons::Older(n) => format!("older({})", n),
        })
        .collect()
}

#[allow(clippy::too_many_arguments)]
fn judge_pair(
    rep: &mut Report,
    case_idx: u64,
    world: &World,
    target: &Target,
    case: &DescCase,
    ss: &[u8],
    w: &[Vec<u8>],
    spend: &Spend,
    what: &'static str,
) {
    rep.eval();
    let out = match run_interpreter(world, &target.spk, ss, w, spend) {
        Ok(o) => o,
        Err(m) => {
            rep.violation(
                case_idx,
                format!("C13:panic:{}", norm_loc(&last_panic_loc())),
                format!("interpreter panicked ({}) on {} scriptSig={} witness=[{}]", m, case.desc, hex(ss), w.iter().map(|e| hex(e)).collect::<Vec<_>>().join(",")),
            );
            return;
        }
    };
    if !out.accepted {
        rep.count(&format!("{}:interp-rejects", what));
        return;
    }
    let lt = spend.tx.lock_time.to_consensus_u32();
    let seq = spend.tx.input[spend.idx].sequence.0;
    match target.verify(ss, w, spend, Flags::CONSENSUS, &world.secp) {
        Ok(v) => {
            rep.count(&format!("{}:both-accept", what));
            rep.nontrivial(&format!("{}|{}|{}|{}|{}", what, case.desc, hex(ss), w.len(), lt ^ seq));
            compare_constraints(
                rep,
                case_idx,
                &out,
                &v,
                &|| format!("{} [{}] nLockTime={} nSequence={:#x} scriptSig={} witness=[{}]", case.desc, what, lt, seq, hex(ss), w.iter().map(|e| hex(e)).collect::<Vec<_>>().join(",")),
                &format!("{:?}", case.kind),
            );
        }
        Err(f) if f.is_unsupported() => rep.inconclusive("vm-unsupported"),
        Err(f) => {
            // limits are not the interpreter's business (documented: it does not check them)
            if matches!(f, Fail::Limit(_)) {
                rep.count("interp-accepts-beyond-limits(info)");
                return;
            }
            rep.violation(
                case_idx,
                format!("C13:false-accept:{:?}:{}:{}", case.kind, f.category(), f.detail().replace(' ', "-")),
                format!(
                    "interpreter accepts but real execution fails ({}: {}): {} [{}] nLockTime={} nSequence={:#x} scriptSig={} witness=[{}]",
                    f.category(), f.detail(), case.desc, what, lt, seq, hex(ss),
                    w.iter().map(|e| hex(e)).collect::<Vec<_>>().join(",")
                ),
            );
        }
    }
}
