//! C19: equality, ordering and hashing are structural and mutually consistent.
//! Oracle: structural identity := identical canonical string form.

use std::cmp::Ordering;
use std::collections::hash_map::DefaultHasher;
use std::collections::{BTreeSet, HashSet};
use std::fmt::Display;
use std::hash::{Hash, Hasher};
use std::str::FromStr;

use miniscript::policy::{Concrete, Semantic};
use miniscript::{BareCtx, Descriptor, Legacy, Miniscript, ScriptContext, Segwitv0, Tap, ValidationParams};

use super::{guarded, last_panic_loc, norm_loc, Report, RunCfg, Tier};
use crate::frag::{mutate_frag, AbstractNames, Cx, Frag, Gen, GenCfg, KeyForm, KeyRef};
use crate::oracle::spec_types::Base;
use crate::pol::*;
use crate::prng::Rng;

fn h<T: Hash>(t: &T) -> u64 {
    let mut s = DefaultHasher::new();
    t.hash(&mut s);
    s.finish()
}

/// All laws on an (a, b, c) triple of one type. `kind` names the type for the keys.
fn laws<T>(rep: &mut Report, case: u64, kind: &str, a: &T, b: &T, c: &T, how: &str)
where
    T: Eq + Ord + Hash + Clone + Display + std::panic::RefUnwindSafe,
{
    rep.eval();
    let (sa, sb, sc) = (a.to_string(), b.to_string(), c.to_string());
    // no call may panic
    let r = guarded(|| {
        let eq_ab = a == b;
        let eq_ba = b == a;
        let cmp_ab = a.cmp(b);
        let cmp_ba = b.cmp(a);
        let cmp_bc = b.cmp(c);
        let cmp_ac = a.cmp(c);
        let (ha, hb) = (h(a), h(b));
        let cl = a.clone();
        let clone_eq = cl == *a;
        let clone_str = cl.to_string();
        let clone_hash = h(&cl);
        let refl = a == a && a.cmp(a) == Ordering::Equal;
        (eq_ab, eq_ba, cmp_ab, cmp_ba, cmp_bc, cmp_ac, ha, hb, clone_eq, clone_str, clone_hash, refl)
    });
    let (eq_ab, eq_ba, cmp_ab, cmp_ba, cmp_bc, cmp_ac, ha, hb, clone_eq, clone_str, clone_hash, refl) = match r {
        Ok(x) => x,
        Err(m) => {
            rep.violation(
                case,
                format!("C19:panic:{}:{}", kind, norm_loc(&last_panic_loc())),
                format!("==/cmp/hash/clone panicked ({}) on a = {} , b = {} , c = {} [{}]", m, sa, sb, sc, how),
            );
            return;
        }
    };
    let same = sa == sb;
    let pair = || format!("a = {} , b = {} [{}]", sa, sb, how);
    if same {
        rep.count(&format!("identical-pairs:{}", kind));
    } else {
        rep.count(&format!("different-pairs:{}", kind));
        rep.nontrivial(&format!("{}|{}|{}", kind, sa, sb));
    }
    if eq_ab != same {
        rep.violation(
            case,
            format!("C19:eq-vs-structure:{}:{}", kind, if eq_ab { "equal-but-different" } else { "different-but-identical" }),
            format!("a == b is {} but string identity is {}: {}", eq_ab, same, pair()),
        );
    }
    if eq_ab != eq_ba {
        rep.violation(case, format!("C19:eq-not-symmetric:{}", kind), pair());
    }
    if (cmp_ab == Ordering::Equal) != eq_ab {
        rep.violation(
            case,
            format!("C19:cmp-equal-vs-eq:{}", kind),
            format!("a.cmp(b) = {:?} but a == b is {}: {}", cmp_ab, eq_ab, pair()),
        );
    }
    if cmp_ab != cmp_ba.reverse() {
        rep.violation(case, format!("C19:cmp-not-antisymmetric:{}", kind), format!("a.cmp(b) = {:?}, b.cmp(a) = {:?}: {}", cmp_ab, cmp_ba, pair()));
    }
    // transitivity
    if cmp_ab != Ordering::Greater && cmp_bc != Ordering::Greater && cmp_ac == Ordering::Greater {
        rep.violation(case, format!("C19:cmp-not-transitive:{}", kind), format!("a<=b, b<=c but a>c: a = {} b = {} c = {}", sa, sb, sc));
    }
    if cmp_ab != Ordering::Less && cmp_bc != Ordering::Less && cmp_ac == Ordering::Less {
        rep.violation(case, format!("C19:cmp-not-transitive:{}", kind), format!("a>=b, b>=c but a<c: a = {} b = {} c = {}", sa, sb, sc));
    }
    if eq_ab && ha != hb {
        rep.violation(case, format!("C19:equal-but-hash-differs:{}", kind), pair());
    }
    if same && ha != hb {
        rep.violation(case, format!("C19:identical-but-hash-differs:{}", kind), pair());
    }
    if !clone_eq || clone_str != sa || clone_hash != ha {
        rep.violation(case, format!("C19:clone:{}", kind), format!("clone of {} is {} (== {}, hash equal {})", sa, clone_str, clone_eq, clone_hash == ha));
    }
    if !refl {
        rep.violation(case, format!("C19:not-reflexive:{}", kind), sa.clone());
    }
}

/// Sorting / dedup / set laws on a bag of values.
fn bag_laws<T>(rep: &mut Report, case: u64, kind: &str, items: &[T])
where
    T: Eq + Ord + Hash + Clone + Display + std::panic::RefUnwindSafe,
{
    rep.eval();
    let distinct: BTreeSet<String> = items.iter().map(|x| x.to_string()).collect();
    let r = guarded(|| {
        let mut v: Vec<T> = items.to_vec();
        v.sort();
        let sorted_ok = v.windows(2).all(|w| w[0] <= w[1]);
        v.dedup();
        let bt: BTreeSet<&T> = items.iter().collect();
        let hs: HashSet<&T> = items.iter().collect();
        // transitivity over every triple of the bag (a cycle can hide from pairwise checks and from sort)
        let mut cycle: Option<(usize, usize, usize)> = None;
        let n = items.len().min(10);
        'tri: for x in 0..n {
            for y in 0..n {
                if items[x].cmp(&items[y]) != Ordering::Less {
                    continue;
                }
                for z in 0..n {
                    if items[y].cmp(&items[z]) == Ordering::Less && items[x].cmp(&items[z]) != Ordering::Less {
                        cycle = Some((x, y, z));
                        break 'tri;
                    }
                }
            }
        }
        (v.len(), bt.len(), hs.len(), sorted_ok, cycle)
    });
    match r {
        Err(m) => rep.violation(case, format!("C19:panic:bag:{}:{}", kind, norm_loc(&last_panic_loc())), format!("sort/dedup/sets panicked ({}) on {:?}", m, distinct)),
        Ok((d, b, hcount, sorted_ok, cycle)) => {
            if let Some((x, y, z)) = cycle {
                rep.violation(case, format!("C19:cmp-not-transitive:{}", kind), format!("a < b and b < c but not a < c: a = {} b = {} c = {}", items[x], items[y], items[z]));
            }
            if d != distinct.len() || b != distinct.len() || hcount != distinct.len() || !sorted_ok {
                rep.violation(
                    case,
                    format!("C19:collections:{}", kind),
                    format!(
                        "{} distinct string forms but sort+dedup keeps {}, BTreeSet {}, HashSet {} (sorted ok: {}): {:?}",
                        distinct.len(), d, b, hcount, sorted_ok, distinct
                    ),
                );
            } else {
                rep.count(&format!("collections-consistent:{}", kind));
            }
        }
    }
}

fn parse_ms<Ctx: ScriptContext>(f: &Frag) -> Option<Miniscript<String, Ctx>> {
    let s = f.to_string_with(&AbstractNames);
    guarded(move || Miniscript::<String, Ctx>::from_str_with_validation_params(&s, &ValidationParams::MAX).ok())
        .ok()
        .flatten()
}

fn ms_case<Ctx: ScriptContext>(rep: &mut Report, case: u64, cx: Cx, frags: &[(Frag, String)])
where
    Miniscript<String, Ctx>: std::panic::RefUnwindSafe,
{
    let parsed: Vec<(Miniscript<String, Ctx>, &String)> =
        frags.iter().filter_map(|(f, how)| parse_ms::<Ctx>(f).map(|m| (m, how))).collect();
    if parsed.len() < 2 {
        rep.count("too-few-parseable");
        return;
    }
    let kind = format!("miniscript:{}", cx.name());
    for i in 0..parsed.len() {
        for j in 0..parsed.len() {
            let k = (i + j + 1) % parsed.len();
            laws(rep, case, &kind, &parsed[i].0, &parsed[j].0, &parsed[k].0, parsed[j].1);
            laws(rep, case, "terminal", &parsed[i].0.node, &parsed[j].0.node, &parsed[k].0.node, parsed[j].1);
        }
    }
    let items: Vec<Miniscript<String, Ctx>> = parsed.iter().map(|p| p.0.clone()).collect();
    bag_laws(rep, case, &kind, &items);
}

/// `Semantic` has no `Hash` impl; the wrapper hashes the string form (neutral for the laws).
#[derive(Clone, PartialEq, Eq, PartialOrd, Ord)]
struct SemW(Semantic<String>);
impl Hash for SemW {
    fn hash<H: Hasher>(&self, s: &mut H) { self.0.to_string().hash(s) }
}
impl Display for SemW {
    fn fmt(&self, f: &mut std::fmt::Formatter) -> std::fmt::Result { self.0.fmt(f) }
}

fn mutate_pol(rng: &mut Rng, p: &mut Pol) -> bool {
    // walk to a random node
    fn nodes(p: &mut Pol, out: &mut Vec<*mut Pol>) {
        out.push(p as *mut Pol);
        match p {
            Pol::And(xs) | Pol::Thresh(_, xs) => xs.iter_mut().for_each(|x| nodes(x, out)),
            Pol::Or(xs) => xs.iter_mut().for_each(|(_, x)| nodes(x, out)),
            _ => {}
        }
    }
    let mut ptrs = vec![];
    nodes(p, &mut ptrs);
    for _ in 0..10 {
        let ptr = *rng.pick(&ptrs);
        // SAFETY: pointers come from a unique &mut traversal and exactly one is dereferenced at a time.
        let node: &mut Pol = unsafe { &mut *ptr };
        let done = match node {
            Pol::Thresh(k, xs) => match rng.below(4) {
                0 if *k + 1 < xs.len() => {
                    *k += 1;
                    true
                }
                1 if *k > 2 => {
                    *k -= 1;
                    true
                }
                2 => {
                    xs.push(Pol::Atom(Atom::Key(7)));
                    true
                }
                3 if xs.len() > 3 && *k + 1 < xs.len() => {
                    xs.pop();
                    true
                }
                _ => false,
            },
            Pol::Or(xs) => match rng.below(3) {
                0 => {
                    xs[0].0 += 1;
                    true
                }
                1 => {
                    xs.reverse();
                    true
                }
                _ => false,
            },
            Pol::And(xs) if rng.coin() => {
                xs.reverse();
                true
            }
            Pol::Atom(Atom::Key(i)) => {
                *i = (*i + 1) % 8;
                true
            }
            Pol::Atom(Atom::After(t)) => {
                *t += 1;
                true
            }
            Pol::Atom(Atom::Older(t)) => {
                *t += 1;
                true
            }
            Pol::Trivial => {
                *node = Pol::Unsat;
                true
            }
            _ => false,
        };
        if done {
            return true;
        }
    }
    false
}

pub fn run(cfg: &RunCfg, rep: &mut Report) {
    let total = cfg.n_cases(12_000, 300_000);
    let max_nodes = if cfg.tier == Tier::Thorough { 24 } else { 10 };
    for i in cfg.cases(total) {
        let mut rng = cfg.case_rng(i);
        let cx = Cx::ALL[rng.below(4)];
        // --- miniscripts / terminals
        let mut gc = GenCfg::new(cx, max_nodes);
        gc.repeat_keys = true;
        let budget = 1 + rng.below(max_nodes);
        let want = *rng.pick(&[Base::B, Base::B, Base::B, Base::V, Base::K, Base::W]);
        let a = {
            let mut g = Gen::new(&mut rng, gc.clone());
            g.gen(want, budget)
        };
        // one case in ten starts from nested andor / and_n shapes (wrapper sugar inside sugar)
        let a = if i % 10 == 3 && want == Base::B {
            let form = if cx == Cx::Tap { KeyForm::XOnly } else { KeyForm::Compressed };
            let k = |n: usize| Box::new(Frag::Check(Box::new(Frag::PkK(KeyRef { id: n, form }))));
            let z = || Box::new(Frag::False);
            match rng.below(4) {
                0 => Frag::AndOr(k(0), Box::new(Frag::AndOr(k(1), k(2), z())), k(3)),
                1 => Frag::AndOr(k(0), Box::new(Frag::AndOr(k(1), k(2), k(3))), z()),
                2 => Frag::AndOr(Box::new(Frag::AndOr(k(0), k(1), z())), k(2), k(3)),
                _ => Frag::AndOr(Box::new(Frag::AndOr(k(0), k(1), k(2))), k(3), z()),
            }
        } else {
            a
        };
        let fresh = KeyRef { id: 9, form: KeyForm::Compressed };
        let mut frags: Vec<(Frag, String)> = vec![(a.clone(), "original".into()), (a.clone(), "identical copy".into())];
        for _ in 0..3 {
            let mut b = a.clone();
            if let Some(what) = mutate_frag(&mut rng, &mut b, fresh) {
                frags.push((b, what.to_string()));
            }
        }
        {
            let mut g = Gen::new(&mut rng, gc.clone());
            let b2 = 1 + g.rng.below(max_nodes);
            frags.push((g.gen(want, b2), "independent".into()));
        }
        match cx {
            Cx::Bare => ms_case::<BareCtx>(rep, i, cx, &frags),
            Cx::Legacy => ms_case::<Legacy>(rep, i, cx, &frags),
            Cx::Segwitv0 => ms_case::<Segwitv0>(rep, i, cx, &frags),
            Cx::Tap => ms_case::<Tap>(rep, i, cx, &frags),
        }
        if rep.samples.len() < rep.max_samples && i % 499 == 0 {
            rep.sample(format!(
                "[{}] {}",
                cx.name(),
                frags.iter().map(|(f, h)| format!("{} <{}>", f.to_string_with(&AbstractNames), h)).collect::<Vec<_>>().join(" ; ")
            ));
        }

        // --- descriptors (String keys): same fragments under the wrappers of their context
        if want == Base::B {
            let wrap: Vec<Box<dyn Fn(&str) -> String>> = match cx {
                Cx::Segwitv0 => vec![Box::new(|m| format!("wsh({})", m)), Box::new(|m| format!("sh(wsh({}))", m))],
                Cx::Legacy => vec![Box::new(|m| format!("sh({})", m))],
                Cx::Tap => vec![
                    Box::new(|_| "tr(KI)".to_string()),
                    Box::new(|m| format!("tr(KI,{})", m)),
                    Box::new(|m| format!("tr(KI,{{{},pk(KX)}})", m)),
                    Box::new(|m| format!("tr(KI,{{pk(KX),{}}})", m)),
                    Box::new(|m| format!("tr(KI,{{{{pk(KX),{}}},pk(KY)}})", m)),
                    Box::new(|m| format!("tr(KI,{{pk(KX),{{{},pk(KY)}}}})", m)),
                ],
                Cx::Bare => vec![],
            };
            let mut descs: Vec<(Descriptor<String>, String)> = vec![];
            for w in &wrap {
                for (f, how) in &frags {
                    let s = w(&f.to_string_with(&AbstractNames));
                    if let Ok(Ok(d)) = guarded(|| Descriptor::<String>::from_str(&s)) {
                        descs.push((d, how.clone()));
                    }
                }
            }
            // values that were USED (scripts, addresses, spend info computed: caches filled) against
            // fresh equal values: use must not change equality, order or hash
            if cx == Cx::Tap && i % 4 == 0 {
                let world = crate::world::World::new(rep.cfg.seed);
                let mut used: Vec<Descriptor<crate::world::Dk>> = vec![];
                for w in wrap.iter().take(3) {
                    for (f, _) in frags.iter().take(2) {
                        let s = w(&f.to_string_with(&world)).replace("KI", &world.keys[5].xonly_hex).replace("KX", &world.keys[6].xonly_hex).replace("KY", &world.keys[7].xonly_hex);
                        let parse = || guarded(|| Descriptor::<crate::world::Dk>::from_str(&s)).ok().and_then(|r| r.ok());
                        if let (Some(d1), Some(d2), Some(d3)) = (parse(), parse(), parse()) {
                            let _ = guarded(std::panic::AssertUnwindSafe(|| (d1.script_pubkey(), d1.address(miniscript::bitcoin::Network::Bitcoin).ok())));
                            if let Descriptor::Tr(t) = &d3 {
                                let _ = guarded(std::panic::AssertUnwindSafe(|| t.spend_info().leaves().count()));
                            }
                            laws(rep, i, "descriptor-after-use", &d1, &d2, &d3, "same text: a used (script_pubkey, address), b fresh, c used (spend_info)");
                            used.push(d1);
                            used.push(d2);
                        }
                    }
                }
                if used.len() >= 3 {
                    bag_laws(rep, i, "descriptor-after-use", &used);
                }
            }
            if descs.len() >= 3 {
                for x in 0..descs.len().min(8) {
                    for y in 0..descs.len().min(8) {
                        let z = (x + y + 1) % descs.len();
                        laws(rep, i, "descriptor", &descs[x].0, &descs[y].0, &descs[z].0, &descs[y].1);
                        if let (Descriptor::Tr(tx), Descriptor::Tr(ty), Descriptor::Tr(tz)) = (&descs[x].0, &descs[y].0, &descs[z].0) {
                            if let (Some(a), Some(b), Some(c)) = (tx.tap_tree(), ty.tap_tree(), tz.tap_tree()) {
                                laws(rep, i, "taptree", a, b, c, &descs[y].1);
                            }
                        }
                    }
                }
                let items: Vec<Descriptor<String>> = descs.iter().map(|d| d.0.clone()).collect();
                bag_laws(rep, i, "descriptor", &items);
            }
        }

        // --- policies
        let nm = AbstractPolNames;
        let pcfg = PolGenCfg {
            max_leaves: 8,
            n_keys: 6,
            n_hash: 2,
            concrete: true,
            constants: rng.coin(),
            repeat_atoms: true,
            timelocks: true,
            hashes: true,
            max_depth: 4,
            timelock_heavy: false,
        };
        let leaves = 1 + rng.below(8);
        let p = PolGen::new(&mut rng, pcfg.clone()).gen(leaves, 0);
        let mut pols = vec![(p.clone(), "original"), (p.clone(), "identical copy")];
        for _ in 0..3 {
            let mut q = p.clone();
            if mutate_pol(&mut rng, &mut q) {
                pols.push((q, "mutated"));
            }
        }
        let l2 = 1 + rng.below(8);
        pols.push((PolGen::new(&mut rng, pcfg).gen(l2, 0), "independent"));
        let conc: Vec<(Concrete<String>, &str)> = pols
            .iter()
            .filter_map(|(q, how)| {
                let s = q.concrete(&nm);
                guarded(move || Concrete::<String>::from_str(&s).ok()).ok().flatten().map(|c| (c, *how))
            })
            .collect();
        let sem: Vec<(SemW, &str)> = pols
            .iter()
            .filter_map(|(q, how)| {
                let s = q.semantic(&nm);
                guarded(move || Semantic::<String>::from_str(&s).ok()).ok().flatten().map(|c| (SemW(c), *how))
            })
            .collect();
        for x in 0..conc.len() {
            for y in 0..conc.len() {
                let z = (x + y + 1) % conc.len();
                laws(rep, i, "concrete-policy", &conc[x].0, &conc[y].0, &conc[z].0, conc[y].1);
            }
        }
        for x in 0..sem.len() {
            for y in 0..sem.len() {
                let z = (x + y + 1) % sem.len();
                laws(rep, i, "semantic-policy", &sem[x].0, &sem[y].0, &sem[z].0, sem[y].1);
            }
        }
        // thresholds over child lists that are prefixes of one another, with every k: orderings that
        // compare children before k and n, or k before the children, disagree exactly here
        if i % 3 == 0 {
            let m = 2 + rng.below(2);
            let base: Vec<Pol> = (0..m).map(|j| Pol::Atom(crate::pol::Atom::Key(j))).collect();
            let mut lists: Vec<Vec<Pol>> = vec![base.clone()];
            for extra in [m, m + 1] {
                let mut l = base.clone();
                l.push(Pol::Atom(crate::pol::Atom::Key(extra)));
                lists.push(l);
            }
            let mut fam: Vec<Pol> = vec![];
            for l in &lists {
                for k in 1..=l.len() {
                    fam.push(if k == 1 {
                        Pol::Or(l.iter().map(|c| (1usize, c.clone())).collect())
                    } else if k == l.len() {
                        Pol::And(l.clone())
                    } else {
                        Pol::Thresh(k, l.clone())
                    });
                }
            }
            rng.shuffle(&mut fam);
            fam.truncate(10);
            let sems: Vec<SemW> = fam.iter().filter_map(|q| Semantic::<String>::from_str(&q.semantic(&nm)).ok().map(SemW)).collect();
            if sems.len() >= 3 {
                bag_laws(rep, i, "semantic-policy", &sems);
            }
            let concs: Vec<Concrete<String>> = fam
                .iter()
                .filter_map(|q| match q {
                    Pol::Thresh(k, l) => Concrete::<String>::from_str(&format!("thresh({},{})", k, l.iter().map(|c| c.concrete(&nm)).collect::<Vec<_>>().join(","))).ok(),
                    Pol::And(l) => Some(Concrete::And(l.iter().filter_map(|c| Concrete::<String>::from_str(&c.concrete(&nm)).ok().map(std::sync::Arc::new)).collect())),
                    Pol::Or(l) => Some(Concrete::Or(l.iter().filter_map(|(w, c)| Concrete::<String>::from_str(&c.concrete(&nm)).ok().map(|x| (*w, std::sync::Arc::new(x)))).collect())),
                    _ => None,
                })
                .collect();
            if concs.len() >= 3 {
                bag_laws(rep, i, "concrete-policy", &concs);
            }
        }
        if conc.len() >= 2 {
            // Concrete policies have no Hash impl requirement in the property beyond eq/ord; bag laws need Hash
            let items: Vec<Concrete<String>> = conc.iter().map(|c| c.0.clone()).collect();
            bag_laws(rep, i, "concrete-policy", &items);
        }
    }
    if rep.samples.is_empty() {
        rep.sample("(see counters)".into());
    }
}
