#![allow(deprecated)]
//! C17: spending plans are faithful to the satisfier and report exact time locks.

use std::collections::{BTreeSet, HashMap};
use std::str::FromStr;

use miniscript::bitcoin;
use miniscript::plan::{Assets as LibAssets, CanSign, TaprootAvailableLeaves, TaprootCanSign};
use miniscript::{DescriptorPublicKey, ForEachKey, Satisfier, ToPublicKey};

use bitcoin::hashes::{hash160, ripemd160, sha256, Hash};
use bitcoin::taproot::TapLeafHash;
use bitcoin::{absolute, relative, ScriptBuf, Sequence};

use super::c01::case_cfg;
use super::{guarded, last_panic_loc, norm_loc, Report, RunCfg, Tier};
use crate::frag::{KeyForm, KeyRef, Names};
use crate::oracle::bip341::compact_size;
use crate::refvm::vm::Flags;
use crate::satcase::*;
use crate::target::Target;
use crate::world::{hex, Assets, Dk, Spend, World};

/// Names that print some key ids as definite xpub expressions.
pub struct XNames<'w> {
    pub world: &'w World,
    pub map: HashMap<usize, String>,
}
impl Names for XNames<'_> {
    fn key(&self, k: &KeyRef) -> String {
        if k.form != KeyForm::Uncompressed {
            if let Some(s) = self.map.get(&k.id) {
                return s.clone();
            }
        }
        self.world.key(k)
    }
    fn sha256(&self, i: usize) -> String { Names::sha256(self.world, i) }
    fn hash256(&self, i: usize) -> String { Names::hash256(self.world, i) }
    fn ripemd160(&self, i: usize) -> String { Names::ripemd160(self.world, i) }
    fn hash160(&self, i: usize) -> String { Names::hash160(self.world, i) }
}

/// A satisfier that has exactly the availability the library `Assets` describes, and signs
/// over `spend`. Time locks are answered from the *asset* maxima (like `Assets`), not the tx.
struct PlanSat<'a, 'w> {
    assets: &'a Assets<'w>,
    target: &'a Target,
    max_abs: Option<u32>,
    max_rel: Option<u32>,
    /// per leaf restriction of schnorr signing: None = any
    leaves: Option<BTreeSet<TapLeafHash>>,
    key_spend: bool,
    ecdsa: bool,
    /// key sources the party can sign with (documented `Assets` semantics: the key's full
    /// derivation path equals the source path or extends it by exactly one step)
    sources: Vec<(bitcoin::bip32::Fingerprint, bitcoin::bip32::DerivationPath)>,
}

impl PlanSat<'_, '_> {
    fn covered(&self, pk: &Dk) -> bool {
        let fp = pk.master_fingerprint();
        pk.full_derivation_paths().iter().any(|kp| {
            self.sources.iter().any(|(sfp, sp)| {
                *sfp == fp && (sp == kp || (kp.len() > 0 && sp.as_ref() == &kp[..kp.len() - 1]))
            })
        })
    }
}

impl<'a, 'w> Satisfier<Dk> for PlanSat<'a, 'w> {
    fn lookup_ecdsa_sig(&self, pk: &Dk) -> Option<bitcoin::ecdsa::Signature> {
        if !self.ecdsa || !self.covered(pk) {
            return None;
        }
        self.assets.ecdsa_sig(&pk.to_public_key())
    }
    fn lookup_tap_key_spend_sig(&self, pk: &Dk) -> Option<bitcoin::taproot::Signature> {
        if !self.key_spend || !self.covered(pk) {
            return None;
        }
        self.assets.schnorr_sig(&pk.to_x_only_pubkey(), None, self.target.tr_merkle_root)
    }
    fn lookup_tap_leaf_script_sig(&self, pk: &Dk, lh: &TapLeafHash) -> Option<bitcoin::taproot::Signature> {
        if !self.covered(pk) {
            return None;
        }
        if let Some(l) = &self.leaves {
            if !l.contains(lh) {
                return None;
            }
        }
        self.assets.schnorr_sig(&pk.to_x_only_pubkey(), Some(*lh), None)
    }
    fn lookup_sha256(&self, h: &sha256::Hash) -> Option<[u8; 32]> {
        self.assets.world.pre.iter().enumerate().find(|(i, p)| p.sha256 == h.to_byte_array() && self.assets.pre.contains(i)).map(|(_, p)| p.pre)
    }
    fn lookup_hash256(&self, h: &miniscript::hash256::Hash) -> Option<[u8; 32]> {
        self.assets.world.pre.iter().enumerate().find(|(i, p)| p.hash256 == h.to_byte_array() && self.assets.pre.contains(i)).map(|(_, p)| p.pre)
    }
    fn lookup_ripemd160(&self, h: &ripemd160::Hash) -> Option<[u8; 32]> {
        self.assets.world.pre.iter().enumerate().find(|(i, p)| p.ripemd160 == h.to_byte_array() && self.assets.pre.contains(i)).map(|(_, p)| p.pre)
    }
    fn lookup_hash160(&self, h: &hash160::Hash) -> Option<[u8; 32]> {
        self.assets.world.pre.iter().enumerate().find(|(i, p)| p.hash160 == h.to_byte_array() && self.assets.pre.contains(i)).map(|(_, p)| p.pre)
    }
    fn check_older(&self, n: relative::LockTime) -> bool {
        match self.max_rel {
            None => false,
            Some(m) => {
                let n = n.to_consensus_u32();
                (n & (1 << 22)) == (m & (1 << 22)) && (n & 0xffff) <= (m & 0xffff)
            }
        }
    }
    fn check_after(&self, n: absolute::LockTime) -> bool {
        match self.max_abs {
            None => false,
            Some(m) => {
                let n = n.to_consensus_u32();
                (n < 500_000_000) == (m < 500_000_000) && n <= m
            }
        }
    }
}

/// `Assets::add(key expression)` must register every path the expression stands for (all
/// multipath alternatives), and a descriptor derived from that very expression must then be
/// plannable: the caller owns the key.
fn assets_add_case(rep: &mut Report, case: u64, world: &World, rng: &mut crate::prng::Rng) {
    let k = world.gen_xkey(rng, true, true, false);
    let dpk = match DescriptorPublicKey::from_str(&k.text) {
        Ok(d) => d,
        Err(_) => return,
    };
    rep.eval();
    let d2 = dpk.clone();
    let assets = match guarded(std::panic::AssertUnwindSafe(move || LibAssets::new().add(d2))) {
        Ok(a) => a,
        Err(m) => {
            rep.violation(case, format!("C17:panic:Assets::add:{}", norm_loc(&last_panic_loc())), format!("{} on {}", m, k.text));
            return;
        }
    };
    let n_alt = k.n_multipath.max(1);
    let fp = dpk.master_fingerprint();
    let mut missing = vec![];
    for alt in 0..n_alt {
        let mut path: Vec<u32> = if k.has_origin { k.origin_path.clone() } else { vec![] };
        for st in &k.steps {
            path.push(if st.len() == 1 { st[0] } else { st[alt % st.len()] });
        }
        let dp: bitcoin::bip32::DerivationPath = path.iter().map(|c| bitcoin::bip32::ChildNumber::from(*c)).collect::<Vec<_>>().into();
        if !assets.keys.iter().any(|((f, p), _)| *f == fp && *p == dp) {
            missing.push(format!("{}", dp));
        }
    }
    if !missing.is_empty() {
        rep.violation(case, "C17:assets-add-misses-paths".into(), format!("Assets::new().add({}) does not register the key source(s) {:?} (registered: {:?})", k.text, missing, assets.keys.iter().map(|((f, p), _)| format!("{}/{}", f, p)).collect::<Vec<_>>()));
        return;
    }
    rep.count("assets-add-registers-every-alternative");
    // plan a descriptor made of the same expression, for every alternative
    let s = format!("wpkh({})", k.text);
    let planned = guarded(std::panic::AssertUnwindSafe(|| -> Result<usize, String> {
        let d = miniscript::Descriptor::<DescriptorPublicKey>::from_str(&s).map_err(|e| e.to_string())?;
        let singles = d.into_single_descriptors().map_err(|e| e.to_string())?;
        let mut n = 0;
        for sd in singles {
            let def = if sd.has_wildcard() { sd.at_derivation_index(7).map_err(|e| e.to_string())? } else { sd.at_derivation_index(0).map_err(|e| e.to_string())? };
            match def.into_plan(&assets) {
                Ok(_) => n += 1,
                Err(_) => return Err(format!("alternative {} of {} is not plannable", n, s)),
            }
        }
        Ok(n)
    }));
    match planned {
        Ok(Ok(n)) => {
            rep.count("own-key-expression-plannable");
            rep.nontrivial(&format!("own|{}|{}", s, n));
        }
        Ok(Err(e)) if e.contains("not plannable") => rep.violation(case, "C17:own-key-not-plannable".into(), format!("with Assets::new().add({}): {}", k.text, e)),
        Ok(Err(_)) => rep.count("own-key-expression-not-derivable"),
        Err(m) => rep.violation(case, format!("C17:panic:own-key-plan:{}", norm_loc(&last_panic_loc())), format!("{} on {}", m, s)),
    }
}

pub fn run(cfg: &RunCfg, rep: &mut Report) {
    let world = World::new(cfg.seed);
    let total = cfg.n_cases(4_000, 60_000);
    let ccfg = case_cfg(cfg.tier);
    let n_worlds = if cfg.tier == Tier::Thorough { 24 } else { 8 };
    for i in cfg.cases(total) {
        let mut rng = cfg.case_rng(i);
        {
            let mut r2 = cfg.case_rng(i ^ 0x1700_0000_0000);
            assets_add_case(rep, i, &world, &mut r2);
        }
        // some keys are printed as definite xpub expressions
        let mut map = HashMap::new();
        let mut asset_expr: HashMap<usize, Vec<String>> = HashMap::new();
        for id in 0..world.keys.len() {
            if rng.chance(1, 3) {
                let k = world.gen_xkey(&mut rng, false, false, false);
                let mut path = k.origin_path.clone();
                for s in &k.steps {
                    path.push(s[0]);
                }
                let cn: Vec<bitcoin::bip32::ChildNumber> = path.iter().map(|c| bitcoin::bip32::ChildNumber::from(*c)).collect();
                world.register_derived(&bitcoin::bip32::DerivationPath::from(cn), id);
                // asset forms: the exact key, and (if it has a last step) its parent with a wildcard
                let mut forms = vec![k.text.clone()];
                if let Some(pos) = k.text.rfind('/') {
                    if !k.steps.is_empty() {
                        forms.push(format!("{}/*", &k.text[..pos]));
                    }
                }
                asset_expr.insert(id, forms);
                map.insert(id, k.text);
            }
        }
        let names = XNames { world: &world, map };
        let case = gen_desc_case_with(&mut rng, &world, &ccfg, &names);
        let desc = match guarded(|| parse_desc(&case.desc)) {
            Ok(Ok(d)) => d,
            _ => {
                rep.eval();
                rep.count("desc-rejected");
                continue;
            }
        };
        if !case.spec_types().iter().all(|t| matches!(t, Some(t) if t.base == crate::oracle::spec_types::Base::B)) {
            continue;
        }
        let target = match Target::from_descriptor(&desc) {
            Ok(t) => t,
            Err(_) => continue,
        };
        // the descriptor's keys as DescriptorPublicKey, by logical id
        let mut dpk_by_id: HashMap<usize, Vec<DescriptorPublicKey>> = HashMap::new();
        {
            let mut all: Vec<Dk> = vec![];
            desc.for_each_key(|k| {
                all.push(k.clone());
                true
            });
            for k in all {
                let x = k.to_x_only_pubkey().serialize();
                if let Some(owner) = world.owner_of(&x) {
                    dpk_by_id.entry(owner).or_default().push(k.into_descriptor_public_key());
                }
            }
        }
        let key_ids = case.key_ids();
        let pre_ids = case.pre_ids();
        let (afters, olders) = case.timelocks();
        let leaf_hashes: Vec<TapLeafHash> = target.paths.iter().filter_map(|p| p.leaf_hash).collect();
        for w in 0..n_worlds {
            rep.eval();
            let km = if w == 0 { u64::MAX } else { rng.next_u64() };
            let pm = if w == 0 { u64::MAX } else { rng.next_u64() };
            // asset maxima: around the script's time locks
            let max_abs = if afters.is_empty() || rng.chance(1, 6) {
                None
            } else {
                let a = *rng.pick(&afters);
                Some(*rng.pick(&[a, a.saturating_sub(1).max(1), a.saturating_add(1), 499_999_999, 500_000_000u32 + 10, 0x7fff_ffff]))
            };
            let max_rel = if olders.is_empty() || rng.chance(1, 6) {
                None
            } else {
                let o = *rng.pick(&olders);
                Some(*rng.pick(&[o, (o & !0xffff) | (o & 0xffff).saturating_sub(1).max(1), (o & !0xffff) | ((o & 0xffff) + 1).min(0xffff), 65_535, (1 << 22) | 65_535]))
            };
            let restrict_leaves = !leaf_hashes.is_empty() && rng.chance(1, 4);
            let leaves: Option<BTreeSet<TapLeafHash>> = if restrict_leaves {
                Some(leaf_hashes.iter().filter(|_| rng.coin()).cloned().collect())
            } else {
                None
            };
            let key_spend = !rng.chance(1, 5);
            let ecdsa = !rng.chance(1, 12);
            let sighash_default = !rng.chance(1, 5);
            // --- the library's Assets
            let mut lib = LibAssets::new();
            let mut avail_ids = BTreeSet::new();
            for (n, id) in key_ids.iter().enumerate() {
                if km & (1 << n) == 0 {
                    continue;
                }
                avail_ids.insert(*id);
                let can = CanSign {
                    ecdsa,
                    taproot: TaprootCanSign {
                        key_spend,
                        script_spend: match &leaves {
                            None => TaprootAvailableLeaves::Any,
                            Some(l) if l.is_empty() => TaprootAvailableLeaves::None,
                            Some(l) if l.len() == 1 => TaprootAvailableLeaves::Single(*l.iter().next().unwrap()),
                            Some(l) => {
                                // the list is the caller's: any order
                                let mut v: Vec<TapLeafHash> = l.iter().cloned().collect();
                                rng.shuffle(&mut v);
                                TaprootAvailableLeaves::Many(v)
                            }
                        },
                        sighash_default,
                    },
                };
                // every expression this id appears as in the descriptor (or its wildcard parent)
                let mut exprs: Vec<DescriptorPublicKey> = dpk_by_id.get(id).cloned().unwrap_or_default();
                if let Some(forms) = asset_expr.get(id) {
                    if forms.len() > 1 && rng.coin() {
                        if let Ok(p) = DescriptorPublicKey::from_str(&forms[1]) {
                            exprs = vec![p];
                        }
                    }
                }
                // the same rights, written either as one entry or as one entry per leaf (the asset
                // set is a set of (key source, rights) pairs: a key may be registered several times)
                let mut cans = vec![can.clone()];
                if let Some(l) = &leaves {
                    if l.len() >= 2 && rng.chance(1, 2) {
                        cans = l
                            .iter()
                            .map(|lh| CanSign { ecdsa, taproot: TaprootCanSign { key_spend, script_spend: TaprootAvailableLeaves::Single(*lh), sighash_default } })
                            .collect();
                        rep.count("assets: one entry per allowed leaf for the same key");
                    }
                }
                for e in exprs {
                    for path in e.full_derivation_paths() {
                        for c in &cans {
                            lib.keys.insert(((e.master_fingerprint(), path.clone()), c.clone()));
                        }
                    }
                }
            }
            let mut avail_pre = BTreeSet::new();
            for (n, id) in pre_ids.iter().enumerate() {
                if pm & (1 << n) != 0 {
                    avail_pre.insert(*id);
                    let p = &world.pre[*id];
                    lib.sha256_preimages.insert(sha256::Hash::from_byte_array(p.sha256));
                    lib.hash256_preimages.insert(miniscript::hash256::Hash::from_byte_array(p.hash256));
                    lib.ripemd160_preimages.insert(ripemd160::Hash::from_byte_array(p.ripemd160));
                    lib.hash160_preimages.insert(hash160::Hash::from_byte_array(p.hash160));
                }
            }
            if let Some(a) = max_abs {
                lib = lib.after(absolute::LockTime::from_consensus(a));
            }
            if let Some(r) = max_rel {
                if let Ok(l) = relative::LockTime::from_sequence(Sequence(r)) {
                    lib = lib.older(l);
                }
            }
            for mall in [false, true] {
                let d2 = desc.clone();
                let lib2 = &lib;
                let plan = match guarded(std::panic::AssertUnwindSafe(move || if mall { d2.into_plan_mall(lib2) } else { d2.into_plan(lib2) })) {
                    Ok(p) => p.ok(),
                    Err(m) => {
                        rep.violation(i, format!("C17:panic:into_plan:{}", norm_loc(&last_panic_loc())), format!("into_plan panicked ({}) on {} with {:?}", m, case.desc, lib));
                        continue;
                    }
                };
                // the transaction uses exactly the reported lock times
                let (lt, seq) = match &plan {
                    Some(p) => (
                        p.absolute_timelock.map(|l| l.to_consensus_u32()).unwrap_or(0),
                        p.relative_timelock.map(|l| l.to_consensus_u32()).unwrap_or(if p.absolute_timelock.is_some() { 0xffff_fffe } else { 0xffff_ffff }),
                    ),
                    None => (0, 0xffff_ffff),
                };
                let spend = Spend::simple(ScriptBuf::from_bytes(target.spk.clone()), lt, seq);
                let mut assets = Assets::new(&world, &spend, target.ecdsa.clone());
                assets.keys = (0..world.keys.len()).collect();
                assets.pre = avail_pre.clone();
                if !sighash_default {
                    assets.tap_hashtype = bitcoin::sighash::TapSighashType::All;
                }
                let sources: Vec<_> = lib.keys.iter().map(|(ks, _)| ks.clone()).collect();
                let sat = PlanSat { assets: &assets, target: &target, max_abs, max_rel, leaves: leaves.clone(), key_spend, ecdsa, sources: sources.clone() };
                let direct = guarded(std::panic::AssertUnwindSafe(|| if mall { desc.get_satisfaction_mall(&sat) } else { desc.get_satisfaction(&sat) }));
                let direct = match direct {
                    Ok(d) => d.ok(),
                    Err(m) => {
                        rep.violation(i, format!("C17:panic:get_satisfaction:{}", norm_loc(&last_panic_loc())), format!("get_satisfaction panicked ({}) on {}", m, case.desc));
                        continue;
                    }
                };
                let ctx = || {
                    format!(
                        "{} [mall={} keys={:?} pre={:?} max_abs={:?} max_rel={:?} leaves={:?} key_spend={} ecdsa={} sighash_default={}]",
                        case.desc, mall, avail_ids, avail_pre, max_abs, max_rel, leaves.as_ref().map(|l| l.len()), key_spend, ecdsa, sighash_default
                    )
                };
                // (i) plan exists <=> satisfier succeeds
                if plan.is_some() != direct.is_some() {
                    rep.violation(
                        i,
                        format!("C17:plan-vs-satisfier:{:?}:{}", case.kind, if plan.is_some() { "plan-only" } else { "satisfier-only" }),
                        format!("into_plan{} is {} but get_satisfaction{} with the same availability is {}: {}", if mall { "_mall" } else { "" }, if plan.is_some() { "Ok" } else { "Err" }, if mall { "_mall" } else { "" }, if direct.is_some() { "Ok" } else { "Err" }, ctx()),
                    );
                    continue;
                }
                let (plan, direct) = match (plan, direct) {
                    (Some(p), Some(d)) => (p, d),
                    _ => {
                        rep.count("both-refuse");
                        continue;
                    }
                };
                rep.nontrivial(&format!("{}|{}|{:?}|{:?}|{:?}|{:?}|{}", case.desc, mall, avail_ids, avail_pre, max_abs, max_rel, w));
                let done = guarded(std::panic::AssertUnwindSafe(|| plan.satisfy(&sat)));
                let (witness, script_sig) = match done {
                    Ok(Ok(x)) => x,
                    Ok(Err(e)) => {
                        rep.violation(i, format!("C17:plan-cannot-be-completed:{:?}", case.kind), format!("Plan::satisfy fails ({}) with the satisfier the plan was made for: {}", e, ctx()));
                        continue;
                    }
                    Err(m) => {
                        rep.violation(i, format!("C17:panic:Plan::satisfy:{}", norm_loc(&last_panic_loc())), format!("Plan::satisfy panicked ({}) on {}", m, ctx()));
                        continue;
                    }
                };
                if witness != direct.0 || script_sig != direct.1 {
                    rep.violation(
                        i,
                        format!("C17:plan-differs-from-satisfier:{:?}", case.kind),
                        format!(
                            "Plan::satisfy gives witness [{}] scriptSig {} but get_satisfaction gives [{}] {}: {}",
                            witness.iter().map(|w| hex(w)).collect::<Vec<_>>().join(","), hex(script_sig.as_bytes()),
                            direct.0.iter().map(|w| hex(w)).collect::<Vec<_>>().join(","), hex(direct.1.as_bytes()), ctx()
                        ),
                    );
                } else {
                    rep.count("plan-equals-satisfier");
                }
                // (ii) sufficiency: the spend verifies with exactly the reported lock times
                let ss = script_sig.to_bytes();
                match target.verify(&ss, &witness, &spend, Flags::STANDARD, &world.secp) {
                    Ok(_) => rep.count("reported-locktimes-sufficient"),
                    Err(f) if f.is_unsupported() => rep.inconclusive("vm-unsupported"),
                    Err(f) => {
                        rep.violation(
                            i,
                            format!("C17:reported-locktimes-insufficient:{:?}:{}", case.kind, f.category()),
                            format!("with nLockTime={} nSequence={:#x} (as reported by the plan: abs={:?} rel={:?}) the spend fails ({}: {}): {}", lt, seq, plan.absolute_timelock, plan.relative_timelock, f.category(), f.detail(), ctx()),
                        );
                        continue;
                    }
                }
                // necessity: smaller value / other unit / nothing must fail (re-signed)
                let mut variants: Vec<(u32, u32, &str)> = vec![];
                if let Some(a) = plan.absolute_timelock.map(|l| l.to_consensus_u32()) {
                    if a > 1 && a != 500_000_000 {
                        variants.push((a - 1, seq, "abs-1"));
                    }
                    variants.push((if a < 500_000_000 { 500_000_000 + a } else { a - 500_000_000 + 1 }, seq, "abs-other-unit"));
                    variants.push((0, seq, "abs-zero"));
                    variants.push((a, 0xffff_ffff, "abs-final-sequence"));
                }
                if let Some(r) = plan.relative_timelock.map(|l| l.to_consensus_u32()) {
                    if r & 0xffff > 1 {
                        variants.push((lt, r - 1, "rel-1"));
                    }
                    variants.push((lt, r ^ (1 << 22), "rel-other-unit"));
                    variants.push((lt, r | (1 << 31), "rel-disabled"));
                }
                for (vlt, vseq, what) in variants {
                    let sp2 = Spend::simple(ScriptBuf::from_bytes(target.spk.clone()), vlt, vseq);
                    let mut a2 = Assets::new(&world, &sp2, target.ecdsa.clone());
                    a2.keys = (0..world.keys.len()).collect();
                    a2.pre = avail_pre.clone();
                    a2.tap_hashtype = assets.tap_hashtype;
                    let sat2 = PlanSat { assets: &a2, target: &target, max_abs, max_rel, leaves: leaves.clone(), key_spend, ecdsa, sources: sources.clone() };
                    if let Ok(Ok((w2, s2))) = guarded(std::panic::AssertUnwindSafe(|| plan.satisfy(&sat2))) {
                        rep.eval();
                        match target.verify(s2.as_bytes(), &w2, &sp2, Flags::STANDARD, &world.secp) {
                            Ok(_) => rep.violation(
                                i,
                                format!("C17:reported-locktime-not-necessary:{}", what),
                                format!("plan reports abs={:?} rel={:?} but the same witness (re-signed) also spends with nLockTime={} nSequence={:#x} ({}): {}", plan.absolute_timelock, plan.relative_timelock, vlt, vseq, what, ctx()),
                            ),
                            Err(_) => rep.count(&format!("necessary:{}", what)),
                        }
                    }
                }
                if plan.absolute_timelock.is_none() && plan.relative_timelock.is_none() {
                    rep.count("no-locktime-reported(verified with nLockTime=0, final sequence)");
                }
                // (iii) announced sizes
                let ssz = compact_size(ss.len()).len() + ss.len();
                let wsz = if witness.is_empty() { 0 } else { crate::refvm::verify::witness_serialized_size(&witness) };
                let script_item = match case.kind {
                    DescKind::Wsh | DescKind::ShWsh => {
                        let l = witness.last().map(|s| s.len()).unwrap_or(0);
                        compact_size(l).len() + l
                    }
                    _ => 0,
                };
                if ssz > plan.scriptsig_size() {
                    rep.violation(i, format!("C17:size-undershoot:scriptsig:{:?}", case.kind), format!("scriptSig {} bytes > announced {}: {}", ssz, plan.scriptsig_size(), ctx()));
                }
                if wsz > plan.witness_size() {
                    if script_item > 0 && wsz - script_item <= plan.witness_size() {
                        rep.violation(i, format!("C17:plan-size-omits-witness-script:{:?}", case.kind), format!("witness {} bytes > announced {} (witness script item not counted): {}", wsz, plan.witness_size(), ctx()));
                    } else {
                        rep.violation(i, format!("C17:size-undershoot:witness:{:?}", case.kind), format!("witness {} bytes > announced {}: {}", wsz, plan.witness_size(), ctx()));
                    }
                }
            }
        }
        if rep.samples.len() < rep.max_samples && i % 199 == 0 {
            rep.sample(case.desc.clone());
        }
    }
    if rep.samples.is_empty() {
        rep.sample("(see counters)".into());
    }
}
