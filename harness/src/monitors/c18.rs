//! C18: policy transformations preserve meaning. Oracle: truth tables over the
//! syntactic atoms (<= 8 distinct atoms => <= 256 assignments) and path enumeration.

use std::str::FromStr;

use miniscript::bitcoin::{absolute, relative, Sequence};
use miniscript::policy::{Concrete, Liftable, Semantic};

use super::{guarded, last_panic_loc, norm_loc, Report, RunCfg, Tier};
use crate::pol::*;

type Sem = Semantic<String>;

fn to_pol(s: &str) -> Result<Pol, String> {
    let (k, h) = abstract_lookup();
    parse_pol(s, &PolLookup { key: &k, hash: &h })
}

/// Compare two policies on all assignments of `atoms`; returns a distinguishing assignment.
fn differ(a: &Pol, b: &Pol, atoms: &[Atom], force_false: &dyn Fn(&Atom) -> bool) -> Option<u32> {
    let n = atoms.len();
    for mask in 0u32..(1u32 << n) {
        let raw = |x: &Atom| atoms.iter().position(|y| y == x).map(|i| mask & (1 << i) != 0).unwrap_or(false);
        let masked = |x: &Atom| raw(x) && !force_false(x);
        if a.eval(&masked) != b.eval(&raw) {
            return Some(mask);
        }
    }
    None
}

fn assignment_str(atoms: &[Atom], mask: u32) -> String {
    atoms
        .iter()
        .enumerate()
        .map(|(i, a)| format!("{:?}={}", a, (mask >> i) & 1))
        .collect::<Vec<_>>()
        .join(" ")
}

fn same_unit_rel(a: u32, b: u32) -> bool { (a & (1 << 22)) == (b & (1 << 22)) }

pub fn run(cfg: &RunCfg, rep: &mut Report) {
    let total = cfg.n_cases(40_000, 1_000_000);
    let max_leaves = if cfg.tier == Tier::Thorough { 9 } else { 7 };
    let nm = AbstractPolNames;
    for i in cfg.cases(total) {
        let mut rng = cfg.case_rng(i);
        let pcfg = PolGenCfg {
            max_leaves,
            n_keys: 5,
            n_hash: 2,
            concrete: false,
            constants: rng.chance(2, 3),
            repeat_atoms: rng.coin(),
            timelocks: true,
            hashes: true,
            max_depth: 4,
            timelock_heavy: rng.chance(1, 3),
        };
        let leaves = 1 + rng.below(max_leaves);
        let p = PolGen::new(&mut rng, pcfg.clone()).gen(leaves, 0);
        let atoms = p.atoms();
        if atoms.len() > 8 {
            continue;
        }
        let s = p.semantic(&nm);
        rep.eval();
        let sem = match guarded(|| Sem::from_str(&s)) {
            Ok(Ok(x)) => x,
            Ok(Err(_)) => {
                rep.count("semantic-parse-rejected");
                continue;
            }
            Err(m) => {
                rep.violation(i, format!("C18:panic:from_str:{}", norm_loc(&last_panic_loc())), format!("Semantic::from_str panicked ({}) on {}", m, s));
                continue;
            }
        };
        rep.nontrivial(&s);
        if rep.samples.len() < rep.max_samples && i % 1009 == 0 {
            rep.sample(s.clone());
        }
        let none = |_: &Atom| false;

        // normalized / sorted: equivalence + idempotence
        for (name, f) in [("normalized", Sem::normalized as fn(Sem) -> Sem), ("sorted", Sem::sorted as fn(Sem) -> Sem)] {
            let x = sem.clone();
            let r = guarded(move || {
                let once = f(x);
                let twice = f(once.clone());
                (once.to_string(), twice.to_string())
            });
            match r {
                Err(m) => rep.violation(i, format!("C18:panic:{}:{}", name, norm_loc(&last_panic_loc())), format!("{} panicked ({}) on {}", name, m, s)),
                Ok((once, twice)) => {
                    match to_pol(&once) {
                        Ok(q) => {
                            if let Some(mask) = differ(&q, &p, &atoms, &none) {
                                rep.violation(
                                    i,
                                    format!("C18:{}-changes-meaning", name),
                                    format!("{}({}) = {} differs at [{}]", name, s, once, assignment_str(&atoms, mask)),
                                );
                            } else {
                                rep.count(&format!("{}-equivalent", name));
                            }
                        }
                        Err(e) => rep.violation(i, format!("C18:{}-unparseable", name), format!("{}({}) = {} : {}", name, s, once, e)),
                    }
                    if once != twice {
                        rep.violation(i, format!("C18:{}-not-idempotent", name), format!("{}({}) = {} but applying it again gives {}", name, s, once, twice));
                    }
                }
            }
        }

        // at_age / at_lock_time
        for age in [1u32, 144, 65_535, (1 << 22) | 1, (1 << 22) | 100, 50] {
            let lt = match relative::LockTime::from_sequence(Sequence(age)) {
                Ok(l) => l,
                Err(_) => continue,
            };
            let x = sem.clone();
            match guarded(move || x.at_age(lt).to_string()) {
                Err(m) => rep.violation(i, format!("C18:panic:at_age:{}", norm_loc(&last_panic_loc())), format!("at_age({}) panicked ({}) on {}", age, m, s)),
                Ok(r) => match to_pol(&r) {
                    Ok(q) => {
                        let unmet = |a: &Atom| match a {
                            Atom::Older(t) => !(same_unit_rel(*t, age) && (t & 0xffff) <= (age & 0xffff)),
                            _ => false,
                        };
                        // q(σ) must equal p(σ with unmet older atoms forced false)
                        let n = atoms.len();
                        let mut bad = None;
                        for mask in 0u32..(1u32 << n) {
                            let raw = |x: &Atom| atoms.iter().position(|y| y == x).map(|k| mask & (1 << k) != 0).unwrap_or(false);
                            let forced = |x: &Atom| raw(x) && !unmet(x);
                            // the result must not mention an unmet lock any more: it is read with the RAW assignment
                            if q.eval(&raw) != p.eval(&forced) {
                                bad = Some(mask);
                                break;
                            }
                        }
                        if let Some(mask) = bad {
                            rep.violation(i, "C18:at_age-wrong".into(), format!("at_age({}) of {} = {} differs at [{}]", age, s, r, assignment_str(&atoms, mask)));
                        } else {
                            rep.count("at_age-exact");
                        }
                    }
                    Err(e) => rep.violation(i, "C18:at_age-unparseable".into(), format!("{} : {}", r, e)),
                },
            }
        }
        for n_lt in [1u32, 144, 499_999_999, 500_000_000, 500_000_010, 100] {
            let lt = absolute::LockTime::from_consensus(n_lt);
            let x = sem.clone();
            match guarded(move || x.at_lock_time(lt).to_string()) {
                Err(m) => rep.violation(i, format!("C18:panic:at_lock_time:{}", norm_loc(&last_panic_loc())), format!("at_lock_time({}) panicked ({}) on {}", n_lt, m, s)),
                Ok(r) => match to_pol(&r) {
                    Ok(q) => {
                        const T: u32 = 500_000_000;
                        let unmet = |a: &Atom| match a {
                            Atom::After(t) => !(((*t < T) == (n_lt < T)) && *t <= n_lt),
                            _ => false,
                        };
                        let n = atoms.len();
                        let mut bad = None;
                        for mask in 0u32..(1u32 << n) {
                            let raw = |x: &Atom| atoms.iter().position(|y| y == x).map(|k| mask & (1 << k) != 0).unwrap_or(false);
                            let forced = |x: &Atom| raw(x) && !unmet(x);
                            // the result must not mention an unmet lock any more: it is read with the RAW assignment
                            if q.eval(&raw) != p.eval(&forced) {
                                bad = Some(mask);
                                break;
                            }
                        }
                        if let Some(mask) = bad {
                            rep.violation(i, "C18:at_lock_time-wrong".into(), format!("at_lock_time({}) of {} = {} differs at [{}]", n_lt, s, r, assignment_str(&atoms, mask)));
                        } else {
                            rep.count("at_lock_time-exact");
                        }
                    }
                    Err(e) => rep.violation(i, "C18:at_lock_time-unparseable".into(), format!("{} : {}", r, e)),
                },
            }
        }

        // minimum_n_keys / n_keys
        {
            let occ = p.atom_occurrences();
            let key_occ: Vec<&Atom> = occ.iter().filter(|a| matches!(a, Atom::Key(_))).collect();
            let x = sem.clone();
            match guarded(move || (x.minimum_n_keys(), x.n_keys())) {
                Err(m) => rep.violation(i, format!("C18:panic:minimum_n_keys:{}", norm_loc(&last_panic_loc())), format!("minimum_n_keys panicked ({}) on {}", m, s)),
                Ok((mn, nk)) => {
                    if nk != key_occ.len() {
                        rep.violation(i, "C18:n_keys".into(), format!("n_keys({}) = {} but the string has {} key atoms", s, nk, key_occ.len()));
                    }
                    let mut distinct = key_occ.clone();
                    distinct.sort();
                    distinct.dedup();
                    let truth = p.min_keys();
                    if distinct.len() == key_occ.len() {
                        if mn != truth {
                            rep.violation(i, "C18:minimum_n_keys".into(), format!("minimum_n_keys({}) = {:?} but the fewest true key atoms over satisfying assignments is {:?}", s, mn, truth));
                        } else {
                            rep.count("minimum_n_keys-exact");
                        }
                    } else {
                        // repeated keys are double-counted by design; only satisfiability must agree
                        if mn.is_none() != truth.is_none() {
                            rep.violation(i, "C18:minimum_n_keys-satisfiability".into(), format!("minimum_n_keys({}) = {:?} but truth-table satisfiability says {:?}", s, mn, truth));
                        }
                    }
                }
            }
        }

        // entails: against a second policy over the same atom universe
        {
            let leaves2 = 1 + rng.below(max_leaves);
            let mut q = PolGen::new(&mut rng, pcfg.clone()).gen(leaves2, 0);
            if rng.chance(1, 4) {
                q = match rng.below(3) {
                    0 => Pol::Or(vec![(1, p.clone()), (1, q)]),
                    1 => Pol::And(vec![p.clone(), q]),
                    _ => p.clone(),
                };
            }
            let qs = q.semantic(&nm);
            if let Ok(Ok(qsem)) = guarded(|| Sem::from_str(&qs)) {
                let mut all = atoms.clone();
                for a in q.atoms() {
                    if !all.contains(&a) {
                        all.push(a);
                    }
                }
                if all.len() <= 10 {
                    for (a_name, a_pol, a_sem, b_name, b_pol, b_sem) in
                        [(&s, &p, sem.clone(), &qs, &q, qsem.clone()), (&qs, &q, qsem.clone(), &s, &p, sem.clone())]
                    {
                        rep.eval();
                        let truth = {
                            let n = all.len();
                            let mut t = true;
                            for mask in 0u32..(1u32 << n) {
                                let sg = |x: &Atom| all.iter().position(|y| y == x).map(|k| mask & (1 << k) != 0).unwrap_or(false);
                                if a_pol.eval(&sg) && !b_pol.eval(&sg) {
                                    t = false;
                                    break;
                                }
                            }
                            t
                        };
                        let n_term = a_pol.atom_occurrences().len();
                        match guarded(move || a_sem.entails(b_sem)) {
                            Err(m) => rep.violation(i, format!("C18:panic:entails:{}", norm_loc(&last_panic_loc())), format!("entails panicked ({}) on {} |- {}", m, a_name, b_name)),
                            Ok(None) => {
                                if n_term <= 20 {
                                    rep.violation(i, "C18:entails-none-below-limit".into(), format!("({}).entails({}) = None with only {} terminals", a_name, b_name, n_term));
                                }
                            }
                            Ok(Some(r)) => {
                                if r != truth {
                                    rep.violation(
                                        i,
                                        format!("C18:entails:{}", if truth { "says-false-but-implied" } else { "says-true-but-not-implied" }),
                                        format!("({}).entails({}) = Some({}) but truth-table implication is {}", a_name, b_name, r, truth),
                                    );
                                } else {
                                    rep.count(if truth { "entails-agree-true" } else { "entails-agree-false" });
                                }
                            }
                        }
                    }
                }
            }
        }

        // concrete: lift equivalence and mixed time locks
        {
            let mut ccfg = pcfg.clone();
            ccfg.concrete = true;
            ccfg.repeat_atoms = false;
            let leaves3 = 1 + rng.below(max_leaves);
            let c = PolGen::new(&mut rng, ccfg).gen(leaves3, 0);
            let cs = c.concrete(&nm);
            rep.eval();
            if let Ok(Ok(conc)) = guarded(|| Concrete::<String>::from_str(&cs)) {
                let catoms = c.atoms();
                let has_const = cs.contains("TRIVIAL") || cs.contains("UNSATISFIABLE");
                let c2 = conc.clone();
                match guarded(move || c2.lift().map(|l| l.to_string())) {
                    Err(m) => rep.violation(i, format!("C18:panic:lift:{}", norm_loc(&last_panic_loc())), format!("Concrete::lift panicked ({}) on {}", m, cs)),
                    Ok(Err(_)) => rep.count("concrete-lift-refused"),
                    Ok(Ok(ls)) => match to_pol(&ls) {
                        Ok(lp) => {
                            if catoms.len() <= 10 {
                                if let Some(mask) = differ(&lp, &c, &catoms, &none) {
                                    rep.violation(i, "C18:concrete-lift-changes-meaning".into(), format!("lift({}) = {} differs at [{}]", cs, ls, assignment_str(&catoms, mask)));
                                } else {
                                    rep.count("concrete-lift-equivalent");
                                    rep.nontrivial(&format!("c|{}", cs));
                                }
                            }
                        }
                        Err(e) => rep.violation(i, "C18:lift-unparseable".into(), format!("{} : {}", ls, e)),
                    },
                }
                if !has_const {
                    let lib = guarded(move || conc.check_timelocks().is_err());
                    if let (Ok(lib), Some(paths)) = (lib, c.paths(4096)) {
                        const T: u32 = 500_000_000;
                        let truth = paths.iter().any(|path| {
                            let ah = path.iter().any(|a| matches!(a, Atom::After(t) if *t < T));
                            let at = path.iter().any(|a| matches!(a, Atom::After(t) if *t >= T));
                            let oh = path.iter().any(|a| matches!(a, Atom::Older(t) if t & (1 << 22) == 0));
                            let ot = path.iter().any(|a| matches!(a, Atom::Older(t) if t & (1 << 22) != 0));
                            (ah && at) || (oh && ot)
                        });
                        if lib != truth {
                            rep.violation(
                                i,
                                format!("C18:check_timelocks:{}", if truth { "misses-mixed-path" } else { "false-positive" }),
                                format!("check_timelocks({}) errs = {} but path enumeration says a mixed height/time path exists = {}", cs, lib, truth),
                            );
                        } else {
                            rep.count(if truth { "check_timelocks-agree-mixed" } else { "check_timelocks-agree-clean" });
                        }
                    }
                }
            } else {
                rep.count("concrete-parse-rejected");
                // the parser runs the same mixed-time-lock check: a refusal for that reason is judged too
                let why = guarded(|| Concrete::<String>::from_str(&cs).err().map(|e| e.to_string())).ok().flatten().unwrap_or_default();
                let has_const = cs.contains("TRIVIAL") || cs.contains("UNSATISFIABLE");
                if !has_const && why.contains("heightlock and timelock combination") {
                    if let Some(paths) = c.paths(4096) {
                        const T: u32 = 500_000_000;
                        let truth = paths.iter().any(|path| {
                            let ah = path.iter().any(|a| matches!(a, Atom::After(t) if *t < T));
                            let at = path.iter().any(|a| matches!(a, Atom::After(t) if *t >= T));
                            let oh = path.iter().any(|a| matches!(a, Atom::Older(t) if t & (1 << 22) == 0));
                            let ot = path.iter().any(|a| matches!(a, Atom::Older(t) if t & (1 << 22) != 0));
                            (ah && at) || (oh && ot)
                        });
                        if !truth {
                            rep.violation(i, "C18:check_timelocks:false-positive".into(), format!("Concrete::from_str({}) refuses it for mixing height and time locks, but no satisfying path needs both units of one kind", cs));
                        } else {
                            rep.count("parser-refuses-mixed-path(agrees)");
                        }
                    }
                }
            }
            // n-ary conjunctions / disjunctions assembled through the API (the parser only builds
            // binary ones): lifting must keep "all of" / "one of"
            if i % 4 == 0 {
                let mut parts: Vec<(crate::pol::Pol, Concrete<String>)> = vec![];
                for _ in 0..(1 + rng.below(4)) {
                    let mut c3 = pcfg.clone();
                    c3.concrete = true;
                    c3.repeat_atoms = false;
                    c3.timelock_heavy = false;
                    c3.constants = false;
                    let nl = 1 + rng.below(2);
                    let q = PolGen::new(&mut rng, c3).gen(nl, 0);
                    if let Ok(Ok(cc)) = guarded(|| Concrete::<String>::from_str(&q.concrete(&nm))) {
                        parts.push((q, cc));
                    }
                }
                if !parts.is_empty() {
                    let is_and = rng.coin();
                    let model = if is_and {
                        crate::pol::Pol::And(parts.iter().map(|(m, _)| m.clone()).collect())
                    } else {
                        crate::pol::Pol::Or(parts.iter().map(|(m, _)| (1usize, m.clone())).collect())
                    };
                    let obj = if is_and {
                        Concrete::And(parts.iter().map(|(_, c)| std::sync::Arc::new(c.clone())).collect())
                    } else {
                        Concrete::Or(parts.iter().enumerate().map(|(n, (_, c))| (n + 1, std::sync::Arc::new(c.clone()))).collect())
                    };
                    let matoms = model.atoms();
                    let shown = format!("{}({})", if is_and { "And" } else { "Or" }, parts.iter().map(|(m, _)| m.concrete(&nm)).collect::<Vec<_>>().join(" , "));
                    rep.eval();
                    let o2 = obj.clone();
                    match guarded(std::panic::AssertUnwindSafe(move || o2.lift().map(|l| l.to_string()))) {
                        Err(m) => rep.violation(i, format!("C18:panic:lift-api-built:{}", norm_loc(&last_panic_loc())), format!("Concrete::lift panicked ({}) on the API-built {}", m, shown)),
                        Ok(Err(_)) => rep.count("api-built-nary-lift-refused"),
                        Ok(Ok(ls)) => match to_pol(&ls) {
                            Ok(lp) if matoms.len() <= 10 => {
                                if let Some(mask) = differ(&lp, &model, &matoms, &none) {
                                    rep.violation(i, format!("C18:api-built-{}-lift-changes-meaning", if is_and { "and" } else { "or" }), format!("lift of the API-built {} with {} children = {} differs at [{}]", shown, parts.len(), ls, assignment_str(&matoms, mask)));
                                } else {
                                    rep.count("api-built-nary-lift-equivalent");
                                }
                            }
                            Ok(_) => {}
                            Err(e) => rep.violation(i, "C18:lift-unparseable".into(), format!("{} : {}", ls, e)),
                        },
                    }
                }
            }
        }
    }
    if rep.samples.is_empty() {
        rep.sample("(see counters)".into());
    }
}
