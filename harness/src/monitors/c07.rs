//! C07: the lifted policy is exactly the script's spending condition.
//! policy_eval(lift(x), world) == exists a STANDARD witness from the world's assets
//! (library satisfier + VM, or the lazy witness search).

use miniscript::bitcoin;
use miniscript::policy::Liftable;
use miniscript::Descriptor;

use super::c01::case_cfg;
use super::c02::search_cfg;
use super::{guarded, last_panic_loc, norm_loc, Report, RunCfg, Tier};
use crate::pol::*;
use crate::refvm::vm::Flags;
use crate::satcase::*;
use crate::target::{search_target, Target};
use crate::world::{hex, Spend, World};

pub fn world_lookup(world: &World) -> (impl Fn(&str) -> Option<usize> + '_, impl Fn(&str) -> Option<usize> + '_) {
    (
        move |s: &str| {
            world
                .keys
                .iter()
                .position(|k| k.compressed_hex == s || k.uncompressed_hex == s || k.xonly_hex == s)
        },
        move |s: &str| {
            world.pre.iter().position(|p| hex(&p.sha256) == s || hex(&p.hash256) == s || hex(&p.ripemd160) == s || hex(&p.hash160) == s)
        },
    )
}

pub fn run(cfg: &RunCfg, rep: &mut Report) {
    let world = World::new(cfg.seed);
    let total = cfg.n_cases(3_000, 12_000);
    let ccfg = case_cfg(cfg.tier);
    let scfg = search_cfg(cfg.tier);
    let max_worlds = if cfg.tier == Tier::Thorough { 64 } else { 20 };
    let (kl, hl) = world_lookup(&world);
    let lk = PolLookup { key: &kl, hash: &hl };
    let mut liftable = 0u64;
    let mut not_liftable = 0u64;
    for i in cfg.cases(total) {
        let mut rng = cfg.case_rng(i);
        let mut ccfg = ccfg.clone();
        ccfg.timelock_heavy = rng.chance(1, 4);
        let mut case = gen_desc_case(&mut rng, &world, &ccfg);
        // one case in six is a multi-leaf tr() with lock-heavy leaves for the API path below
        if rng.chance(1, 6) {
            ccfg.timelock_heavy = true;
            ccfg.max_leaves = 3;
            ccfg.max_nodes = ccfg.max_nodes.max(24);
            for _ in 0..40 {
                case = gen_desc_case(&mut rng, &world, &ccfg);
                if case.kind == DescKind::Tr && case.frags.len() >= 2 {
                    break;
                }
            }
        }
        // directed family: a tap leaf that cannot be lifted (two lock-time units on one path) but
        // has a second, spendable path, next to ordinary leaves
        let mut force_api = false;
        if rng.chance(1, 12) {
            use crate::frag::{Frag, KeyForm, KeyRef};
            let mut ids: Vec<usize> = (0..world.keys.len()).collect();
            rng.shuffle(&mut ids);
            let k = |n: usize| KeyRef { id: ids[n], form: KeyForm::XOnly };
            let bx = |x: Frag| Box::new(x);
            let pk = |n: usize| Frag::Check(Box::new(Frag::PkK(k(n))));
            let v = |x: Frag| Frag::Verify(Box::new(x));
            let mixed = match rng.below(3) {
                0 => Frag::AndV(bx(v(Frag::Older((1 << 22) | 1))), bx(Frag::Older(1))),
                1 => Frag::AndV(bx(v(Frag::After(500_000_001))), bx(Frag::After(10))),
                _ => Frag::AndV(bx(v(Frag::Older(2))), bx(Frag::AndV(bx(v(pk(4))), bx(Frag::Older((1 << 22) | 2))))),
            };
            let odd = match rng.below(3) {
                0 => Frag::OrD(bx(pk(1)), bx(Frag::AndV(bx(v(pk(2))), bx(mixed)))),
                1 => Frag::OrI(bx(mixed), bx(pk(1))),
                _ => Frag::AndV(bx(v(pk(1))), bx(Frag::OrD(bx(pk(2)), bx(mixed)))),
            };
            let mut frags = vec![pk(3), odd];
            if rng.coin() {
                frags.push(Frag::AndV(bx(v(pk(5))), bx(Frag::Older(5))));
            }
            rng.shuffle(&mut frags);
            case = DescCase { kind: DescKind::Tr, desc: String::new(), frags, internal: Some(k(0)), cx: Some(crate::frag::Cx::Tap) };
            force_api = true;
        }
        // tr() descriptors are also assembled through the API from leaves parsed without the
        // sanity rules: the string parser would refuse e.g. a leaf mixing lock-time units, but
        // `Tr::new` accepts it, and then lift() must fail or tell the truth about every leaf
        let via_api = force_api || (case.kind == DescKind::Tr && !case.frags.is_empty() && rng.coin());
        let parsed = if via_api {
            guarded(std::panic::AssertUnwindSafe(|| -> Result<Descriptor<crate::world::Dk>, String> {
                use miniscript::descriptor::{TapTree, Tr};
                let mut tree: Option<TapTree<crate::world::Dk>> = None;
                for f in &case.frags {
                    let ms = miniscript::Miniscript::<crate::world::Dk, miniscript::Tap>::from_str_insane(&f.to_string_with(&world)).map_err(|e| e.to_string())?;
                    let leaf = TapTree::leaf(ms);
                    tree = Some(match tree {
                        None => leaf,
                        Some(t) => TapTree::combine(t, leaf).map_err(|e| e.to_string())?,
                    });
                }
                let ik = world.dk_xonly(case.internal.unwrap().id);
                Tr::new(ik, tree).map(Descriptor::Tr).map_err(|e| e.to_string())
            }))
        } else {
            guarded(|| parse_desc(&case.desc))
        };
        let desc = match parsed {
            Ok(Ok(d)) => d,
            _ => {
                rep.eval();
                rep.count("desc-rejected");
                continue;
            }
        };
        if via_api {
            case.desc = desc.to_string();
            rep.count("tr-assembled-through-the-api");
            if let Descriptor::Tr(tr) = &desc {
                let bad = tr.leaves().filter(|l| l.miniscript().lift().is_err()).count();
                let all = tr.leaves().count();
                if bad > 0 && bad < all {
                    rep.count("tr-with-an-unliftable-leaf-beside-liftable-ones");
                } else if bad > 0 {
                    rep.count("tr-with-only-unliftable-leaves");
                }
            }
        }
        if !case.spec_types().iter().all(|t| matches!(t, Some(t) if t.base == crate::oracle::spec_types::Base::B)) {
            continue;
        }
        rep.eval();
        let lifted = match guarded(std::panic::AssertUnwindSafe(|| desc.lift().map(|p| p.to_string()))) {
            Ok(Ok(s)) => s,
            Ok(Err(_)) => {
                not_liftable += 1;
                rep.count("lift-refused");
                continue;
            }
            Err(m) => {
                rep.violation(i, format!("C07:panic:lift:{}", norm_loc(&last_panic_loc())), format!("lift panicked ({}) on {}", m, case.desc));
                continue;
            }
        };
        liftable += 1;
        let pol = match parse_pol(&lifted, &lk) {
            Ok(p) => p,
            Err(e) => {
                rep.violation(i, "C07:lifted-policy-unparseable".into(), format!("lift({}) = {} : {}", case.desc, lifted, e));
                continue;
            }
        };
        let target = match Target::from_descriptor(&desc) {
            Ok(t) => t,
            Err(_) => continue,
        };
        let key_ids = case.key_ids();
        let pre_ids = case.pre_ids();
        let tls = timelock_worlds(&mut rng, &case, 4);
        // (a) the lifted policy against the harness's own lift of the same AST, on the FULL truth
        // table of key / preimage availability in every sampled lock-time world. The model lift is
        // itself confronted with witness existence in (b) on the sampled worlds.
        {
            let model = match case.kind {
                DescKind::Tr => {
                    let mut alts = vec![(1usize, Pol::Atom(Atom::Key(case.internal.unwrap().id)))];
                    alts.extend(case.frags.iter().map(|f| (1usize, f.to_pol())));
                    Pol::Or(alts)
                }
                _ => case.frags[0].to_pol(),
            };
            if key_ids.len() + pre_ids.len() <= 12 {
                let mut differs: Option<String> = None;
                'tt: for (lt, seq) in &tls {
                    for km in 0u64..(1 << key_ids.len()) {
                        for pm in 0u64..(1 << pre_ids.len()) {
                            let mut pw = PolWorld { keys: vec![false; world.keys.len()], pre: vec![false; world.pre.len()], lock_time: *lt, sequence: *seq };
                            for (n, id) in key_ids.iter().enumerate() {
                                pw.keys[*id] = km & (1 << n) != 0;
                            }
                            for (n, id) in pre_ids.iter().enumerate() {
                                pw.pre[*id] = pm & (1 << n) != 0;
                            }
                            rep.add("truth-table-rows", 1);
                            let (a, b) = (pol.eval(&pw.sigma()), model.eval(&pw.sigma()));
                            if a != b {
                                differs = Some(format!(
                                    "keys {:?} preimages {:?} nLockTime={} nSequence={:#x}: library policy says {}, the AST means {}",
                                    key_ids.iter().enumerate().filter(|(n, _)| km & (1 << n) != 0).map(|(_, i)| *i).collect::<Vec<_>>(),
                                    pre_ids.iter().enumerate().filter(|(n, _)| pm & (1 << n) != 0).map(|(_, i)| *i).collect::<Vec<_>>(),
                                    lt, seq, a, b
                                ));
                                break 'tt;
                            }
                        }
                    }
                }
                match differs {
                    Some(d) => rep.violation(i, format!("C07:lift-differs-from-ast-meaning:{:?}", case.kind), format!("lift({}) = {} ; {}", case.desc, lifted, d)),
                    None => rep.count("lift-equals-ast-meaning(full truth table)"),
                }
            }
        }
        // (a') the library's own way of evaluating the reported policy at a lock time and a sequence
        // (at_lock_time / at_age keep exactly the locks that are met): what is left, with every
        // remaining lock read as met, has to have the truth table of the policy in that world
        if key_ids.len() + pre_ids.len() <= 10 {
            for (lt, seq) in &tls {
                // the filters know nothing about the transaction: a final sequence (nLockTime off) or a
                // sequence without relative meaning has no counterpart there
                let rel = match bitcoin::Sequence(*seq).to_relative_lock_time() {
                    Some(r) if *seq != 0xffff_ffff => r,
                    _ => continue,
                };
                let abs = bitcoin::absolute::LockTime::from_consensus(*lt);
                let filtered = match guarded(std::panic::AssertUnwindSafe(|| desc.lift().map(|p| p.at_lock_time(abs).at_age(rel).to_string()))) {
                    Ok(Ok(x)) => x,
                    Ok(Err(_)) => continue,
                    Err(m) => {
                        rep.violation(i, format!("C07:panic:at_lock_time/at_age:{}", norm_loc(&last_panic_loc())), format!("{} on lift({})", m, case.desc));
                        continue;
                    }
                };
                let fpol = match parse_pol(&filtered, &lk) {
                    Ok(p) => p,
                    Err(_) => continue,
                };
                let mut bad = None;
                'ff: for km in 0u64..(1 << key_ids.len()) {
                    for pm in 0u64..(1 << pre_ids.len()) {
                        let mut pw = PolWorld { keys: vec![false; world.keys.len()], pre: vec![false; world.pre.len()], lock_time: *lt, sequence: *seq };
                        for (n, id) in key_ids.iter().enumerate() {
                            pw.keys[*id] = km & (1 << n) != 0;
                        }
                        for (n, id) in pre_ids.iter().enumerate() {
                            pw.pre[*id] = pm & (1 << n) != 0;
                        }
                        let sg = pw.sigma();
                        let locks_met = |a: &Atom| matches!(a, Atom::After(_) | Atom::Older(_)) || sg(a);
                        if fpol.eval(&locks_met) != pol.eval(&sg) {
                            bad = Some((km, pm));
                            break 'ff;
                        }
                    }
                }
                match bad {
                    Some((km, pm)) => rep.violation(
                        i,
                        "C07:policy-at-locktime-and-age-differs".into(),
                        format!("lift({}) = {} ; at nLockTime {} and nSequence {:#x} the library reduces it to {}, which differs from the policy's value in that world for key mask {:#x} / preimage mask {:#x}", case.desc, lifted, lt, seq, filtered, km, pm),
                    ),
                    None => rep.count("at_lock_time+at_age agree with the policy's value in the world"),
                }
            }
        }
        let kms = subsets(&mut rng, key_ids.len(), 5, 16);
        let pms = subsets(&mut rng, pre_ids.len(), 2, 4);
        let mut combos = vec![];
        for tl in &tls {
            for km in &kms {
                for pm in &pms {
                    combos.push((*tl, *km, *pm));
                }
            }
        }
        if combos.len() > max_worlds {
            rng.shuffle(&mut combos);
            combos.truncate(max_worlds);
        }
        let mut seen_true = false;
        let mut seen_false = false;
        for ((lt, seq), km, pm) in combos {
            rep.eval();
            let spend = Spend::simple(bitcoin::ScriptBuf::from_bytes(target.spk.clone()), lt, seq);
            let assets = make_assets(&world, &spend, &target, &case, km, pm);
            // policy truth in this world
            let pw = PolWorld {
                keys: (0..world.keys.len()).map(|id| assets.keys.contains(&id)).collect(),
                pre: (0..world.pre.len()).map(|id| assets.pre.contains(&id)).collect(),
                lock_time: lt,
                sequence: seq,
            };
            let truth = pol.eval(&pw.sigma());
            // ground truth: does a witness exist?
            let sat = satisfier(&assets, &target);
            let lib = guarded(std::panic::AssertUnwindSafe(|| desc.get_satisfaction_mall(&sat)));
            let mut exists: Option<bool> = None;
            let mut how = "library witness";
            if let Ok(Ok((w, ss))) = &lib {
                if target.verify(ss.as_bytes(), w, &spend, Flags::STANDARD, &world.secp).is_ok() {
                    exists = Some(true);
                }
            }
            if exists.is_none() {
                let r = search_target(&target, &spend, Flags::STANDARD, &world.secp, &scfg, |path| {
                    party_alphabet(&world, &assets, &target, &case, path, false)
                });
                rep.add("search-steps", r.steps as u64);
                if !r.found.is_empty() {
                    exists = Some(true);
                    how = "search witness";
                } else if r.inconclusive {
                    rep.inconclusive("search-budget");
                    continue;
                } else {
                    exists = Some(false);
                    how = "exhaustive search";
                }
            }
            let exists = exists.unwrap();
            if truth {
                seen_true = true
            } else {
                seen_false = true
            }
            if truth != exists {
                rep.violation(
                    i,
                    format!("C07:{}:{:?}", if truth { "policy-true-but-no-witness" } else { "policy-false-but-witness-exists" }, case.kind),
                    format!(
                        "lift({}) = {} evaluates to {} for keys={:?} preimages={:?} nLockTime={} nSequence={:#x}, but {} says a witness {}",
                        case.desc, lifted, truth, assets.keys, assets.pre, lt, seq, how, if exists { "exists" } else { "does not exist" }
                    ),
                );
            } else {
                rep.count(if truth { "agree:spendable" } else { "agree:unspendable" });
            }
        }
        if pol.atoms().len() >= 2 && seen_true && seen_false {
            rep.nontrivial(&case.desc);
            if rep.samples.len() < rep.max_samples && i % 101 == 0 {
                rep.sample(format!("{} => {}", case.desc, lifted));
            }
        }
    }
    rep.add("liftable", liftable);
    rep.add("not-liftable", not_liftable);
    if liftable + not_liftable > 50 && liftable * 5 < liftable + not_liftable {
        rep.violation(0, "ORACLE:lift-refuses-almost-everything".into(), format!("only {} of {} descriptors could be lifted", liftable, liftable + not_liftable));
    }
    if rep.samples.is_empty() {
        rep.sample("(see counters)".into());
    }
}
