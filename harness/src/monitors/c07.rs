//! C07: the lifted policy is exactly the script's spending condition.
//! policy_eval(lift(x), world) == exists a STANDARD witness from the world's assets
//! (library satisfier + VM, or the lazy witness search).

use miniscript::bitcoin;
use miniscript::policy::Liftable;

use super::c01::case_cfg;
use super::c02::search_cfg;
use super::{guarded, last_panic_loc, norm_loc, Report, RunCfg, Tier};
use crate::pol::*;
use crate::refvm::vm::Flags;
use crate::satcase::*;
use crate::target::{search_target, Target};
use crate::world::{hex, Spend, World};

pub fn world_lookup(world: &World) -> (impl Fn(&str) -> Option<usize> + '_, impl Fn(&str) -> Option<usize> + '_) {
    (
        move |s: &str| {
            world
                .keys
                .iter()
                .position(|k| k.compressed_hex == s || k.uncompressed_hex == s || k.xonly_hex == s)
        },
        move |s: &str| {
            world.pre.iter().position(|p| hex(&p.sha256) == s || hex(&p.hash256) == s || hex(&p.ripemd160) == s || hex(&p.hash160) == s)
        },
    )
}

pub fn run(cfg: &RunCfg, rep: &mut Report) {
    let world = World::new(cfg.seed);
    let total = cfg.n_cases(3_000, 50_000);
    let ccfg = case_cfg(cfg.tier);
    let scfg = search_cfg(cfg.tier);
    let max_worlds = if cfg.tier == Tier::Thorough { 64 } else { 20 };
    let (kl, hl) = world_lookup(&world);
    let lk = PolLookup { key: &kl, hash: &hl };
    let mut liftable = 0u64;
    let mut not_liftable = 0u64;
    for i in cfg.cases(total) {
        let mut rng = cfg.case_rng(i);
        let case = gen_desc_case(&mut rng, &world, &ccfg);
        let desc = match guarded(|| parse_desc(&case.desc)) {
            Ok(Ok(d)) => d,
            _ => {
                rep.eval();
                rep.count("desc-rejected");
                continue;
            }
        };
        if !case.spec_types().iter().all(|t| matches!(t, Some(t) if t.base == crate::oracle::spec_types::Base::B)) {
            continue;
        }
        rep.eval();
        let lifted = match guarded(std::panic::AssertUnwindSafe(|| desc.lift().map(|p| p.to_string()))) {
            Ok(Ok(s)) => s,
            Ok(Err(_)) => {
                not_liftable += 1;
                rep.count("lift-refused");
                continue;
            }
            Err(m) => {
                rep.violation(i, format!("C07:panic:lift:{}", norm_loc(&last_panic_loc())), format!("lift panicked ({}) on {}", m, case.desc));
                continue;
            }
        };
        liftable += 1;
        let pol = match parse_pol(&lifted, &lk) {
            Ok(p) => p,
            Err(e) => {
                rep.violation(i, "C07:lifted-policy-unparseable".into(), format!("lift({}) = {} : {}", case.desc, lifted, e));
                continue;
            }
        };
        let target = match Target::from_descriptor(&desc) {
            Ok(t) => t,
            Err(_) => continue,
        };
        let key_ids = case.key_ids();
        let pre_ids = case.pre_ids();
        let tls = timelock_worlds(&mut rng, &case, 4);
        let kms = subsets(&mut rng, key_ids.len(), 5, 16);
        let pms = subsets(&mut rng, pre_ids.len(), 2, 4);
        let mut combos = vec![];
        for tl in &tls {
            for km in &kms {
                for pm in &pms {
                    combos.push((*tl, *km, *pm));
                }
            }
        }
        if combos.len() > max_worlds {
            rng.shuffle(&mut combos);
            combos.truncate(max_worlds);
        }
        let mut seen_true = false;
        let mut seen_false = false;
        for ((lt, seq), km, pm) in combos {
            rep.eval();
            let spend = Spend::simple(bitcoin::ScriptBuf::from_bytes(target.spk.clone()), lt, seq);
            let assets = make_assets(&world, &spend, &target, &case, km, pm);
            // policy truth in this world
            let pw = PolWorld {
                keys: (0..world.keys.len()).map(|id| assets.keys.contains(&id)).collect(),
                pre: (0..world.pre.len()).map(|id| assets.pre.contains(&id)).collect(),
                lock_time: lt,
                sequence: seq,
            };
            let truth = pol.eval(&pw.sigma());
            // ground truth: does a witness exist?
            let sat = satisfier(&assets, &target);
            let lib = guarded(std::panic::AssertUnwindSafe(|| desc.get_satisfaction_mall(&sat)));
            let mut exists: Option<bool> = None;
            let mut how = "library witness";
            if let Ok(Ok((w, ss))) = &lib {
                if target.verify(ss.as_bytes(), w, &spend, Flags::STANDARD, &world.secp).is_ok() {
                    exists = Some(true);
                }
            }
            if exists.is_none() {
                let r = search_target(&target, &spend, Flags::STANDARD, &world.secp, &scfg, |path| {
                    party_alphabet(&world, &assets, &target, &case, path, false)
                });
                rep.add("search-steps", r.steps as u64);
                if !r.found.is_empty() {
                    exists = Some(true);
                    how = "search witness";
                } else if r.inconclusive {
                    rep.inconclusive("search-budget");
                    continue;
                } else {
                    exists = Some(false);
                    how = "exhaustive search";
                }
            }
            let exists = exists.unwrap();
            if truth {
                seen_true = true
            } else {
                seen_false = true
            }
            if truth != exists {
                rep.violation(
                    i,
                    format!("C07:{}:{:?}", if truth { "policy-true-but-no-witness" } else { "policy-false-but-witness-exists" }, case.kind),
                    format!(
                        "lift({}) = {} evaluates to {} for keys={:?} preimages={:?} nLockTime={} nSequence={:#x}, but {} says a witness {}",
                        case.desc, lifted, truth, assets.keys, assets.pre, lt, seq, how, if exists { "exists" } else { "does not exist" }
                    ),
                );
            } else {
                rep.count(if truth { "agree:spendable" } else { "agree:unspendable" });
            }
        }
        if pol.atoms().len() >= 2 && seen_true && seen_false {
            rep.nontrivial(&case.desc);
            if rep.samples.len() < rep.max_samples && i % 101 == 0 {
                rep.sample(format!("{} => {}", case.desc, lifted));
            }
        }
    }
    rep.add("liftable", liftable);
    rep.add("not-liftable", not_liftable);
    if liftable + not_liftable > 50 && liftable * 5 < liftable + not_liftable {
        rep.violation(0, "ORACLE:lift-refuses-almost-everything".into(), format!("only {} of {} descriptors could be lifted", liftable, liftable + not_liftable));
    }
    if rep.samples.is_empty() {
        rep.sample("(see counters)".into());
    }
}
