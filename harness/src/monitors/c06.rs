//! C06: static types predict what fragments do when executed.
//!
//! The library's own label (`Miniscript::ty`) of a generated fragment is compared with
//! what the library's own encoding (`Miniscript::encode`) does in the reference VM on
//! every input stack the lazy exploration reaches over the alphabet {empty, 1, 2, 32 zero
//! bytes, every key of the fragment, every preimage, valid signatures per key, a
//! well-formed signature that is valid for none of the keys}. Every terminal of the
//! exploration is one concrete execution; the claims are checked on each of them.

use std::collections::BTreeSet;
use std::rc::Rc;
use std::str::FromStr;

use miniscript::bitcoin;
use miniscript::miniscript::types::{Base as LBase, Dissat, Input, Type};
use miniscript::{BareCtx, Legacy, Miniscript, ScriptContext, Segwitv0, Tap, ToPublicKey};

use bitcoin::taproot::{LeafVersion, TapLeafHash};
use bitcoin::ScriptBuf;

use super::{guarded, last_panic_loc, norm_loc, Report, RunCfg, Tier};
use crate::frag::{Cx, Frag, Gen, GenCfg, KeyForm};
use crate::oracle::spec_types::Base;
use crate::refvm::script::{cast_to_bool, parse};
use crate::refvm::search::{explore, Alphabet, Finish, SearchCfg, Tag};
use crate::refvm::vm::{Env, Fail, Flags, SigVersion};
use crate::world::{hex, Assets, EcdsaMode, Spend, World};

const SENTINEL: [u8; 3] = [0x5e, 0xa7, 0x11];

struct Obs {
    /// executions that ran to the end of the fragment
    completed: u64,
    aborted: u64,
    sat: u64,
    dissat: u64,
    sigfree_dissat: u64,
    unresolved: u64,
}

fn judge<Ctx: ScriptContext>(cx: Cx, frag: &Frag, world: &World, rep: &mut Report, case: u64, scfg: &SearchCfg, forge: Option<&dyn Fn(&mut Type)>, from_ast: &dyn Fn(&Frag) -> Option<Miniscript<Ctx::Key, Ctx>>) -> Vec<String>
where
    Ctx::Key: ToPublicKey + FromStr + miniscript::FromStrKey,
    <Ctx::Key as FromStr>::Err: std::fmt::Display,
{
    rep.eval();
    let s = frag.to_string_with(world);
    let mut params = Ctx::CONSENSUS;
    params.allow_non_b = true;
    let ms = match guarded(|| Miniscript::<Ctx::Key, Ctx>::from_str_with_validation_params(&s, &params)) {
        Ok(Ok(m)) => m,
        Ok(Err(_)) => {
            // the programmatic constructor has no parser in front of it: what it accepts is
            // a fragment the library vouches for as well
            let built = guarded(std::panic::AssertUnwindSafe(|| from_ast(frag)));
            match built {
                // from_ast alone does not apply the context's fragment rules (d: / or_i without
                // MINIMALIF, foreign multisig): only what also validates is in the property's domain
                Ok(Some(m)) if m.validate(&params).is_ok() => {
                    rep.count("accepted-only-by-from_ast");
                    m
                }
                _ => {
                    rep.count(&format!("rejected:{}", cx.name()));
                    return vec![];
                }
            }
        }
        Err(m) => {
            rep.count("from_str-panicked(judged-by-C11)");
            let _ = m;
            return vec![];
        }
    };
    let mut ty = ms.ty;
    // positive control of the oracle: a deliberately too-strong label must be refuted
    let control = forge.is_some();
    if let Some(f) = forge {
        f(&mut ty);
    }
    let script = match guarded(std::panic::AssertUnwindSafe(|| ms.encode().to_bytes())) {
        Ok(b) => b,
        Err(m) => {
            rep.violation(case, format!("C06:panic:encode:{}", norm_loc(&last_panic_loc())), format!("encode panicked ({}) on {}", m, s));
            return vec![];
        }
    };
    let ops = match parse(&script) {
        Ok(o) => Rc::new(o),
        Err(_) => {
            rep.violation(case, "C06:encoding-malformed".into(), format!("{} encodes to a malformed script {}", s, hex(&script)));
            return vec![];
        }
    };
    let (sigversion, leaf_hash) = match cx {
        Cx::Bare | Cx::Legacy => (SigVersion::Base, None),
        Cx::Segwitv0 => (SigVersion::WitnessV0, None),
        Cx::Tap => (
            SigVersion::Tapscript,
            Some(TapLeafHash::from_script(bitcoin::Script::from_bytes(&script), LeafVersion::TapScript)),
        ),
    };
    let ecdsa = match cx {
        Cx::Bare | Cx::Legacy => EcdsaMode::Legacy(ScriptBuf::from_bytes(script.clone())),
        Cx::Segwitv0 => EcdsaMode::Segwit(ScriptBuf::from_bytes(script.clone())),
        Cx::Tap => EcdsaMode::None,
    };
    // transaction worlds: every lock that can be met is met / no lock is met
    let (afters, olders) = frag.timelocks();
    let mut worlds = vec![(afters.iter().cloned().max().unwrap_or(0), olders.iter().cloned().max().unwrap_or(0xffff_fffe))];
    if !afters.is_empty() || !olders.is_empty() {
        worlds.push((0, 0xffff_ffff));
        if let (Some(a), Some(o)) = (afters.iter().cloned().min(), olders.iter().cloned().min()) {
            worlds.push((a, o));
        }
    }
    let keys = frag.keys();
    let key_bytes = |form: KeyForm, id: usize| -> Vec<u8> {
        let ki = &world.keys[id];
        match form {
            KeyForm::Compressed => ki.pk.serialize().to_vec(),
            KeyForm::Uncompressed => ki.pk.serialize_uncompressed().to_vec(),
            KeyForm::XOnly => ki.xonly.serialize().to_vec(),
        }
    };
    let frag_keys: BTreeSet<Vec<u8>> = keys.iter().map(|k| key_bytes(k.form, k.id)).collect();
    let base = ty.corr.base;
    let mut total = Obs { completed: 0, aborted: 0, sat: 0, dissat: 0, sigfree_dissat: 0, unresolved: 0 };
    let mut incomplete = false;
    let mut viol: Vec<(String, String)> = vec![];
    for (wi, (lt, seq)) in worlds.iter().enumerate() {
        let spend = Spend::simple(ScriptBuf::from_bytes(script.clone()), *lt, *seq);
        let mut assets = Assets::new(world, &spend, ecdsa.clone());
        assets.keys = (0..world.keys.len()).collect();
        assets.pre = (0..world.pre.len()).collect();
        let mut alpha = Alphabet::with_basics(true);
        let mut valid_sigs: BTreeSet<Vec<u8>> = BTreeSet::new();
        for k in &keys {
            alpha.add(key_bytes(k.form, k.id), Tag::Key);
        }
        for p in frag.preimages() {
            alpha.add(world.pre[p].pre.to_vec(), Tag::Preimage);
        }
        let sign = |form: KeyForm, id: usize| -> Option<Vec<u8>> {
            let ki = &world.keys[id];
            match cx {
                Cx::Tap => assets.schnorr_sig(&ki.xonly, leaf_hash, None).map(|s| s.to_vec()),
                _ => {
                    let pk = match form {
                        KeyForm::Uncompressed => bitcoin::PublicKey::new_uncompressed(ki.pk),
                        _ => bitcoin::PublicKey::new(ki.pk),
                    };
                    assets.ecdsa_sig(&pk).map(|s| s.to_vec())
                }
            }
        };
        for k in &keys {
            if let Some(sg) = sign(k.form, k.id) {
                valid_sigs.insert(sg.clone());
                alpha.add(sg, Tag::Sig);
            }
        }
        // a well-formed signature that is valid for none of the fragment's keys
        let used: BTreeSet<usize> = keys.iter().map(|k| k.id).collect();
        if let Some(foreign) = (0..world.keys.len()).find(|i| !used.contains(i)) {
            if let Some(sg) = sign(KeyForm::Compressed, foreign) {
                alpha.add(sg, Tag::Sig);
            }
        }
        let txc = spend.txc();
        let env = Env::new(&txc, sigversion, Flags::STANDARD, script.clone(), leaf_hash, &world.secp);
        let initial = if base == LBase::W { vec![SENTINEL.to_vec()] } else { vec![] };
        let mut obs = Obs { completed: 0, aborted: 0, sat: 0, dissat: 0, sigfree_dissat: 0, unresolved: 0 };
        let mut hit_cap = false;
        let r = explore(ops.clone(), initial, &env, &alpha, scfg, Finish::Raw, i64::MAX, |t| {
            let m = t.machine;
            match &t.result {
                Err(Fail::Limit(_)) | Err(Fail::Unsupported(_)) => {
                    hit_cap = true;
                    return;
                }
                Err(_) => {
                    obs.aborted += 1;
                    return;
                }
                Ok(()) => {}
            }
            // the number of elements left does not depend on values nobody inspected
            let want_len = match base {
                LBase::B | LBase::K => 1,
                LBase::V => 0,
                LBase::W => 2,
            };
            if m.stack.len() != want_len && m.alt.is_empty() {
                if viol.len() < 4 && !viol.iter().any(|(kk, _)| kk == &format!("shape:{:?}", base)) {
                    viol.push((
                        format!("shape:{:?}", base),
                        format!("{} [{}] type {} script {}: an execution that ran to the end left {} element(s) where the base type promises {}", s, cx.name(), ty, hex(&script), m.stack.len(), want_len),
                    ));
                }
                obs.completed += 1;
                return;
            }
            let mut fin: Vec<Vec<u8>> = vec![];
            for e in &m.stack {
                match m.resolve(e) {
                    Some(b) => fin.push((*b).clone()),
                    None => {
                        obs.unresolved += 1;
                        return;
                    }
                }
            }
            obs.completed += 1;
            let input: Vec<Vec<u8>> = m.bindings.iter().rev().map(|b| b.as_ref().map(|v| (**v).clone()).unwrap_or_default()).collect();
            let consumed = m.bindings.len();
            let has_sig = input.iter().any(|x| valid_sigs.contains(x));
            let ctxt = || {
                format!(
                    "{} [{}] type {} script {} input (bottom first) [{}] nLockTime={} nSequence={:#x} -> final stack [{}]",
                    s,
                    cx.name(),
                    ty,
                    hex(&script),
                    input.iter().map(|x| hex(x)).collect::<Vec<_>>().join(" "),
                    lt,
                    seq,
                    fin.iter().map(|x| hex(x)).collect::<Vec<_>>().join(" ")
                )
            };
            let mut v = |k: &str, why: &str| {
                if viol.len() < 4 && !viol.iter().any(|(kk, _)| kk == k) {
                    viol.push((k.to_string(), format!("{}: {}", why, ctxt())));
                }
            };
            if !m.alt.is_empty() {
                v("shape:altstack-not-restored", "the fragment left elements on the altstack");
                return;
            }
            // --- shape of the result per base type
            let result: Option<Vec<u8>> = match base {
                LBase::B => {
                    if fin.len() != 1 {
                        v("shape:B", "a B fragment must replace its inputs by exactly one element");
                        return;
                    }
                    Some(fin[0].clone())
                }
                LBase::V => {
                    if !fin.is_empty() {
                        v("shape:V", "a V fragment must not leave anything on the stack");
                        return;
                    }
                    None
                }
                LBase::K => {
                    if fin.len() != 1 || !frag_keys.contains(&fin[0]) {
                        v("shape:K", "a K fragment must leave exactly one public key of the fragment");
                        return;
                    }
                    None
                }
                LBase::W => {
                    if fin.len() != 2 {
                        v("shape:W", "a W fragment must leave the element that was on top plus exactly one result");
                        return;
                    }
                    if fin[0] == SENTINEL {
                        Some(fin[1].clone())
                    } else if fin[1] == SENTINEL {
                        Some(fin[0].clone())
                    } else {
                        v("shape:W", "a W fragment must leave the element that was on top untouched");
                        return;
                    }
                }
            };
            // --- number of consumed elements (for K the signature CHECKSIG will take is counted)
            let eff = if base == LBase::K { consumed + 1 } else { consumed };
            match ty.corr.input {
                Input::Zero if eff != 0 => v("input:z", &format!("typed zero-argument but consumed {} element(s)", eff)),
                Input::One | Input::OneNonZero if eff != 1 => v("input:o", &format!("typed one-argument but consumed {} element(s)", eff)),
                _ => {}
            }
            // --- value of the result
            let (sat, dissat) = match (&result, base) {
                (Some(r), _) => {
                    if cast_to_bool(r) {
                        (true, false)
                    } else if r.is_empty() {
                        (false, true)
                    } else {
                        v("shape:non-canonical-zero", "the result is false but not the empty vector");
                        (false, true)
                    }
                }
                (None, LBase::V) => (true, false),
                _ => (false, false),
            };
            if sat {
                obs.sat += 1;
                if let Some(r) = &result {
                    if ty.corr.unit && r.as_slice() != [1u8] {
                        v("unit", "typed unit but a successful execution left something other than exactly 1");
                    }
                }
                if ty.mall.signed && !has_sig {
                    v("signed", "typed signed but it succeeded on an input without any valid signature");
                }
                // n: no satisfaction has the empty vector as its top element (what makes `j:X` sound).
                // `bindings[0]` is the element that was on top; only a value the execution bound is judged.
                if base != LBase::W && matches!(ty.corr.input, Input::OneNonZero | Input::AnyNonZero) {
                    if let Some(Some(top)) = m.bindings.first().map(|b| b.as_ref()) {
                        if top.is_empty() {
                            v("input:n", "typed nonzero (n) but it succeeded on an input whose top element is the empty vector");
                        }
                    }
                }
            }
            if dissat {
                obs.dissat += 1;
                if !has_sig {
                    obs.sigfree_dissat += 1;
                    if ty.mall.dissat == Dissat::None {
                        v("forced", "typed forced (no dissatisfaction) but it left 0 on an input without any valid signature");
                    }
                }
            }
        });
        rep.add("vm-steps", r.steps as u64);
        if r.exhausted_budget || hit_cap || r.unsupported {
            incomplete = true;
        }
        total.completed += obs.completed;
        total.aborted += obs.aborted;
        total.sat += obs.sat;
        total.dissat += obs.dissat;
        total.unresolved += obs.unresolved;
        if wi == 0 {
            total.sigfree_dissat = obs.sigfree_dissat;
        } else {
            // the unconditional dissatisfaction must exist whatever the transaction looks like
            total.sigfree_dissat = total.sigfree_dissat.min(obs.sigfree_dissat);
        }
        if obs.unresolved > 0 {
            incomplete = true;
        }
    }
    // the same script read back by the decoder is a second library-labelled object (key hashes
    // become raw-pkh leaves with their own leaf constructor): its label is held to the same standard
    if !control {
        let dec = guarded(std::panic::AssertUnwindSafe(|| {
            Miniscript::<Ctx::Key, Ctx>::decode_with_validation_params(bitcoin::Script::from_bytes(&script), &miniscript::ValidationParams::MAX).ok().map(|d| d.ty)
        }));
        if let Ok(Some(dty)) = dec {
            if dty != ms.ty {
                let fired = judge::<Ctx>(cx, frag, world, rep, case, scfg, Some(&move |t: &mut Type| *t = dty), from_ast);
                for k in fired {
                    rep.violation(case, format!("C06:decoded-label:{}:{}", k, cx.name()), format!("{} [{}]: the decoder labels the script {} as {} (the parser says {}), and execution refutes the decoder's '{}' claim", s, cx.name(), hex(&script), dty, ms.ty, k));
                }
                rep.count("decoded-object-has-another-label(checked)");
            } else {
                rep.count("decoded-object-has-the-same-label");
            }
        }
    }
    let mut fired: Vec<String> = viol.iter().map(|(k, _)| k.clone()).collect();
    if control {
        if ty.corr.dissatisfiable && matches!(base, LBase::B | LBase::W) && total.sigfree_dissat == 0 && !incomplete {
            fired.push("dissatisfiable".into());
        }
        return fired;
    }
    for (k, d) in viol {
        rep.violation(case, format!("C06:{}:{}:{}", k, cx.name(), frag.name()), d);
    }
    rep.add("executions-completed", total.completed);
    rep.add("executions-aborted", total.aborted);
    rep.add("executions-satisfying", total.sat);
    rep.add("executions-dissatisfying", total.dissat);
    // --- existence claim: d
    if ty.corr.dissatisfiable && matches!(base, LBase::B | LBase::W) {
        if total.sigfree_dissat == 0 {
            if incomplete {
                rep.inconclusive("dissatisfaction-not-found-within-budget");
            } else {
                rep.violation(
                    case,
                    format!("C06:dissatisfiable:{}:{}", cx.name(), frag.name()),
                    format!("{} [{}] is typed {} (dissatisfiable) but no input without a valid signature makes {} leave exactly 0 (exhaustive over the alphabet, {} executions)", s, cx.name(), ty, hex(&script), total.completed + total.aborted),
                );
            }
        } else {
            rep.count("d-claim-witnessed");
        }
    }
    if ty.corr.dissatisfiable && base == LBase::V {
        rep.violation(case, format!("C06:dissatisfiable:{}:V", cx.name()), format!("{} is a V fragment typed dissatisfiable", s));
    }
    if incomplete {
        rep.count("exploration-incomplete(universal-claims-checked-on-the-part-explored)");
    } else {
        rep.count("exploration-exhaustive");
    }
    if total.completed > 0 {
        rep.nontrivial(&format!("{}|{}", cx.name(), s));
        rep.count(&format!("base:{:?}", base));
        let tl = format!("{}", ty);
        rep.count(&format!("labels:{}", tl.chars().filter(|c| "zonduesfm".contains(*c)).count()));
    }
    fired
}

/// Labels that are deliberately too strong must be refuted by the executions; otherwise the
/// monitor is blind and the run is reported as broken (ORACLE: key => exit 2).
fn controls(world: &World, rep: &mut Report, scfg: &SearchCfg) {
    use crate::frag::KeyRef;
    let k = |id: usize| KeyRef { id, form: KeyForm::Compressed };
    let pk = |id: usize| Frag::Check(Box::new(Frag::PkK(k(id))));
    let cases: Vec<(&str, Frag, Box<dyn Fn(&mut Type)>, &str)> = vec![
        ("after claimed unit", Frag::After(1000), Box::new(|t: &mut Type| t.corr.unit = true), "unit"),
        ("sha256 claimed forced", Frag::Sha256(0), Box::new(|t: &mut Type| t.mall.dissat = Dissat::None), "forced"),
        ("older claimed signed", Frag::Older(5), Box::new(|t: &mut Type| t.mall.signed = true), "signed"),
        ("c:pk_k claimed zero-argument", pk(0), Box::new(|t: &mut Type| t.corr.input = Input::Zero), "input:z"),
        ("multi claimed one-argument", Frag::Multi(2, vec![k(0), k(1), k(2)]), Box::new(|t: &mut Type| t.corr.input = Input::One), "input:o"),
        ("or_i(pk,pk) claimed nonzero", Frag::OrI(Box::new(pk(0)), Box::new(pk(1))), Box::new(|t: &mut Type| t.corr.input = Input::AnyNonZero), "input:n"),
        ("1 claimed dissatisfiable", Frag::True, Box::new(|t: &mut Type| t.corr.dissatisfiable = true), "dissatisfiable"),
        ("and_v(v:pk,after) claimed dissatisfiable", Frag::AndV(Box::new(Frag::Verify(Box::new(pk(0)))), Box::new(Frag::After(7))), Box::new(|t: &mut Type| t.corr.dissatisfiable = true), "dissatisfiable"),
        ("or_b(pk,a:sha256) claimed signed", Frag::OrB(Box::new(pk(0)), Box::new(Frag::Alt(Box::new(Frag::Sha256(1))))), Box::new(|t: &mut Type| t.mall.signed = true), "signed"),
        ("v:pk claimed B", Frag::Verify(Box::new(pk(1))), Box::new(|t: &mut Type| t.corr.base = LBase::B), "shape:B"),
        ("a:pk claimed B", Frag::Alt(Box::new(pk(1))), Box::new(|t: &mut Type| t.corr.base = LBase::B), "shape:B"),
        ("pk_k claimed B and unit", Frag::PkK(k(2)), Box::new(|t: &mut Type| { t.corr.base = LBase::B; t.corr.unit = true }), "unit"),
    ];
    for (name, frag, forge, expect) in cases {
        let fired = judge::<Segwitv0>(Cx::Segwitv0, &frag, world, rep, 0, scfg, Some(&*forge), &|_| None);
        if fired.iter().any(|f| f == expect) {
            rep.count("control-refuted");
        } else {
            rep.violation(0, format!("ORACLE:c06-control-missed:{}", expect), format!("forged label not refuted: {} (fired: {:?})", name, fired));
        }
    }
}

/// Small-scope enumeration: every combinator and wrapper over every tuple of children from a
/// pool of small fragments of assorted types (well typed or not: what the LIBRARY accepts is
/// executed). A typing rule that admits a wrong composition shows at depth one.
fn pool(slot: usize, cx: Cx, small: bool) -> Vec<Frag> {
    use crate::frag::KeyRef;
    let form = if cx == Cx::Tap { KeyForm::XOnly } else { KeyForm::Compressed };
    let k0 = KeyRef { id: (2 * slot) % crate::world::N_KEYS, form };
    let k1 = KeyRef { id: (2 * slot + 1) % crate::world::N_KEYS, form };
    let bx = |x: Frag| Box::new(x);
    let pk = Frag::Check(bx(Frag::PkK(k0)));
    let multi = if cx == Cx::Tap { Frag::MultiA(1, vec![k0, k1]) } else { Frag::Multi(1, vec![k0, k1]) };
    let mut v = vec![
        pk.clone(),
        Frag::After(2),
        Frag::Older(2),
        Frag::Sha256(slot % crate::world::N_PRE),
        Frag::Verify(bx(pk.clone())),
        Frag::Alt(bx(pk.clone())),
        Frag::Swap(bx(pk.clone())),
        Frag::OrI(bx(Frag::After(2)), bx(Frag::False)),
        Frag::OrI(bx(Frag::False), bx(Frag::Older(3))),
        Frag::PkK(k0),
        Frag::True,
        Frag::False,
        Frag::Alt(bx(Frag::After(3))),
        Frag::Alt(bx(Frag::Sha256(slot % crate::world::N_PRE))),
    ];
    if !small {
        // the multisig flavour of the OTHER script version: must be refused, or else behave as typed
        let foreign = if cx == Cx::Tap { Frag::SortedMulti(1, vec![k0, k1]) } else { Frag::SortedMultiA(1, vec![k0, k1]) };
        let foreign2 = if cx == Cx::Tap { Frag::Multi(2, vec![k0, k1]) } else { Frag::MultiA(2, vec![k0, k1]) };
        v.extend([foreign, foreign2]);
        v.extend([
            Frag::PkH(k1),
            Frag::Check(bx(Frag::PkH(k1))),
            multi.clone(),
            Frag::Alt(bx(multi)),
            Frag::NonZero(bx(pk.clone())),
            Frag::ZeroNotEqual(bx(Frag::Older(2))),
            Frag::DupIf(bx(Frag::Verify(bx(Frag::Older(2))))),
            Frag::Verify(bx(Frag::After(2))),
            Frag::Verify(bx(Frag::Sha256(slot % crate::world::N_PRE))),
            Frag::AndV(bx(Frag::Verify(bx(pk.clone()))), bx(Frag::True)),
            Frag::AndV(bx(Frag::Verify(bx(pk.clone()))), bx(Frag::After(2))),
            Frag::Swap(bx(Frag::Sha256(slot % crate::world::N_PRE))),
            Frag::Alt(bx(Frag::OrI(bx(Frag::After(2)), bx(Frag::False)))),
            Frag::Swap(bx(Frag::OrI(bx(Frag::False), bx(pk.clone())))),
        ]);
    }
    v
}

fn enumerated(cx: Cx) -> Vec<Frag> {
    let bx = |x: &Frag| Box::new(x.clone());
    let mut out = vec![];
    let (p0, p1) = (pool(0, cx, false), pool(1, cx, false));
    for a in &p0 {
        for b in &p1 {
            out.push(Frag::AndV(bx(a), bx(b)));
            out.push(Frag::AndB(bx(a), bx(b)));
            out.push(Frag::OrB(bx(a), bx(b)));
            out.push(Frag::OrC(bx(a), bx(b)));
            out.push(Frag::OrD(bx(a), bx(b)));
            out.push(Frag::OrI(bx(a), bx(b)));
            out.push(Frag::Thresh(1, vec![a.clone(), b.clone()]));
            out.push(Frag::Thresh(2, vec![a.clone(), b.clone()]));
        }
    }
    let (s0, s1, s2) = (pool(0, cx, true), pool(1, cx, true), pool(2, cx, true));
    for a in &s0 {
        for b in &s1 {
            for c in &s2 {
                out.push(Frag::AndOr(bx(a), bx(b), bx(c)));
                for k in 1..=3 {
                    out.push(Frag::Thresh(k, vec![a.clone(), b.clone(), c.clone()]));
                }
            }
        }
    }
    let wrap = |w: usize, x: &Frag| -> Frag {
        match w {
            0 => Frag::Alt(bx(x)),
            1 => Frag::Swap(bx(x)),
            2 => Frag::Check(bx(x)),
            3 => Frag::DupIf(bx(x)),
            4 => Frag::Verify(bx(x)),
            5 => Frag::NonZero(bx(x)),
            6 => Frag::ZeroNotEqual(bx(x)),
            7 => Frag::AndV(bx(x), Box::new(Frag::True)),
            8 => Frag::OrI(Box::new(Frag::False), bx(x)),
            _ => Frag::OrI(bx(x), Box::new(Frag::False)),
        }
    };
    for x in &p0 {
        for w in 0..10 {
            let y = wrap(w, x);
            for w2 in 0..10 {
                out.push(wrap(w2, &y));
            }
            out.push(y);
        }
    }
    out
}

/// Programmatic construction with the context's own key type.
fn ast<Ctx: ScriptContext>(f: &Frag, world: &World) -> Option<Miniscript<Ctx::Key, Ctx>>
where
    Ctx::Key: FromStr
        + miniscript::MiniscriptKey<
            Sha256 = bitcoin::hashes::sha256::Hash,
            Hash256 = miniscript::hash256::Hash,
            Ripemd160 = bitcoin::hashes::ripemd160::Hash,
            Hash160 = bitcoin::hashes::hash160::Hash,
        >,
{
    crate::astbuild::build::<Ctx::Key, Ctx>(f, world, &|k: &crate::frag::KeyRef| Ctx::Key::from_str(&crate::frag::Names::key(world, k)).ok()).ok()
}

pub fn search_cfg(tier: Tier) -> SearchCfg {
    match tier {
        Tier::Quick => SearchCfg { max_steps: 60_000, max_vars: 30, max_results: usize::MAX },
        Tier::Thorough => SearchCfg { max_steps: 600_000, max_vars: 45, max_results: usize::MAX },
    }
}

pub fn run(cfg: &RunCfg, rep: &mut Report) {
    let world = World::new(cfg.seed);
    let total = cfg.n_cases(16_000, 110_000);
    let max_nodes = if cfg.tier == Tier::Thorough { 14 } else { 9 };
    let scfg = search_cfg(cfg.tier);
    if cfg.only_case.is_none() {
        controls(&world, rep, &scfg);
    }
    for i in cfg.cases(total) {
        if i >= 0x0600_0000 {
            break;
        }
        let mut rng = cfg.case_rng(i);
        let cx = Cx::ALL[rng.below(4)];
        let mut gc = GenCfg::new(cx, max_nodes);
        gc.repeat_keys = rng.chance(1, 3);
        gc.timelock_heavy = rng.chance(1, 6);
        // the property speaks about what the LIBRARY considers well typed: a third of the cases
        // leave the specification's guidance now and then; what the library still accepts is run
        if rng.chance(1, 3) {
            gc.chaos_pct = 10 + rng.below(25) as u32;
        }
        let budget = 1 + rng.below(max_nodes);
        let want = *rng.pick(&[Base::B, Base::B, Base::B, Base::V, Base::K, Base::W, Base::W]);
        let frag = {
            let mut g = Gen::new(&mut rng, gc);
            g.gen(want, budget)
        };
        match cx {
            Cx::Bare => judge::<BareCtx>(cx, &frag, &world, rep, i, &scfg, None, &|f| ast::<BareCtx>(f, &world)),
            Cx::Legacy => judge::<Legacy>(cx, &frag, &world, rep, i, &scfg, None, &|f| ast::<Legacy>(f, &world)),
            Cx::Segwitv0 => judge::<Segwitv0>(cx, &frag, &world, rep, i, &scfg, None, &|f| ast::<Segwitv0>(f, &world)),
            Cx::Tap => judge::<Tap>(cx, &frag, &world, rep, i, &scfg, None, &|f| ast::<Tap>(f, &world)),
        };
        if rep.samples.len() < rep.max_samples && i % 499 == 0 {
            rep.sample(format!("[{}] {}", cx.name(), frag.to_string_with(&world)));
        }
    }
    // small-scope enumeration (case ids from ENUM_BASE; the same list on every tree)
    const ENUM_BASE: u64 = 0x0600_0000;
    let mut idx = 0u64;
    for cx in Cx::ALL {
        for frag in enumerated(cx) {
            let id = ENUM_BASE + idx;
            idx += 1;
            let mine = match cfg.only_case {
                Some(c) => c == id,
                None => id % cfg.nshards == cfg.shard,
            };
            if !mine {
                continue;
            }
            rep.count("enumerated-small-scope");
            match cx {
                Cx::Bare => judge::<BareCtx>(cx, &frag, &world, rep, id, &scfg, None, &|f| ast::<BareCtx>(f, &world)),
                Cx::Legacy => judge::<Legacy>(cx, &frag, &world, rep, id, &scfg, None, &|f| ast::<Legacy>(f, &world)),
                Cx::Segwitv0 => judge::<Segwitv0>(cx, &frag, &world, rep, id, &scfg, None, &|f| ast::<Segwitv0>(f, &world)),
                Cx::Tap => judge::<Tap>(cx, &frag, &world, rep, id, &scfg, None, &|f| ast::<Tap>(f, &world)),
            };
        }
    }
    if rep.samples.is_empty() {
        rep.sample("(see counters)".into());
    }
}
