#![allow(deprecated)]
//! C16: descriptors map to the standard output scripts, addresses and derived keys.
//! Oracles: output templates from BIP-13/16/141/143/341, oracle::bip32, Address::from_script.

use std::str::FromStr;

use miniscript::bitcoin;
use miniscript::{DefiniteDescriptorKey, Descriptor, DescriptorPublicKey, ForEachKey};

use bitcoin::hashes::{hash160, sha256, Hash};
use bitcoin::{Address, Network, ScriptBuf};

use super::{guarded, last_panic_loc, norm_loc, Report, RunCfg, Tier};
use crate::frag::{Cx, Gen, GenCfg, KeyForm, KeyRef, Names};
use crate::oracle::bip341;
use crate::oracle::spec_types::Base;
use crate::prng::Rng;
use crate::refvm::script::push_minimal;
use crate::refvm::verify::p2pkh_script;
use crate::world::{hex, Dk, KeyExpr, World};

fn h160(b: &[u8]) -> Vec<u8> { hash160::Hash::hash(b).to_byte_array().to_vec() }
fn sha(b: &[u8]) -> Vec<u8> { sha256::Hash::hash(b).to_byte_array().to_vec() }
fn p2sh(redeem: &[u8]) -> Vec<u8> {
    let mut s = vec![0xa9, 0x14];
    s.extend(h160(redeem));
    s.push(0x87);
    s
}
fn p2wsh(ws: &[u8]) -> Vec<u8> {
    let mut s = vec![0x00, 0x20];
    s.extend(sha(ws));
    s
}
fn p2wpkh(key: &[u8]) -> Vec<u8> {
    let mut s = vec![0x00, 0x14];
    s.extend(h160(key));
    s
}
fn push_only(data: &[u8]) -> Vec<u8> {
    let mut s = vec![];
    push_minimal(&mut s, data);
    s
}

struct Expect {
    spk: Vec<u8>,
    explicit: Option<Vec<u8>>,
    script_code: Option<Vec<u8>>,
    unsigned_script_sig: Vec<u8>,
}

/// The standard encodings for a descriptor of the given shape. `inner` = miniscript script
/// bytes for ms-based wrappers; `key` = serialized key for key-based ones.
fn expect(kind: &str, inner: &[u8], key: &[u8], world: &World, xonly_internal: Option<&bitcoin::secp256k1::XOnlyPublicKey>, root: Option<[u8; 32]>) -> Option<Expect> {
    Some(match kind {
        "pk" => {
            let mut s = push_only(key);
            s.push(0xac);
            Expect { spk: s.clone(), explicit: Some(s.clone()), script_code: Some(s), unsigned_script_sig: vec![] }
        }
        "pkh" => {
            let s = p2pkh_script(&h160(key));
            Expect { spk: s.clone(), explicit: Some(s.clone()), script_code: Some(s), unsigned_script_sig: vec![] }
        }
        "wpkh" => {
            let s = p2wpkh(key);
            Expect { spk: s.clone(), explicit: Some(s), script_code: Some(p2pkh_script(&h160(key))), unsigned_script_sig: vec![] }
        }
        "sh-wpkh" => {
            let redeem = p2wpkh(key);
            Expect { spk: p2sh(&redeem), explicit: Some(redeem.clone()), script_code: Some(p2pkh_script(&h160(key))), unsigned_script_sig: push_only(&redeem) }
        }
        "bare" => Expect { spk: inner.to_vec(), explicit: Some(inner.to_vec()), script_code: Some(inner.to_vec()), unsigned_script_sig: vec![] },
        "sh" => Expect { spk: p2sh(inner), explicit: Some(inner.to_vec()), script_code: Some(inner.to_vec()), unsigned_script_sig: vec![] },
        "wsh" => Expect { spk: p2wsh(inner), explicit: Some(inner.to_vec()), script_code: Some(inner.to_vec()), unsigned_script_sig: vec![] },
        "sh-wsh" => {
            let redeem = p2wsh(inner);
            Expect { spk: p2sh(&redeem), explicit: Some(inner.to_vec()), script_code: Some(inner.to_vec()), unsigned_script_sig: push_only(&redeem) }
        }
        "tr" => {
            let (q, _) = bip341::output_key(&world.secp, xonly_internal?, root)?;
            let mut s = vec![0x51, 0x20];
            s.extend_from_slice(&q.serialize());
            Expect { spk: s, explicit: None, script_code: None, unsigned_script_sig: vec![] }
        }
        _ => return None,
    })
}

fn check_templates(rep: &mut Report, case: u64, world: &World, rng: &mut Rng, max_nodes: usize) {
    let kid = rng.below(world.keys.len());
    let ki = &world.keys[kid];
    let kinds = ["pk", "pkh", "wpkh", "sh-wpkh", "bare", "sh", "wsh", "sh-wsh", "tr"];
    let kind = *rng.pick(&kinds);
    let unc = matches!(kind, "pk" | "pkh") && rng.chance(1, 3);
    let key_bytes: Vec<u8> = if unc { ki.pk.serialize_uncompressed().to_vec() } else { ki.pk.serialize().to_vec() };
    let key_hex = if unc { ki.uncompressed_hex.clone() } else { ki.compressed_hex.clone() };
    let cx = match kind {
        "bare" => Cx::Bare,
        "sh" => Cx::Legacy,
        "wsh" | "sh-wsh" => Cx::Segwitv0,
        _ => Cx::Tap,
    };
    // miniscript part (for ms-based wrappers) parsed separately to obtain its script
    let (desc_str, inner): (String, Vec<u8>) = match kind {
        "pk" => (format!("pk({})", key_hex), vec![]),
        "pkh" => (format!("pkh({})", key_hex), vec![]),
        "wpkh" => (format!("wpkh({})", key_hex), vec![]),
        "sh-wpkh" => (format!("sh(wpkh({}))", key_hex), vec![]),
        "tr" => (format!("tr({})", ki.xonly_hex), vec![]),
        _ => {
            let f = if kind == "bare" {
                crate::frag::Frag::Check(Box::new(crate::frag::Frag::PkK(KeyRef { id: kid, form: KeyForm::Compressed })))
            } else {
                let budget = 1 + rng.below(max_nodes);
                let mut g = Gen::new(rng, GenCfg::new(cx, max_nodes));
                g.gen(Base::B, budget)
            };
            let ms = f.to_string_with(world);
            // the witness/redeem script itself: encode() of the miniscript (its correctness is C01/C04's subject)
            let script = match cx {
                Cx::Bare => miniscript::Miniscript::<Dk, miniscript::BareCtx>::from_str_insane(&ms).ok().map(|m| m.encode().to_bytes()),
                Cx::Legacy => miniscript::Miniscript::<Dk, miniscript::Legacy>::from_str_insane(&ms).ok().map(|m| m.encode().to_bytes()),
                _ => miniscript::Miniscript::<Dk, miniscript::Segwitv0>::from_str_insane(&ms).ok().map(|m| m.encode().to_bytes()),
            };
            let script = match script {
                Some(s) => s,
                None => return,
            };
            let d = match kind {
                "bare" => ms.clone(),
                "sh" => format!("sh({})", ms),
                "wsh" => format!("wsh({})", ms),
                _ => format!("sh(wsh({}))", ms),
            };
            (d, script)
        }
    };
    rep.eval();
    let d = match guarded(|| Descriptor::<Dk>::from_str(&desc_str)) {
        Ok(Ok(d)) => d,
        _ => {
            rep.count("descriptor-rejected");
            return;
        }
    };
    let exp = match expect(kind, &inner, &key_bytes, world, Some(&ki.xonly), None) {
        Some(e) => e,
        None => return,
    };
    let r = guarded(std::panic::AssertUnwindSafe(|| {
        (
            d.script_pubkey().to_bytes(),
            d.explicit_script().ok().map(|s| s.to_bytes()),
            d.script_code().ok().map(|s| s.to_bytes()),
            d.unsigned_script_sig().to_bytes(),
            [Network::Bitcoin, Network::Testnet, Network::Signet, Network::Regtest].map(|n| d.address(n).ok().map(|a| a.to_string())),
        )
    }));
    let (spk, explicit, code, uss, addrs) = match r {
        Ok(x) => x,
        Err(m) => {
            rep.violation(case, format!("C16:panic:script-api:{}", norm_loc(&last_panic_loc())), format!("script API panicked ({}) on {}", m, desc_str));
            return;
        }
    };
    rep.nontrivial(&format!("tmpl|{}", desc_str));
    if spk != exp.spk {
        rep.violation(case, format!("C16:script_pubkey:{}", kind), format!("{}: script_pubkey {} but the standard encoding is {}", desc_str, hex(&spk), hex(&exp.spk)));
    }
    if kind != "tr" {
        if explicit != exp.explicit {
            rep.violation(case, format!("C16:explicit_script:{}", kind), format!("{}: explicit_script {:?} expected {:?}", desc_str, explicit.map(|s| hex(&s)), exp.explicit.as_ref().map(|s| hex(s))));
        }
        if code != exp.script_code {
            rep.violation(case, format!("C16:script_code:{}", kind), format!("{}: script_code {:?} expected {:?}", desc_str, code.map(|s| hex(&s)), exp.script_code.as_ref().map(|s| hex(s))));
        }
    } else if explicit.is_some() || code.is_some() {
        rep.violation(case, "C16:tr-has-script-code".into(), desc_str.clone());
    }
    if uss != exp.unsigned_script_sig {
        rep.violation(case, format!("C16:unsigned_script_sig:{}", kind), format!("{}: unsigned_script_sig {} expected {}", desc_str, hex(&uss), hex(&exp.unsigned_script_sig)));
    }
    // addresses agree with the scriptPubKey on every network (bare outputs have no address)
    for (n, a) in [Network::Bitcoin, Network::Testnet, Network::Signet, Network::Regtest].iter().zip(addrs.iter()) {
        let want = Address::from_script(&ScriptBuf::from_bytes(exp.spk.clone()), *n).ok().map(|a| a.to_string());
        if *a != want {
            rep.violation(case, format!("C16:address:{}:{:?}", kind, n), format!("{}: address {:?} but the scriptPubKey encodes as {:?}", desc_str, a, want));
        } else {
            rep.count("address-agrees-with-spk");
        }
    }
}

/// Descriptors over xpub key expressions: derivation against the BIP-32 model.
fn check_derivation(rep: &mut Report, case: u64, world: &World, rng: &mut Rng) {
    let n_keys = 1 + rng.below(3);
    let tap = rng.chance(1, 4);
    let multipath = rng.chance(1, 3);
    let n_alt = 2 + rng.below(3);
    let mut exprs: Vec<KeyExpr> = vec![];
    while exprs.len() < n_keys {
        let k = world.gen_xkey(rng, true, multipath, false);
        if multipath && k.n_multipath != n_alt && k.n_multipath != 1 {
            continue;
        }
        exprs.push(k);
    }
    let any_wild = exprs.iter().any(|k| k.wildcard == 1);
    let keys: Vec<String> = exprs.iter().map(|k| k.text.clone()).collect();
    let template: String = match (tap, n_keys) {
        (true, 1) => "tr(@0)".into(),
        (true, 2) => "tr(@0,pk(@1))".into(),
        (true, _) => "tr(@0,{pk(@1),pk(@2)})".into(),
        (false, 1) => (*rng.pick(&["wpkh(@0)", "pkh(@0)", "sh(wpkh(@0))", "wsh(pk(@0))", "pk(@0)"])).into(),
        (false, 2) => (*rng.pick(&["wsh(multi(2,@0,@1))", "sh(sortedmulti(1,@0,@1))", "wsh(and_v(v:pk(@0),pk(@1)))", "sh(wsh(or_d(pk(@0),pkh(@1))))"])).into(),
        (false, _) => (*rng.pick(&["wsh(sortedmulti(2,@0,@1,@2))", "wsh(thresh(2,pk(@0),s:pk(@1),s:pk(@2)))", "sh(multi(2,@0,@1,@2))"])).into(),
    };
    let fill = |t: &str, ks: &[String]| {
        let mut s = t.to_string();
        for (i, k) in ks.iter().enumerate().rev() {
            s = s.replace(&format!("@{}", i), k);
        }
        s
    };
    let ds = fill(&template, &keys);
    rep.eval();
    let d = match guarded(|| Descriptor::<DescriptorPublicKey>::from_str(&ds)) {
        Ok(Ok(d)) => d,
        Ok(Err(_)) => {
            rep.count("xpub-descriptor-rejected");
            return;
        }
        Err(m) => {
            rep.violation(case, format!("C16:panic:from_str:{}", norm_loc(&last_panic_loc())), format!("from_str panicked ({}) on {}", m, ds));
            return;
        }
    };
    let index = *rng.pick(&[0u32, 1, 2, 7, 100, 0x7fff_ffff]);
    // the model: every key expression derived independently, substituted as plain hex keys
    let model_desc = |alt: usize, idx: u32| -> Option<String> {
        let mut ks = vec![];
        for e in &exprs {
            let pk = world.derive_expr(e, alt, idx)?;
            ks.push(if tap { hex(&pk.x_only_public_key().0.serialize()) } else { hex(&pk.serialize()) });
        }
        Some(fill(&template, &ks))
    };
    let model_spk = |alt: usize, idx: u32| -> Option<Vec<u8>> {
        let s = model_desc(alt, idx)?;
        Descriptor::<DefiniteDescriptorKey>::from_str(&s).ok().map(|d| d.script_pubkey().to_bytes())
    };
    let is_multi = exprs.iter().any(|k| k.n_multipath > 1);
    // multipath split
    let singles: Vec<Descriptor<DescriptorPublicKey>> = if is_multi {
        match guarded(std::panic::AssertUnwindSafe(|| d.clone().into_single_descriptors())) {
            Ok(Ok(v)) => {
                let n = exprs.iter().map(|k| k.n_multipath).max().unwrap();
                if v.len() != n {
                    rep.violation(case, "C16:multipath-count".into(), format!("{} splits into {} descriptors, expected {}", ds, v.len(), n));
                }
                // each must equal the string with the j-th alternative selected
                for (j, sd) in v.iter().enumerate() {
                    let ks: Vec<String> = exprs
                        .iter()
                        .map(|e| {
                            let mut t = e.text.clone();
                            if let (Some(a), Some(b)) = (t.find('<'), t.find('>')) {
                                let alts: Vec<&str> = t[a + 1..b].split(';').collect();
                                let pick = alts[j % alts.len()].to_string();
                                t.replace_range(a..=b, &pick);
                            }
                            t
                        })
                        .collect();
                    let want = fill(&template, &ks);
                    match Descriptor::<DescriptorPublicKey>::from_str(&want) {
                        Ok(w) if w == *sd => rep.count("multipath-alternative-equals-substitution"),
                        Ok(w) => rep.violation(case, "C16:multipath-split".into(), format!("alternative {} of {} is {} but selecting the alternative textually gives {}", j, ds, sd, w)),
                        Err(_) => rep.count("multipath-substituted-unparseable(info)"),
                    }
                }
                v
            }
            Ok(Err(_)) => {
                rep.count("multipath-split-refused");
                return;
            }
            Err(m) => {
                rep.violation(case, format!("C16:panic:into_single_descriptors:{}", norm_loc(&last_panic_loc())), format!("{} on {}", m, ds));
                return;
            }
        }
    } else {
        vec![d.clone()]
    };
    for (alt, sd) in singles.iter().enumerate() {
        rep.eval();
        let r = guarded(std::panic::AssertUnwindSafe(|| {
            let at = sd.at_derivation_index(index).map(|x| (x.to_string(), x.derived_descriptor(&world.secp).script_pubkey().to_bytes()));
            let dd = sd.derived_descriptor(&world.secp, index).map(|x| x.script_pubkey().to_bytes());
            let idef = sd.into_definite().map(|x| x.derived_descriptor(&world.secp).script_pubkey().to_bytes());
            // the definite descriptor used as it is (keys still key expressions) against its own
            // derived form (plain public keys): same scripts
            let direct = sd.at_derivation_index(index).ok().map(|x| {
                let y = x.derived_descriptor(&world.secp);
                (
                    x.script_pubkey().to_bytes(),
                    y.script_pubkey().to_bytes(),
                    x.explicit_script().ok().map(|s| s.to_bytes()),
                    y.explicit_script().ok().map(|s| s.to_bytes()),
                    x.script_code().ok().map(|s| s.to_bytes()),
                    y.script_code().ok().map(|s| s.to_bytes()),
                )
            });
            // every address the derived descriptor has encodes its scriptPubKey (tap trees included)
            if let Ok(x) = sd.at_derivation_index(index) {
                let y = x.derived_descriptor(&world.secp);
                for n in [Network::Bitcoin, Network::Testnet, Network::Signet, Network::Regtest] {
                    let (ax, ay) = (x.address(n).ok().map(|a| a.script_pubkey().to_bytes()), y.address(n).ok().map(|a| a.script_pubkey().to_bytes()));
                    let spk = y.script_pubkey().to_bytes();
                    if ax.as_ref().map(|a| *a != spk).unwrap_or(false) || ay.as_ref().map(|a| *a != spk).unwrap_or(false) || ax.is_some() != ay.is_some() {
                        panic!("ADDRESS-VS-SPK: on {:?} the address encodes {:?} / {:?}, the scriptPubKey is {}", n, ax.map(|a| hex(&a)), ay.map(|a| hex(&a)), hex(&spk));
                    }
                }
            }
            if let Some((a, b, c, d, e, f)) = direct {
                if a != b || c != d || e != f {
                    panic!("DEFINITE-VS-DERIVED: script_pubkey {} / {}, explicit_script {:?} / {:?}, script_code {:?} / {:?}", hex(&a), hex(&b), c.map(|x| hex(&x)), d.map(|x| hex(&x)), e.map(|x| hex(&x)), f.map(|x| hex(&x)));
                }
            }
            (at.ok(), dd.ok(), idef.ok())
        }));
        let (at, dd, idef) = match r {
            Err(m) if m.contains("ADDRESS-VS-SPK") => {
                rep.violation(case, "C16:address-vs-script_pubkey:derived".into(), format!("{} at index {}: {}", sd, index, m));
                continue;
            }
            Err(m) if m.contains("DEFINITE-VS-DERIVED") => {
                rep.violation(case, "C16:definite-descriptor-vs-derived_descriptor".into(), format!("{} at index {}: the definite descriptor and its derived_descriptor() disagree: {}", sd, index, m));
                continue;
            }
            Ok(x) => x,
            Err(m) => {
                rep.violation(case, format!("C16:panic:derive:{}", norm_loc(&last_panic_loc())), format!("derivation API panicked ({}) on {} index {}", m, sd, index));
                continue;
            }
        };
        let want = model_spk(alt, index);
        let hardened_idx = index >= 0x8000_0000;
        rep.nontrivial(&format!("derive|{}|{}", sd, index));
        match (&at, &want) {
            (Some((_, spk)), Some(w)) => {
                if spk != w {
                    rep.violation(case, "C16:derived-key-differs-from-bip32".into(), format!("{} at index {}: scriptPubKey {} but independent BIP-32 derivation gives {} ({})", sd, index, hex(spk), hex(w), model_desc(alt, index).unwrap_or_default()));
                } else {
                    rep.count("derivation-equals-bip32-model");
                }
            }
            (None, Some(_)) if !hardened_idx => rep.violation(case, "C16:derivation-refused".into(), format!("{} at index {} refused although every step is unhardened", sd, index)),
            _ => rep.count("derivation-refused-or-no-model"),
        }
        if let (Some((_, a)), Some(b)) = (&at, &dd) {
            if a != b {
                rep.violation(case, "C16:derived_descriptor-vs-at_derivation_index".into(), format!("{} index {}", sd, index));
            }
        }
        if !any_wild {
            if let (Some(a), Some(w)) = (&idef, &want) {
                if a != w {
                    rep.violation(case, "C16:into_definite-differs-from-bip32".into(), format!("{}: {} vs {}", sd, hex(a), hex(w)));
                }
            }
        } else if idef.is_some() {
            rep.violation(case, "C16:into_definite-accepts-wildcard".into(), format!("{}", sd));
        }
        // find_derivation_index_for_spk returns the index used
        if any_wild && index < 200 {
            if let Some(w) = &want {
                let spk = ScriptBuf::from_bytes(w.clone());
                // the search range does not have to start at 0
                let lo = if index > 0 && rng.coin() { rng.below(index as usize + 1) as u32 } else { 0 };
                if index > 0 {
                    // a range that ends before the index must not find it
                    match guarded(std::panic::AssertUnwindSafe(|| sd.find_derivation_index_for_spk(&world.secp, &spk, 0..index))) {
                        Ok(Ok(None)) => rep.count("find_derivation_index-none-outside-range"),
                        Ok(other) => rep.violation(case, "C16:find_derivation_index".into(), format!("{}: the scriptPubKey of index {} was 'found' in 0..{}: {:?}", sd, index, index, other.map(|o| o.map(|x| x.0)))),
                        Err(m) => rep.violation(case, format!("C16:panic:find_derivation_index:{}", norm_loc(&last_panic_loc())), format!("{} on {}", m, sd)),
                    }
                }
                match guarded(std::panic::AssertUnwindSafe(|| sd.find_derivation_index_for_spk(&world.secp, &spk, lo..201))) {
                    Ok(Ok(Some((i, dd)))) if i == index && dd.script_pubkey() == spk => rep.count("find_derivation_index-exact"),
                    Ok(other) => {
                        // several indices can only collide if the descriptor ignores the index (no wildcard key used): not here
                        rep.violation(case, "C16:find_derivation_index".into(), format!("{}: looked for the scriptPubKey of index {} in {}..201, got {:?}", sd, index, lo, other.map(|o| o.map(|x| x.0))));
                    }
                    Err(m) => rep.violation(case, format!("C16:panic:find_derivation_index:{}", norm_loc(&last_panic_loc())), format!("{} on {}", m, sd)),
                }
            }
        }
    }
    // hardened wildcard must be refused, never mis-derived
    {
        let hk = world.gen_xkey(rng, true, false, true);
        if hk.wildcard == 2 {
            let s = format!("wpkh({})", hk.text);
            if let Ok(Ok(hd)) = guarded(|| Descriptor::<DescriptorPublicKey>::from_str(&s)) {
                rep.eval();
                match guarded(std::panic::AssertUnwindSafe(|| hd.at_derivation_index(3).is_ok())) {
                    Ok(false) => rep.count("hardened-wildcard-derivation-refused"),
                    Ok(true) => rep.violation(case, "C16:hardened-wildcard-derived".into(), format!("{} derived at index 3 from a public key", s)),
                    Err(m) => rep.violation(case, format!("C16:panic:hardened:{}", norm_loc(&last_panic_loc())), format!("{} on {}", m, s)),
                }
            }
        }
    }
    let _ = d.for_each_key(|_| true);
}

/// sortedmulti: every permutation of the key list gives the same output.
fn check_sortedmulti(rep: &mut Report, case: u64, world: &World, rng: &mut Rng) {
    let n = 2 + rng.below(3);
    let k = 1 + rng.below(n);
    let mut ids: Vec<usize> = (0..world.keys.len()).collect();
    rng.shuffle(&mut ids);
    let ids = &ids[..n];
    let wrapper = *rng.pick(&["wsh(sortedmulti(@))", "sh(sortedmulti(@))", "sh(wsh(sortedmulti(@)))", "tr(I,sortedmulti_a(@))"]);
    let tap = wrapper.starts_with("tr");
    // tapscript keys may be written as full 33-byte keys (both parities): the order is still by x-only bytes
    let tap_full_keys = tap && rng.coin();
    // spellings that change how the key *expression* compares but not (or not only) the bytes pushed:
    // key origins in front of some keys, and uncompressed keys next to compressed ones in sh()
    let legacy_sh = wrapper.starts_with("sh(sortedmulti");
    let uncompressed_mask = if legacy_sh && rng.coin() { rng.below(256) } else { 0 };
    let origin_mask = if !tap && rng.coin() { rng.below(256) } else { 0 };
    let origin_salt = rng.below(0x1_0000);
    let bytes_of = |i: usize| -> Vec<u8> {
        if tap {
            world.keys[i].xonly.serialize().to_vec()
        } else if uncompressed_mask & (1 << i) != 0 {
            world.keys[i].pk.serialize_uncompressed().to_vec()
        } else {
            world.keys[i].pk.serialize().to_vec()
        }
    };
    let mk = |order: &[usize]| {
        let ks: Vec<String> = order
            .iter()
            .map(|i| {
                if tap && !tap_full_keys {
                    world.keys[*i].xonly_hex.clone()
                } else {
                    let body = if uncompressed_mask & (1 << *i) != 0 { world.keys[*i].uncompressed_hex.clone() } else { world.keys[*i].compressed_hex.clone() };
                    if origin_mask & (1 << *i) != 0 {
                        format!("[{:08x}/{}h/{}]{}", (origin_salt as u32).wrapping_mul(0x9e37_79b1).rotate_left(*i as u32 * 5), (origin_salt + *i * 3) % 50, *i, body)
                    } else {
                        body
                    }
                }
            })
            .collect();
        wrapper.replace('@', &format!("{},{}", k, ks.join(","))).replace('I', &world.keys[(ids[0] + 1) % 8].xonly_hex)
    };
    let mut spks = std::collections::BTreeSet::new();
    let mut order: Vec<usize> = ids.to_vec();
    for _ in 0..6 {
        rng.shuffle(&mut order);
        let s = mk(&order);
        rep.eval();
        match guarded(|| Descriptor::<Dk>::from_str(&s).map(|d| d.script_pubkey().to_bytes())) {
            Ok(Ok(spk)) => {
                spks.insert(spk);
            }
            Ok(Err(_)) => {
                rep.count("sortedmulti-rejected");
                return;
            }
            Err(m) => {
                rep.violation(case, format!("C16:panic:sortedmulti:{}", norm_loc(&last_panic_loc())), format!("{} on {}", m, s));
                return;
            }
        }
    }
    // the same outputs through the sortedmulti constructors, keys handed over in every order
    if !tap {
        let spell = |i: usize| -> Option<Dk> {
            let one = mk(&[i]);
            let a = one.find(',')? + 1;
            let b = one.find(')')?;
            Dk::from_str(&one[a..b]).ok()
        };
        let mut api_spks = std::collections::BTreeSet::new();
        let mut order: Vec<usize> = ids.to_vec();
        for _ in 0..4 {
            rng.shuffle(&mut order);
            let keys: Option<Vec<Dk>> = order.iter().map(|i| spell(*i)).collect();
            let keys = match keys {
                Some(k) => k,
                None => break,
            };
            rep.eval();
            let r = guarded(std::panic::AssertUnwindSafe(|| {
                let th = miniscript::Threshold::<Dk, 20>::new(k, keys.clone()).map_err(|e| e.to_string())?;
                let d = if wrapper.starts_with("wsh") {
                    Descriptor::new_wsh_sortedmulti(th)
                } else if wrapper.starts_with("sh(wsh") {
                    Descriptor::new_sh_wsh_sortedmulti(th)
                } else {
                    Descriptor::new_sh_sortedmulti(th)
                };
                d.map(|d| d.script_pubkey().to_bytes()).map_err(|e| e.to_string())
            }));
            match r {
                Ok(Ok(spk)) => {
                    api_spks.insert(spk);
                }
                Ok(Err(_)) => {
                    rep.count("sortedmulti-constructor-refused");
                    break;
                }
                Err(m) => {
                    rep.violation(case, format!("C16:panic:sortedmulti:{}", norm_loc(&last_panic_loc())), format!("{} on the constructor for {}", m, mk(ids)));
                    break;
                }
            }
        }
        if api_spks.len() > 1 || (api_spks.len() == 1 && spks.len() == 1 && api_spks != spks) {
            rep.violation(
                case,
                format!("C16:sortedmulti-constructor-order-dependent:{}", wrapper.split('(').next().unwrap_or("")),
                format!("the new_*_sortedmulti constructor gives {} different scriptPubKeys over key orders (the parsed form gives {}): {}", api_spks.len(), spks.len(), mk(ids)),
            );
        } else if api_spks.len() == 1 {
            rep.count("sortedmulti-constructor-order-independent");
        }
    }
    if spks.len() != 1 {
        rep.violation(case, format!("C16:sortedmulti-order-dependent:{}", wrapper.split('(').next().unwrap_or("")), format!("{} key orders give {} different scriptPubKeys: {}", n, spks.len(), mk(ids)));
    } else {
        rep.count("sortedmulti-order-independent");
        rep.nontrivial(&format!("sm|{}", mk(ids)));
        // and the script is the BIP-67 sorted plain multisig
        let mut sorted: Vec<usize> = ids.to_vec();
        sorted.sort_by_key(|i| bytes_of(*i));
        let plain = mk(&sorted).replace("sortedmulti_a", "multi_a").replace("sortedmulti", "multi");
        // BIP-67 is defined for compressed keys only: with an uncompressed key among them only the
        // order-independence above is judged
        if ids.iter().any(|i| uncompressed_mask & (1 << *i) != 0) {
            rep.count("sortedmulti-with-uncompressed-keys: order independence only");
        } else if let Ok(Ok(spk)) = guarded(|| Descriptor::<Dk>::from_str(&plain).map(|d| d.script_pubkey().to_bytes())) {
            if !spks.contains(&spk) {
                rep.violation(case, "C16:sortedmulti-not-bip67".into(), format!("{} differs from the lexicographically sorted multi {}", mk(ids), plain));
            }
        }
    }
}

/// Descriptors written with extended PRIVATE keys whose path mixes hardened and unhardened steps
/// in any order: the public descriptor `parse_descriptor` returns (hardened prefix applied to
/// the private key, the rest left on the xpub) has to derive the scripts of the full path.
fn check_secret_paths(rep: &mut Report, case: u64, world: &World, rng: &mut Rng) {
    use bitcoin::bip32::{ChildNumber, DerivationPath, Xpriv};
    let seed: Vec<u8> = (0..32).map(|_| rng.below(256) as u8).collect();
    let testnet = rng.chance(1, 4);
    let master = match Xpriv::new_master(if testnet { Network::Testnet } else { Network::Bitcoin }, &seed) {
        Ok(m) => m,
        Err(_) => return,
    };
    let n_steps = 1 + rng.below(4);
    let steps: Vec<ChildNumber> = (0..n_steps)
        .map(|_| {
            let idx = rng.below(5) as u32;
            if rng.coin() {
                ChildNumber::from_hardened_idx(idx).unwrap()
            } else {
                ChildNumber::from_normal_idx(idx).unwrap()
            }
        })
        .collect();
    // one step in three is a multipath step <a;b;..> of 2-4 alternatives drawn from three values, so
    // alternatives repeat (<0;1;0>): every alternative has to derive the path that selects it
    let mp_at: Option<usize> = if rng.chance(1, 3) { Some(rng.below(n_steps)) } else { None };
    let alts: Vec<ChildNumber> = match mp_at {
        Some(_) => {
            let hard = rng.chance(1, 4);
            (0..2 + rng.below(3))
                .map(|_| {
                    let idx = rng.below(3) as u32;
                    if hard { ChildNumber::from_hardened_idx(idx).unwrap() } else { ChildNumber::from_normal_idx(idx).unwrap() }
                })
                .collect()
        }
        None => vec![],
    };
    let wildcard = rng.chance(2, 3);
    let origin = if rng.chance(1, 3) { format!("[{}/44h/{}]", master.fingerprint(&world.secp), rng.below(3)) } else { String::new() };
    let path_text: String = steps
        .iter()
        .enumerate()
        .map(|(i, c)| if Some(i) == mp_at { format!("/<{}>", alts.iter().map(|a| a.to_string()).collect::<Vec<_>>().join(";")) } else { format!("/{}", c) })
        .collect();
    let key_text = format!("{}{}{}{}", origin, master, path_text, if wildcard { "/*" } else { "" });
    let wrapper = *rng.pick(&["wpkh(@)", "pkh(@)", "sh(wpkh(@))", "wsh(pk(@))", "tr(@)"]);
    let s = wrapper.replace('@', &key_text);
    let index = rng.below(4) as u32;
    rep.eval();
    let n_alt = if mp_at.is_some() { alts.len() } else { 1 };
    let r = guarded(std::panic::AssertUnwindSafe(|| {
        let (d, km) = Descriptor::parse_descriptor(&world.secp, &s).map_err(|e| e.to_string())?;
        let singles = if mp_at.is_some() { d.clone().into_single_descriptors().map_err(|e| e.to_string())? } else { vec![d.clone()] };
        let mut spks = vec![];
        for sd in &singles {
            spks.push(sd.at_derivation_index(index).map_err(|e| e.to_string())?.derived_descriptor(&world.secp).script_pubkey().to_bytes());
        }
        Ok::<_, String>((spks, d.to_string(), km.len()))
    }));
    // model: private derivation of the whole path with rust-bitcoin, then the same wrapper over the plain key
    let mut wants: Vec<Vec<u8>> = vec![];
    for j in 0..n_alt {
        let mut full: Vec<ChildNumber> = steps.clone();
        if let Some(i) = mp_at {
            full[i] = alts[j];
        }
        if wildcard {
            full.push(ChildNumber::from_normal_idx(index).unwrap());
        }
        let child = match master.derive_priv(&world.secp, &DerivationPath::from(full)) {
            Ok(c) => c,
            Err(_) => return,
        };
        let pk = bitcoin::secp256k1::PublicKey::from_secret_key(&world.secp, &child.private_key);
        let plain = if wrapper.starts_with("tr") { hex(&pk.x_only_public_key().0.serialize()) } else { hex(&pk.serialize()) };
        match Descriptor::<Dk>::from_str(&wrapper.replace('@', &plain)) {
            Ok(d) => wants.push(d.script_pubkey().to_bytes()),
            Err(_) => return,
        }
    }
    match r {
        Ok(Ok((spks, public, n))) => {
            rep.nontrivial(&format!("secret-path|{}|{}", s.len(), public));
            if mp_at.is_some() {
                rep.count("secret-key-multipath-descriptors");
            }
            if spks.len() != wants.len() {
                rep.violation(case, "C16:multipath-count".into(), format!("{} splits into {} descriptors, expected {}", s, spks.len(), wants.len()));
            } else if let Some(j) = (0..spks.len()).find(|&j| spks[j] != wants[j]) {
                rep.violation(
                    case,
                    if mp_at.is_some() { "C16:secret-key-multipath-alternative-differs-from-bip32".to_string() } else { "C16:secret-key-path-differs-from-bip32".to_string() },
                    format!("{} at index {} alternative {}: parse_descriptor gives the public descriptor {} ({} secret(s)) whose scriptPubKey is {}, private BIP-32 derivation of the written path gives {}", s, index, j, public, n, hex(&spks[j]), hex(&wants[j])),
                );
            } else {
                rep.count("secret-key-path-equals-bip32");
            }
        }
        Ok(Err(_)) => rep.count("secret-key-descriptor-refused"),
        Err(m) => rep.violation(case, format!("C16:panic:parse_descriptor:{}", norm_loc(&last_panic_loc())), format!("{} on {}", m, s)),
    }
}

pub fn run(cfg: &RunCfg, rep: &mut Report) {
    let world = World::new(cfg.seed);
    let total = cfg.n_cases(8_000, 150_000);
    let max_nodes = if cfg.tier == Tier::Thorough { 20 } else { 8 };
    for i in cfg.cases(total) {
        let mut rng = cfg.case_rng(i);
        check_templates(rep, i, &world, &mut rng, max_nodes);
        check_derivation(rep, i, &world, &mut rng);
        if i % 4 == 0 {
            check_sortedmulti(rep, i, &world, &mut rng);
        }
        if i % 2 == 1 {
            check_secret_paths(rep, i, &world, &mut rng);
        }
    }
    let _: Option<&dyn Names> = None;
    if rep.samples.is_empty() {
        rep.sample("(see counters)".into());
    }
}
