//! C20: key translation and key iteration preserve structure.
//! Oracle: with unique string key tokens, translation must equal textual token
//! substitution in the string form; iterators must visit exactly the key tokens.

use std::collections::BTreeMap;
use std::str::FromStr;

use miniscript::bitcoin::hashes::{hash160, ripemd160, sha256};
use miniscript::policy::{Concrete, Semantic};
use miniscript::{
    hash256, DefiniteDescriptorKey, Descriptor, ForEachKey, TranslateErr, Translator,
};

use super::c10::desc_strings;
use super::{guarded, last_panic_loc, norm_loc, Report, RunCfg, Tier};
use crate::pol::*;
use crate::prng::Rng;
use crate::world::World;

/// Replace every maximal alphanumeric token t by f(t) if Some.
fn subst_tokens(s: &str, f: &dyn Fn(&str) -> Option<String>) -> String {
    let mut out = String::new();
    let mut tok = String::new();
    let flush = |tok: &mut String, out: &mut String| {
        if !tok.is_empty() {
            match f(tok) {
                Some(r) => out.push_str(&r),
                None => out.push_str(tok),
            }
            tok.clear();
        }
    };
    for c in s.chars() {
        if c.is_ascii_alphanumeric() || c == '_' {
            tok.push(c);
        } else {
            flush(&mut tok, &mut out);
            out.push(c);
        }
    }
    flush(&mut tok, &mut out);
    out
}

fn key_tokens(s: &str) -> Vec<String> {
    let mut v = vec![];
    let mut tok = String::new();
    for c in s.chars().chain(std::iter::once(' ')) {
        if c.is_ascii_alphanumeric() || c == '_' {
            tok.push(c);
        } else {
            if tok.len() >= 2 && tok.starts_with('K') && tok[1..].chars().all(|c| c.is_ascii_digit()) {
                v.push(tok.clone());
            }
            tok.clear();
        }
    }
    v
}

/// String -> String renaming translator with call log and optional failure at the j-th key call.
struct Rename<'a> {
    map: &'a dyn Fn(&str) -> String,
    calls: Vec<String>,
    fail_at: Option<usize>,
}
impl Translator<String> for Rename<'_> {
    type TargetPk = String;
    type Error = String;
    fn pk(&mut self, pk: &String) -> Result<String, String> {
        if Some(self.calls.len()) == self.fail_at {
            self.calls.push(pk.clone());
            return Err(format!("translator refused {}", pk));
        }
        self.calls.push(pk.clone());
        Ok((self.map)(pk))
    }
    fn sha256(&mut self, h: &String) -> Result<String, String> { Ok(h.clone()) }
    fn hash256(&mut self, h: &String) -> Result<String, String> { Ok(h.clone()) }
    fn ripemd160(&mut self, h: &String) -> Result<String, String> { Ok(h.clone()) }
    fn hash160(&mut self, h: &String) -> Result<String, String> { Ok(h.clone()) }
}

/// String -> concrete key translator.
struct ToReal<'a> {
    keys: &'a BTreeMap<String, String>,
}
impl Translator<String> for ToReal<'_> {
    type TargetPk = DefiniteDescriptorKey;
    type Error = String;
    fn pk(&mut self, pk: &String) -> Result<DefiniteDescriptorKey, String> {
        let s = self.keys.get(pk).ok_or_else(|| format!("no key for {}", pk))?;
        DefiniteDescriptorKey::from_str(s).map_err(|e| e.to_string())
    }
    fn sha256(&mut self, h: &String) -> Result<sha256::Hash, String> { sha256::Hash::from_str(h).map_err(|e| e.to_string()) }
    fn hash256(&mut self, h: &String) -> Result<hash256::Hash, String> { hash256::Hash::from_str(h).map_err(|e| e.to_string()) }
    fn ripemd160(&mut self, h: &String) -> Result<ripemd160::Hash, String> { ripemd160::Hash::from_str(h).map_err(|e| e.to_string()) }
    fn hash160(&mut self, h: &String) -> Result<hash160::Hash, String> { hash160::Hash::from_str(h).map_err(|e| e.to_string()) }
}

fn ctx_of(desc: &str) -> &'static str {
    if desc.starts_with("tr(") {
        "tap"
    } else if desc.starts_with("wsh(") || desc.starts_with("sh(wsh(") || desc.starts_with("wpkh(") || desc.starts_with("sh(wpkh(") {
        "segwitv0"
    } else {
        "legacy"
    }
}

fn desc_case(rep: &mut Report, case: u64, rng: &mut Rng, world: &World, s: &str) {
    rep.eval();
    let d = match guarded(|| Descriptor::<String>::from_str(s)) {
        Ok(Ok(d)) => d,
        _ => {
            rep.count("descriptor-rejected");
            return;
        }
    };
    let body = format!("{:#}", d);
    let toks = key_tokens(&body);
    rep.nontrivial(&format!("d|{}", body));
    let kind = ctx_of(&body);

    // --- iterators
    let r = guarded(std::panic::AssertUnwindSafe(|| {
        let it: Vec<String> = d.iter_pk().collect();
        let mut fe = vec![];
        let all = d.for_each_key(|k| {
            fe.push(k.clone());
            true
        });
        // early exit: stop after the 2nd key
        let mut seen = vec![];
        let stopped = d.for_each_key(|k| {
            seen.push(k.clone());
            seen.len() < 2
        });
        let target = toks.get(toks.len() / 2).cloned().unwrap_or_default();
        let any = d.for_any_key(|k| *k == target);
        let each_not = d.for_each_key(|k| *k != target);
        (it, fe, all, seen, stopped, any, each_not)
    }));
    match r {
        Err(m) => rep.violation(case, format!("C20:panic:iterators:{}", norm_loc(&last_panic_loc())), format!("key iteration panicked ({}) on {}", m, body)),
        Ok((it, fe, all, seen, stopped, any, each_not)) => {
            let sorted = |v: &Vec<String>| {
                let mut x = v.clone();
                x.sort();
                x
            };
            // nth / skip / step_by / last / count agree with the plain walk
            match guarded(std::panic::AssertUnwindSafe(|| super::c15::iter_protocol(&|| d.iter_pk(), &|k: String| k, &it))) {
                Ok(None) => rep.count("iter_pk-protocol-checked"),
                Ok(Some(m)) => rep.violation(case, format!("C20:iter_pk-protocol:{}", m.split(' ').next().unwrap_or("")), format!("Descriptor::iter_pk on {}: {}", body, m)),
                Err(m) => rep.violation(case, format!("C20:panic:iterators:{}", norm_loc(&last_panic_loc())), format!("driving iter_pk panicked ({}) on {}", m, body)),
            }
            if sorted(&it) != sorted(&toks) {
                rep.violation(case, format!("C20:iter_pk-multiset:{}", kind), format!("iter_pk yields {:?} but the string form {} contains {:?}", it, body, toks));
            }
            if sorted(&fe) != sorted(&toks) || !all {
                rep.violation(case, format!("C20:for_each_key-multiset:{}", kind), format!("for_each_key visited {:?} (returned {}) but the string form {} contains {:?}", fe, all, body, toks));
            }
            if toks.len() >= 2 && (seen.len() != 2 || stopped || seen[..] != fe[..2]) {
                rep.violation(case, format!("C20:for_each_key-early-exit:{}", kind), format!("early exit after 2 keys visited {:?} (returned {}) on {}", seen, stopped, body));
            }
            if any == each_not {
                rep.violation(case, format!("C20:for_any_key-duality:{}", kind), format!("for_any_key(p) = {} and for_each_key(!p) = {} on {}", any, each_not, body));
            }
            rep.count("iterators-checked");
        }
    }

    // --- identity, renaming, composition
    let ident = |k: &str| k.to_string();
    let ren1 = |k: &str| format!("L{}", &k[1..]);
    let ren2 = |k: &str| format!("M{}x", &k[1..]);
    let r = guarded(std::panic::AssertUnwindSafe(|| {
        let a = d.translate_pk(&mut Rename { map: &ident, calls: vec![], fail_at: None });
        let mut t1 = Rename { map: &ren1, calls: vec![], fail_at: None };
        let b = d.translate_pk(&mut t1);
        let c = b.as_ref().ok().map(|b| b.translate_pk(&mut Rename { map: &ren2, calls: vec![], fail_at: None }));
        let comp = |k: &str| ren2(&ren1(k));
        let direct = d.translate_pk(&mut Rename { map: &comp, calls: vec![], fail_at: None });
        (a.ok(), b.ok(), c.and_then(|c| c.ok()), direct.ok(), t1.calls)
    }));
    match r {
        Err(m) => rep.violation(case, format!("C20:panic:translate:{}", norm_loc(&last_panic_loc())), format!("translate_pk panicked ({}) on {}", m, body)),
        Ok((a, b, c, direct, calls)) => {
            match a {
                Some(a) if a == d && format!("{:#}", a) == body => rep.count("identity-ok"),
                other => rep.violation(case, format!("C20:identity:{}", kind), format!("identity translation of {} gives {:?}", body, other.map(|x| x.to_string()))),
            }
            let want_b = subst_tokens(&body, &|t| if toks.iter().any(|k| k == t) { Some(ren1(t)) } else { None });
            match &b {
                Some(b) if format!("{:#}", b) == want_b => rep.count("rename-equals-substitution"),
                other => rep.violation(case, format!("C20:rename-vs-substitution:{}", kind), format!("renaming keys of {} gives {:?}, textual substitution gives {}", body, other.as_ref().map(|x| format!("{:#}", x)), want_b)),
            }
            match (&c, &direct) {
                (Some(c), Some(dr)) if c == dr && c.to_string() == dr.to_string() => rep.count("composition-ok"),
                (c, dr) => rep.violation(case, format!("C20:composition:{}", kind), format!("t2(t1(x)) = {:?} but (t2.t1)(x) = {:?} for x = {}", c.as_ref().map(|x| x.to_string()), dr.as_ref().map(|x| x.to_string()), body)),
            }
            let mut cs = calls.clone();
            cs.sort();
            let mut ts = toks.clone();
            ts.sort();
            if cs != ts {
                rep.violation(case, format!("C20:translator-calls:{}", kind), format!("translator was called on {:?} but the keys of {} are {:?}", calls, body, toks));
            }
        }
    }

    // --- failing translator on the j-th key
    let j = rng.below(toks.len() + 2);
    let r = guarded(std::panic::AssertUnwindSafe(|| {
        let mut t = Rename { map: &ren1, calls: vec![], fail_at: Some(j) };
        match d.translate_pk(&mut t) {
            Ok(_) => "ok".to_string(),
            Err(TranslateErr::TranslatorErr(_)) => "translator-err".to_string(),
            Err(TranslateErr::OuterError(e)) => format!("outer:{}", e),
        }
    }));
    match r {
        Err(m) => rep.violation(case, format!("C20:panic:failing-translator:{}", norm_loc(&last_panic_loc())), format!("translate_pk panicked ({}) with a translator failing at key {} on {}", m, j, body)),
        Ok(res) => {
            let expect = if j < toks.len() { "translator-err" } else { "ok" };
            if res != expect {
                rep.violation(case, format!("C20:failure-classification:{}", kind), format!("translator failing at key call {} of {} ({} keys): result {}, expected {}", j, body, toks.len(), res, expect));
            } else {
                rep.count(&format!("failure-classification:{}", expect));
            }
        }
    }

    // --- String -> real keys: script of the translation == script of the substituted string
    let distinct: Vec<String> = {
        let mut v = toks.clone();
        v.sort();
        v.dedup();
        v
    };
    for illegal in [false, true] {
        let mut keys: BTreeMap<String, String> = BTreeMap::new();
        for (n, k) in distinct.iter().enumerate() {
            let ki = &world.keys[n % world.keys.len()];
            let s = match kind {
                "tap" => ki.xonly_hex.clone(),
                // uncompressed keys are legal wherever no segwit wrapper is involved
                "legacy" if (n as u64 + case) % 3 == 0 => ki.uncompressed_hex.clone(),
                _ => ki.compressed_hex.clone(),
            };
            keys.insert(k.clone(), s);
        }
        let mut expect_err = false;
        if illegal && !distinct.is_empty() {
            // one mapped key is illegal in the context
            let victim = rng.pick(&distinct).clone();
            let ki = &world.keys[rng.below(world.keys.len())];
            let bad = match kind {
                "tap" => ki.uncompressed_hex.clone(),
                "segwitv0" => {
                    if rng.coin() {
                        ki.uncompressed_hex.clone()
                    } else {
                        ki.xonly_hex.clone()
                    }
                }
                _ => ki.xonly_hex.clone(),
            };
            keys.insert(victim, bad);
            expect_err = true;
        }
        let hashfix = |t: &str| keys.get(t).cloned();
        let want = subst_tokens(&body, &hashfix);
        let r = guarded(std::panic::AssertUnwindSafe(|| {
            let tr = d.translate_pk(&mut ToReal { keys: &keys });
            match tr {
                Ok(t) => Ok((format!("{:#}", t), t.script_pubkey().to_hex_string())),
                Err(TranslateErr::TranslatorErr(e)) => Err(format!("translator-err:{}", e)),
                Err(TranslateErr::OuterError(e)) => Err(format!("outer:{}", e)),
            }
        }));
        match r {
            Err(m) => rep.violation(case, format!("C20:panic:to-real:{}", norm_loc(&last_panic_loc())), format!("translate_pk to real keys panicked ({}) on {}", m, body)),
            Ok(Ok((s, spk))) => {
                if expect_err {
                    // The property only says translation fails ONLY IF the mapping fails or a key is
                    // illegal; accepting an illegal key is C12's business (checked there), not C20's.
                    rep.count("info:illegal-key-accepted(see C12)");
                    continue;
                }
                let parsed = guarded(|| Descriptor::<DefiniteDescriptorKey>::from_str(&want).map(|p| (format!("{:#}", p), p.script_pubkey().to_hex_string())));
                match parsed {
                    Ok(Ok((ps, pspk))) => {
                        if ps != s || pspk != spk {
                            rep.violation(case, format!("C20:real-keys-vs-substitution:{}", kind), format!("translate({}) = {} (spk {}) but parse(substituted) = {} (spk {})", body, s, spk, ps, pspk));
                        } else {
                            rep.count("real-keys-script-equals-substituted");
                        }
                    }
                    _ => rep.count("substituted-string-unparseable(info)"),
                }
            }
            Ok(Err(e)) => {
                if expect_err && e.starts_with("outer:") {
                    rep.count("illegal-key-refused-as-outer-error");
                } else if expect_err {
                    rep.violation(case, format!("C20:illegal-key-wrong-error-class:{}", kind), format!("{}: {}", body, e));
                } else {
                    // a failure without cause: the translator did not fail and the keys are legal
                    let parsed_ok = guarded(|| Descriptor::<DefiniteDescriptorKey>::from_str(&want).is_ok()).unwrap_or(false);
                    if parsed_ok {
                        rep.violation(case, format!("C20:spurious-failure:{}", kind), format!("translation of {} fails ({}) although the substituted string {} parses", body, e, want));
                    } else {
                        rep.count("translation-and-parse-both-refuse(info)");
                    }
                }
            }
        }
    }
}

fn policy_case(rep: &mut Report, case: u64, rng: &mut Rng) {
    let nm = AbstractPolNames;
    let pcfg = PolGenCfg { max_leaves: 8, n_keys: 6, n_hash: 2, concrete: true, constants: rng.coin(), repeat_atoms: true, timelocks: true, hashes: true, max_depth: 4, timelock_heavy: false };
    let leaves = 1 + rng.below(8);
    let p = PolGen::new(rng, pcfg).gen(leaves, 0);
    let ren = |k: &str| format!("L{}", &k[1..]);
    for concrete in [true, false] {
        rep.eval();
        let s = if concrete { p.concrete(&nm) } else { p.semantic(&nm) };
        let toks = key_tokens(&s);
        let want = subst_tokens(&s, &|t| if toks.iter().any(|k| k == t) { Some(ren(t)) } else { None });
        let r = guarded(std::panic::AssertUnwindSafe(|| {
            if concrete {
                let c = Concrete::<String>::from_str(&s).map_err(|e| e.to_string())?;
                let mut keys = vec![];
                c.for_each_key(|k| {
                    keys.push(k.clone());
                    true
                });
                let t = c.translate_pk(&mut Rename { map: &ren, calls: vec![], fail_at: None }).map_err(|e| e)?;
                let reparsed = Concrete::<String>::from_str(&c.to_string()).map_err(|e| e.to_string())?;
                Ok::<_, String>((c.to_string(), t.to_string(), keys, reparsed == c))
            } else {
                let c = Semantic::<String>::from_str(&s).map_err(|e| e.to_string())?;
                let mut keys = vec![];
                c.for_each_key(|k| {
                    keys.push(k.clone());
                    true
                });
                let t = c.translate_pk(&mut Rename { map: &ren, calls: vec![], fail_at: None }).map_err(|e| e)?;
                Ok::<_, String>((c.to_string(), t.to_string(), keys, true))
            }
        }));
        let kind = if concrete { "concrete-policy" } else { "semantic-policy" };
        match r {
            Err(m) => rep.violation(case, format!("C20:panic:{}:{}", kind, norm_loc(&last_panic_loc())), format!("policy translate panicked ({}) on {}", m, s)),
            Ok(Err(_)) => rep.count("policy-rejected"),
            Ok(Ok((orig, t, keys, _))) => {
                let want2 = subst_tokens(&orig, &|tk| if toks.iter().any(|k| k == tk) { Some(ren(tk)) } else { None });
                let _ = want;
                if t != want2 {
                    rep.violation(case, format!("C20:rename-vs-substitution:{}", kind), format!("renaming keys of {} gives {}, textual substitution gives {}", orig, t, want2));
                } else {
                    rep.count(&format!("rename-equals-substitution:{}", kind));
                    rep.nontrivial(&format!("p|{}", orig));
                }
                let mut a = keys.clone();
                a.sort();
                let mut b = key_tokens(&orig);
                b.sort();
                if a != b {
                    rep.violation(case, format!("C20:for_each_key-multiset:{}", kind), format!("for_each_key visited {:?} but {} contains {:?}", keys, orig, b));
                }
            }
        }
    }
}

pub fn run(cfg: &RunCfg, rep: &mut Report) {
    let world = World::new(cfg.seed);
    let total = cfg.n_cases(4_000, 80_000);
    let max_nodes = if cfg.tier == Tier::Thorough { 24 } else { 10 };
    for i in cfg.cases(total) {
        let mut rng = cfg.case_rng(i);
        let mut ctr = 0usize;
        let repeat = rng.chance(1, 4);
        let mut key = |r: &mut Rng, _: crate::frag::Cx| {
            if repeat && ctr > 2 && r.chance(1, 4) {
                format!("K{}", 1 + r.below(ctr))
            } else {
                ctr += 1;
                format!("K{}", ctr)
            }
        };
        let strings = desc_strings(&mut rng, &world, &mut key, max_nodes);
        for s in strings {
            desc_case(rep, i, &mut rng, &world, &s);
            if rep.samples.len() < rep.max_samples && i % 397 == 0 {
                rep.sample(s);
            }
        }
        policy_case(rep, i, &mut rng);
    }
    if rep.samples.is_empty() {
        rep.sample("(see counters)".into());
    }
}
