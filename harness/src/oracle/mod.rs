//! Executable models written from the BIPs / the Miniscript specification.
pub mod bip32;
pub mod bip341;
pub mod descsum;
pub mod spec_types;
