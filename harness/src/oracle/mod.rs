//! Executable models written from the BIPs / the Miniscript specification.
pub mod bip341;
pub mod spec_types;
