//! The correctness and malleability tables of the Miniscript specification
//! (https://bitcoin.sipa.be/miniscript/), transcribed as functions over plain
//! booleans. Nothing here calls rust-miniscript.

#[derive(Clone, Copy, Debug, PartialEq, Eq, Hash, PartialOrd, Ord)]
pub enum Base {
    B,
    V,
    K,
    W,
}

/// Specification type: base + correctness modifiers z,o,n,d,u + malleability s,f,e,m.
#[derive(Clone, Copy, Debug, PartialEq, Eq, Hash, PartialOrd, Ord)]
pub struct STy {
    pub base: Base,
    pub z: bool,
    pub o: bool,
    pub n: bool,
    pub d: bool,
    pub u: bool,
    pub s: bool,
    pub f: bool,
    pub e: bool,
    pub m: bool,
}

#[derive(Clone, Copy, Debug, PartialEq, Eq, Hash)]
pub enum Kind {
    False,
    True,
    PkK,
    PkH,
    Older,
    After,
    Sha256,
    Hash256,
    Ripemd160,
    Hash160,
    AndOr,
    AndV,
    AndB,
    OrB,
    OrC,
    OrD,
    OrI,
    Thresh,
    Multi,
    MultiA,
    Alt,
    Swap,
    Check,
    DupIf,
    Verify,
    NonZero,
    ZeroNotEqual,
}

pub const ALL_KINDS: [Kind; 27] = [
    Kind::False,
    Kind::True,
    Kind::PkK,
    Kind::PkH,
    Kind::Older,
    Kind::After,
    Kind::Sha256,
    Kind::Hash256,
    Kind::Ripemd160,
    Kind::Hash160,
    Kind::AndOr,
    Kind::AndV,
    Kind::AndB,
    Kind::OrB,
    Kind::OrC,
    Kind::OrD,
    Kind::OrI,
    Kind::Thresh,
    Kind::Multi,
    Kind::MultiA,
    Kind::Alt,
    Kind::Swap,
    Kind::Check,
    Kind::DupIf,
    Kind::Verify,
    Kind::NonZero,
    Kind::ZeroNotEqual,
];

impl STy {
    pub const fn new(base: Base) -> STy {
        STy { base, z: false, o: false, n: false, d: false, u: false, s: false, f: false, e: false, m: false }
    }

    /// Consistency constraints every specification type obeys.
    pub fn is_consistent(&self) -> bool {
        if self.z && self.o {
            return false;
        }
        if self.n && self.z {
            return false;
        }
        if self.base == Base::V && (self.d || self.u) {
            return false;
        }
        if self.base == Base::K && !self.u {
            return false;
        }
        if self.e && self.f {
            return false;
        }
        if self.d && self.f {
            return false;
        }
        if self.base == Base::V && !self.f {
            return false;
        }
        if self.base == Base::K && !self.s {
            return false;
        }
        true
    }

    pub fn type_string(&self) -> String {
        let mut s = String::new();
        s.push(match self.base {
            Base::B => 'B',
            Base::V => 'V',
            Base::K => 'K',
            Base::W => 'W',
        });
        for (b, c) in [
            (self.d, 'd'),
            (self.e, 'e'),
            (self.f, 'f'),
            (self.m, 'm'),
            (self.n, 'n'),
            (self.o, 'o'),
            (self.s, 's'),
            (self.u, 'u'),
            (self.z, 'z'),
        ] {
            if b {
                s.push(c);
            }
        }
        s
    }
}

/// Leaf types.
pub fn leaf(kind: Kind) -> STy {
    use Base::*;
    let mut t = STy::new(B);
    match kind {
        Kind::False => {
            t.z = true;
            t.u = true;
            t.d = true;
            t.s = true;
            t.e = true;
            t.m = true;
        }
        Kind::True => {
            t.z = true;
            t.u = true;
            t.f = true;
            t.m = true;
        }
        Kind::PkK => {
            t.base = K;
            t.o = true;
            t.n = true;
            t.d = true;
            t.u = true;
            t.s = true;
            t.e = true;
            t.m = true;
        }
        Kind::PkH => {
            t.base = K;
            t.n = true;
            t.d = true;
            t.u = true;
            t.s = true;
            t.e = true;
            t.m = true;
        }
        Kind::Older | Kind::After => {
            t.z = true;
            t.f = true;
            t.m = true;
        }
        Kind::Sha256 | Kind::Hash256 | Kind::Ripemd160 | Kind::Hash160 => {
            t.o = true;
            t.n = true;
            t.d = true;
            t.u = true;
            t.m = true;
        }
        Kind::Multi => {
            t.n = true;
            t.d = true;
            t.u = true;
            t.s = true;
            t.e = true;
            t.m = true;
        }
        Kind::MultiA => {
            t.d = true;
            t.u = true;
            t.s = true;
            t.e = true;
            t.m = true;
        }
        _ => panic!("not a leaf"),
    }
    t
}

/// Wrapper types. `tap` selects the Tapscript rule for `d:` (MINIMALIF is consensus).
pub fn wrapper(kind: Kind, x: &STy, tap: bool) -> Result<STy, &'static str> {
    use Base::*;
    let mut t = STy::new(B);
    match kind {
        Kind::Alt => {
            if x.base != B {
                return Err("a: needs B");
            }
            t.base = W;
            t.d = x.d;
            t.u = x.u;
            t.s = x.s;
            t.f = x.f;
            t.e = x.e;
            t.m = x.m;
        }
        Kind::Swap => {
            if x.base != B || !x.o {
                return Err("s: needs Bo");
            }
            t.base = W;
            t.d = x.d;
            t.u = x.u;
            t.s = x.s;
            t.f = x.f;
            t.e = x.e;
            t.m = x.m;
        }
        Kind::Check => {
            if x.base != K {
                return Err("c: needs K");
            }
            t.o = x.o;
            t.n = x.n;
            t.d = x.d;
            t.u = true;
            t.s = true;
            t.f = x.f;
            t.e = x.e;
            t.m = x.m;
        }
        Kind::DupIf => {
            if x.base != V || !x.z {
                return Err("d: needs Vz");
            }
            t.o = true;
            t.n = true;
            t.d = true;
            t.u = tap;
            t.s = x.s;
            t.e = true;
            t.m = x.m;
        }
        Kind::Verify => {
            if x.base != B {
                return Err("v: needs B");
            }
            t.base = V;
            t.z = x.z;
            t.o = x.o;
            t.n = x.n;
            t.s = x.s;
            t.f = true;
            t.m = x.m;
        }
        Kind::NonZero => {
            if x.base != B || !x.n {
                return Err("j: needs Bn");
            }
            t.o = x.o;
            t.n = true;
            t.d = true;
            t.u = x.u;
            t.s = x.s;
            t.e = x.f;
            t.m = x.m;
        }
        Kind::ZeroNotEqual => {
            if x.base != B {
                return Err("n: needs B");
            }
            t.z = x.z;
            t.o = x.o;
            t.n = x.n;
            t.d = x.d;
            t.u = true;
            t.s = x.s;
            t.f = x.f;
            t.e = x.e;
            t.m = x.m;
        }
        _ => panic!("not a wrapper"),
    }
    Ok(t)
}

pub fn binary(kind: Kind, x: &STy, y: &STy) -> Result<STy, &'static str> {
    use Base::*;
    let mut t = STy::new(B);
    match kind {
        Kind::AndV => {
            if x.base != V || !(y.base == B || y.base == K || y.base == V) {
                return Err("and_v needs V and B/K/V");
            }
            t.base = y.base;
            t.z = x.z && y.z;
            t.o = (x.z && y.o) || (y.z && x.o);
            t.n = x.n || (x.z && y.n);
            t.u = y.u;
            t.s = x.s || y.s;
            t.f = x.s || y.f;
            t.m = x.m && y.m;
        }
        Kind::AndB => {
            if x.base != B || y.base != W {
                return Err("and_b needs B and W");
            }
            t.z = x.z && y.z;
            t.o = (x.z && y.o) || (y.z && x.o);
            t.n = x.n || (x.z && y.n);
            t.d = x.d && y.d;
            t.u = true;
            t.s = x.s || y.s;
            t.f = (x.f && y.f) || (x.s && x.f) || (y.s && y.f);
            t.e = x.e && y.e && x.s && y.s;
            t.m = x.m && y.m;
        }
        Kind::OrB => {
            if x.base != B || !x.d || y.base != W || !y.d {
                return Err("or_b needs Bd and Wd");
            }
            t.z = x.z && y.z;
            t.o = (x.z && y.o) || (y.z && x.o);
            t.d = true;
            t.u = true;
            t.s = x.s && y.s;
            t.e = true;
            t.m = x.m && y.m && x.e && y.e && (x.s || y.s);
        }
        Kind::OrC => {
            if x.base != B || !x.d || !x.u || y.base != V {
                return Err("or_c needs Bdu and V");
            }
            t.base = V;
            t.z = x.z && y.z;
            t.o = x.o && y.z;
            t.s = x.s && y.s;
            t.f = true;
            t.m = x.m && y.m && x.e && (x.s || y.s);
        }
        Kind::OrD => {
            if x.base != B || !x.d || !x.u || y.base != B {
                return Err("or_d needs Bdu and B");
            }
            t.z = x.z && y.z;
            t.o = x.o && y.z;
            t.d = y.d;
            t.u = y.u;
            t.s = x.s && y.s;
            t.f = y.f;
            t.e = y.e;
            t.m = x.m && y.m && x.e && (x.s || y.s);
        }
        Kind::OrI => {
            if x.base != y.base || !(x.base == B || x.base == K || x.base == V) {
                return Err("or_i needs equal B/K/V");
            }
            t.base = x.base;
            t.o = x.z && y.z;
            t.u = x.u && y.u;
            t.d = x.d || y.d;
            t.s = x.s && y.s;
            t.f = x.f && y.f;
            t.e = (x.e && y.f) || (y.e && x.f);
            t.m = x.m && y.m && (x.s || y.s);
        }
        _ => panic!("not binary"),
    }
    Ok(t)
}

pub fn andor(x: &STy, y: &STy, z: &STy) -> Result<STy, &'static str> {
    use Base::*;
    if x.base != B || !x.d || !x.u {
        return Err("andor needs Bdu first");
    }
    if y.base != z.base || !(y.base == B || y.base == K || y.base == V) {
        return Err("andor needs equal B/K/V");
    }
    let mut t = STy::new(y.base);
    t.z = x.z && y.z && z.z;
    t.o = (x.z && y.o && z.o) || (x.o && y.z && z.z);
    t.u = y.u && z.u;
    t.d = z.d;
    t.s = z.s && (x.s || y.s);
    t.f = z.f && (x.s || y.f);
    t.e = z.e && (x.s || y.f);
    t.m = x.m && y.m && z.m && x.e && (x.s || y.s || z.s);
    Ok(t)
}

pub fn thresh(k: usize, subs: &[STy]) -> Result<STy, &'static str> {
    use Base::*;
    let n = subs.len();
    if n == 0 || k == 0 || k > n {
        return Err("thresh k/n");
    }
    for (i, x) in subs.iter().enumerate() {
        let want = if i == 0 { B } else { W };
        if x.base != want || !x.d || !x.u {
            return Err("thresh needs Bdu, Wdu...");
        }
    }
    let mut t = STy::new(B);
    let nz = subs.iter().filter(|x| x.z).count();
    let no = subs.iter().filter(|x| x.o).count();
    t.z = nz == n;
    t.o = nz == n - 1 && no == 1;
    t.d = true;
    t.u = true;
    let non_s = subs.iter().filter(|x| !x.s).count();
    t.s = non_s <= k - 1;
    t.e = non_s == 0 && subs.iter().all(|x| x.e);
    t.m = subs.iter().all(|x| x.e && x.m) && non_s <= k;
    Ok(t)
}
