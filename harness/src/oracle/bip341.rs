//! BIP-341 model: tagged hashes from SHA-256, leaf hash, Merkle root of an
//! explicit binary tree, output key tweak, control-block verification.
//! Uses only sha256 and secp256k1 point addition; none of rust-bitcoin's
//! taproot module and none of rust-miniscript.

use miniscript::bitcoin;

use bitcoin::hashes::{sha256, Hash, HashEngine};
use bitcoin::secp256k1::{self, Parity, Scalar, Secp256k1, XOnlyPublicKey};

pub fn tagged_hash(tag: &str, parts: &[&[u8]]) -> [u8; 32] {
    let t = sha256::Hash::hash(tag.as_bytes());
    let mut e = sha256::Hash::engine();
    e.input(t.as_byte_array());
    e.input(t.as_byte_array());
    for p in parts {
        e.input(p);
    }
    sha256::Hash::from_engine(e).to_byte_array()
}

pub fn compact_size(n: usize) -> Vec<u8> {
    if n < 0xfd {
        vec![n as u8]
    } else if n <= 0xffff {
        vec![0xfd, (n & 0xff) as u8, (n >> 8) as u8]
    } else {
        vec![0xfe, (n & 0xff) as u8, ((n >> 8) & 0xff) as u8, ((n >> 16) & 0xff) as u8, (n >> 24) as u8]
    }
}

pub fn leaf_hash(leaf_version: u8, script: &[u8]) -> [u8; 32] {
    tagged_hash("TapLeaf", &[&[leaf_version], &compact_size(script.len()), script])
}

pub fn branch_hash(a: &[u8; 32], b: &[u8; 32]) -> [u8; 32] {
    if a <= b {
        tagged_hash("TapBranch", &[a, b])
    } else {
        tagged_hash("TapBranch", &[b, a])
    }
}

/// An explicit binary script tree (model side).
#[derive(Clone, Debug, PartialEq, Eq)]
pub enum Tree {
    Leaf(Vec<u8>),
    Node(Box<Tree>, Box<Tree>),
}

impl Tree {
    pub fn root(&self) -> [u8; 32] {
        match self {
            Tree::Leaf(s) => leaf_hash(0xc0, s),
            Tree::Node(a, b) => branch_hash(&a.root(), &b.root()),
        }
    }
    /// (depth, script, merkle path from leaf upwards) in depth-first left-to-right order
    pub fn leaves(&self) -> Vec<(usize, Vec<u8>, Vec<[u8; 32]>)> {
        fn go(t: &Tree, depth: usize, out: &mut Vec<(usize, Vec<u8>, Vec<[u8; 32]>)>) -> [u8; 32] {
            match t {
                Tree::Leaf(s) => {
                    out.push((depth, s.clone(), vec![]));
                    leaf_hash(0xc0, s)
                }
                Tree::Node(a, b) => {
                    let start = out.len();
                    let ha = go(a, depth + 1, out);
                    let mid = out.len();
                    let hb = go(b, depth + 1, out);
                    for l in &mut out[start..mid] {
                        l.2.push(hb);
                    }
                    for l in &mut out[mid..] {
                        l.2.push(ha);
                    }
                    branch_hash(&ha, &hb)
                }
            }
        }
        let mut out = vec![];
        go(self, 0, &mut out);
        out
    }
    pub fn n_leaves(&self) -> usize {
        match self {
            Tree::Leaf(_) => 1,
            Tree::Node(a, b) => a.n_leaves() + b.n_leaves(),
        }
    }
    pub fn height(&self) -> usize {
        match self {
            Tree::Leaf(_) => 0,
            Tree::Node(a, b) => 1 + a.height().max(b.height()),
        }
    }
}

/// Output key Q = P + H_TapTweak(P || root) G and its parity.
pub fn output_key(
    secp: &Secp256k1<secp256k1::All>,
    internal: &XOnlyPublicKey,
    root: Option<[u8; 32]>,
) -> Option<(XOnlyPublicKey, Parity)> {
    let ser = internal.serialize();
    let t = match root {
        Some(r) => tagged_hash("TapTweak", &[&ser, &r]),
        None => tagged_hash("TapTweak", &[&ser]),
    };
    let scalar = Scalar::from_be_bytes(t).ok()?;
    internal.add_tweak(secp, &scalar).ok()
}

/// BIP-341 script-path commitment check. Returns the leaf hash on success.
pub fn verify_control_block(
    secp: &Secp256k1<secp256k1::All>,
    program: &[u8],
    control: &[u8],
    script: &[u8],
) -> Result<[u8; 32], &'static str> {
    if control.len() < 33 || (control.len() - 33) % 32 != 0 || (control.len() - 33) / 32 > 128 {
        return Err("control block size");
    }
    let leaf_version = control[0] & 0xfe;
    let parity = control[0] & 1;
    let internal = XOnlyPublicKey::from_slice(&control[1..33]).map_err(|_| "internal key")?;
    let lh = leaf_hash(leaf_version, script);
    let mut k = lh;
    for chunk in control[33..].chunks(32) {
        let mut e = [0u8; 32];
        e.copy_from_slice(chunk);
        k = branch_hash(&k, &e);
    }
    let (q, par) = output_key(secp, &internal, Some(k)).ok_or("tweak failed")?;
    if q.serialize()[..] != program[..] {
        return Err("output key mismatch");
    }
    let par_bit = match par {
        Parity::Even => 0,
        Parity::Odd => 1,
    };
    if par_bit != parity {
        return Err("parity mismatch");
    }
    Ok(lh)
}
