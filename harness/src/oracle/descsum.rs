//! BIP-380 descriptor checksum, transcribed from the BIP's reference code.

pub const INPUT_CHARSET: &str = "0123456789()[],'/*abcdefgh@:$%{}IJKLMNOPQRSTUVWXYZ&+-.;<=>?!^_|~ijklmnopqrstuvwxyzABCDEFGH`#\"\\ ";
pub const CHECKSUM_CHARSET: &str = "qpzry9x8gf2tvdw0s3jn54khce6mua7l";
const GENERATOR: [u64; 5] = [0xf5dee51989, 0xa9fdca3312, 0x1bab10e32d, 0x3706b1677a, 0x644d626ffd];

fn polymod(symbols: &[u64]) -> u64 {
    let mut chk: u64 = 1;
    for v in symbols {
        let top = chk >> 35;
        chk = ((chk & 0x7_ffff_ffff) << 5) ^ v;
        for (i, g) in GENERATOR.iter().enumerate() {
            if (top >> i) & 1 == 1 {
                chk ^= g;
            }
        }
    }
    chk
}

fn expand(s: &str) -> Option<Vec<u64>> {
    let mut groups: Vec<u64> = vec![];
    let mut symbols = vec![];
    for c in s.chars() {
        let v = INPUT_CHARSET.find(c)? as u64;
        symbols.push(v & 31);
        groups.push(v >> 5);
        if groups.len() == 3 {
            symbols.push(groups[0] * 9 + groups[1] * 3 + groups[2]);
            groups.clear();
        }
    }
    if groups.len() == 1 {
        symbols.push(groups[0]);
    } else if groups.len() == 2 {
        symbols.push(groups[0] * 3 + groups[1]);
    }
    Some(symbols)
}

/// The 8-character checksum of a descriptor body (without '#').
pub fn checksum(body: &str) -> Option<String> {
    let mut symbols = expand(body)?;
    symbols.extend([0u64; 8]);
    let c = polymod(&symbols) ^ 1;
    let cs: Vec<char> = CHECKSUM_CHARSET.chars().collect();
    Some((0..8).map(|i| cs[((c >> (5 * (7 - i))) & 31) as usize]).collect())
}

/// Does `s` ("body#checksum") carry a valid checksum?
pub fn verify(s: &str) -> bool {
    let Some(pos) = s.rfind('#') else { return false };
    let (body, cs) = (&s[..pos], &s[pos + 1..]);
    cs.len() == 8 && checksum(body).as_deref() == Some(cs)
}

/// The first charset group (hex digits and descriptor punctuation).
pub fn group0() -> Vec<char> { INPUT_CHARSET.chars().take(32).collect() }
