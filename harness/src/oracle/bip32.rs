//! BIP-32 model: CKDpriv / CKDpub with HMAC-SHA512 and secp256k1 tweak addition,
//! fingerprints. Does not use bitcoin::bip32 derivation.

use miniscript::bitcoin;

use bitcoin::hashes::{hash160, sha512, Hash, HashEngine, Hmac, HmacEngine};
use bitcoin::secp256k1::{self, PublicKey, Scalar, SecretKey};

use crate::world::World;

fn hmac512(key: &[u8], data: &[u8]) -> [u8; 64] {
    let mut e = HmacEngine::<sha512::Hash>::new(key);
    e.input(data);
    Hmac::<sha512::Hash>::from_engine(e).to_byte_array()
}

/// (secret key, chain code) of the child at `index` (hardened if bit 31 set).
pub fn ckd_priv(secp: &secp256k1::Secp256k1<secp256k1::All>, sk: &SecretKey, cc: &[u8; 32], index: u32) -> (SecretKey, [u8; 32]) {
    let mut data = vec![];
    if index & 0x8000_0000 != 0 {
        data.push(0);
        data.extend_from_slice(&sk.secret_bytes());
    } else {
        data.extend_from_slice(&PublicKey::from_secret_key(secp, sk).serialize());
    }
    data.extend_from_slice(&index.to_be_bytes());
    let i = hmac512(cc, &data);
    let mut il = [0u8; 32];
    il.copy_from_slice(&i[..32]);
    let mut ir = [0u8; 32];
    ir.copy_from_slice(&i[32..]);
    let child = sk.add_tweak(&Scalar::from_be_bytes(il).expect("IL in range")).expect("valid child");
    (child, ir)
}

/// (public key, chain code) of the unhardened child at `index`.
pub fn ckd_pub(secp: &secp256k1::Secp256k1<secp256k1::All>, pk: &PublicKey, cc: &[u8; 32], index: u32) -> Option<(PublicKey, [u8; 32])> {
    if index & 0x8000_0000 != 0 {
        return None;
    }
    let mut data = pk.serialize().to_vec();
    data.extend_from_slice(&index.to_be_bytes());
    let i = hmac512(cc, &data);
    let mut il = [0u8; 32];
    il.copy_from_slice(&i[..32]);
    let mut ir = [0u8; 32];
    ir.copy_from_slice(&i[32..]);
    let child = pk.add_exp_tweak(secp, &Scalar::from_be_bytes(il).ok()?).ok()?;
    Some((child, ir))
}

pub fn fingerprint(pk: &PublicKey) -> [u8; 4] {
    let h = hash160::Hash::hash(&pk.serialize()).to_byte_array();
    [h[0], h[1], h[2], h[3]]
}

/// Public key at `path` below the world's master key, computed step by step:
/// private derivation for hardened steps, *public* derivation for normal ones.
pub fn derive_pub_from_master(world: &World, path: &[u32]) -> PublicKey {
    let mut sk = world.xprv.private_key;
    let mut cc: [u8; 32] = world.xprv.chain_code.to_bytes();
    // find the last hardened step; up to there we must go the private way
    let last_hardened = path.iter().rposition(|c| c & 0x8000_0000 != 0).map(|i| i + 1).unwrap_or(0);
    for c in &path[..last_hardened] {
        let (s, c2) = ckd_priv(&world.secp, &sk, &cc, *c);
        sk = s;
        cc = c2;
    }
    let mut pk = PublicKey::from_secret_key(&world.secp, &sk);
    for c in &path[last_hardened..] {
        let (p, c2) = ckd_pub(&world.secp, &pk, &cc, *c).expect("unhardened");
        pk = p;
        cc = c2;
    }
    pk
}
