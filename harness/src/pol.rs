//! Harness-side policy AST: generator, printers for the concrete and semantic
//! text syntax, and a truth-table evaluator (`policy_eval` of DESIGN.md 4.3).

use std::collections::BTreeMap;

use crate::prng::Rng;

#[derive(Clone, Debug, PartialEq, Eq, Hash, PartialOrd, Ord)]
pub enum Atom {
    Key(usize),
    After(u32),
    Older(u32),
    Sha256(usize),
    Hash256(usize),
    Ripemd160(usize),
    Hash160(usize),
}

#[derive(Clone, Debug, PartialEq, Eq, Hash, PartialOrd, Ord)]
pub enum Pol {
    Trivial,
    Unsat,
    Atom(Atom),
    /// n-ary conjunction (concrete syntax allows exactly 2 children)
    And(Vec<Pol>),
    /// weighted disjunction (weights ignored by the semantic printer)
    Or(Vec<(usize, Pol)>),
    Thresh(usize, Vec<Pol>),
}

pub trait PolNames {
    fn key(&self, i: usize) -> String;
    fn hash32(&self, i: usize, kind: u8) -> String;
    fn hash20(&self, i: usize, kind: u8) -> String;
}

pub struct AbstractPolNames;
impl PolNames for AbstractPolNames {
    fn key(&self, i: usize) -> String { format!("K{}", i) }
    fn hash32(&self, i: usize, kind: u8) -> String { format!("{:064x}", 0x1000 * (kind as usize + 1) + i) }
    fn hash20(&self, i: usize, kind: u8) -> String { format!("{:040x}", 0x1000 * (kind as usize + 3) + i) }
}

impl PolNames for crate::world::World {
    fn key(&self, i: usize) -> String { self.keys[i % self.keys.len()].compressed_hex.clone() }
    fn hash32(&self, i: usize, kind: u8) -> String {
        let p = &self.pre[i % self.pre.len()];
        crate::world::hex(if kind == 0 { &p.sha256 } else { &p.hash256 })
    }
    fn hash20(&self, i: usize, kind: u8) -> String {
        let p = &self.pre[i % self.pre.len()];
        crate::world::hex(if kind == 0 { &p.ripemd160 } else { &p.hash160 })
    }
}

/// x-only key names for tap compilation
pub struct XOnlyNames<'w>(pub &'w crate::world::World);
impl PolNames for XOnlyNames<'_> {
    fn key(&self, i: usize) -> String { self.0.keys[i % self.0.keys.len()].xonly_hex.clone() }
    fn hash32(&self, i: usize, kind: u8) -> String { self.0.hash32(i, kind) }
    fn hash20(&self, i: usize, kind: u8) -> String { self.0.hash20(i, kind) }
}

fn atom_str(a: &Atom, nm: &dyn PolNames) -> String {
    match a {
        Atom::Key(i) => format!("pk({})", nm.key(*i)),
        Atom::After(n) => format!("after({})", n),
        Atom::Older(n) => format!("older({})", n),
        Atom::Sha256(i) => format!("sha256({})", nm.hash32(*i, 0)),
        Atom::Hash256(i) => format!("hash256({})", nm.hash32(*i, 1)),
        Atom::Ripemd160(i) => format!("ripemd160({})", nm.hash20(*i, 0)),
        Atom::Hash160(i) => format!("hash160({})", nm.hash20(*i, 1)),
    }
}

impl Pol {
    /// Concrete policy syntax: and(a,b), or(w@a,w@b), thresh(k,...).
    pub fn concrete(&self, nm: &dyn PolNames) -> String {
        match self {
            Pol::Trivial => "TRIVIAL".into(),
            Pol::Unsat => "UNSATISFIABLE".into(),
            Pol::Atom(a) => atom_str(a, nm),
            Pol::And(xs) => format!("and({})", xs.iter().map(|x| x.concrete(nm)).collect::<Vec<_>>().join(",")),
            Pol::Or(xs) => format!(
                "or({})",
                xs.iter().map(|(w, x)| format!("{}@{}", w, x.concrete(nm))).collect::<Vec<_>>().join(",")
            ),
            Pol::Thresh(k, xs) => format!(
                "thresh({},{})",
                k,
                xs.iter().map(|x| x.concrete(nm)).collect::<Vec<_>>().join(",")
            ),
        }
    }

    /// Semantic policy syntax: and(..), or(..) n-ary, thresh(k,..) only for 1 < k < n.
    pub fn semantic(&self, nm: &dyn PolNames) -> String {
        match self {
            Pol::Trivial => "TRIVIAL".into(),
            Pol::Unsat => "UNSATISFIABLE".into(),
            Pol::Atom(a) => atom_str(a, nm),
            Pol::And(xs) => format!("and({})", xs.iter().map(|x| x.semantic(nm)).collect::<Vec<_>>().join(",")),
            Pol::Or(xs) => format!("or({})", xs.iter().map(|(_, x)| x.semantic(nm)).collect::<Vec<_>>().join(",")),
            Pol::Thresh(k, xs) => {
                let inner = xs.iter().map(|x| x.semantic(nm)).collect::<Vec<_>>().join(",");
                if *k == xs.len() {
                    format!("and({})", inner)
                } else if *k == 1 {
                    format!("or({})", inner)
                } else {
                    format!("thresh({},{})", k, inner)
                }
            }
        }
    }

    pub fn atoms(&self) -> Vec<Atom> {
        let mut v = vec![];
        self.collect_atoms(&mut v);
        v
    }
    fn collect_atoms(&self, v: &mut Vec<Atom>) {
        match self {
            Pol::Atom(a) => {
                if !v.contains(a) {
                    v.push(a.clone())
                }
            }
            Pol::And(xs) | Pol::Thresh(_, xs) => xs.iter().for_each(|x| x.collect_atoms(v)),
            Pol::Or(xs) => xs.iter().for_each(|(_, x)| x.collect_atoms(v)),
            _ => {}
        }
    }
    pub fn atom_occurrences(&self) -> Vec<Atom> {
        let mut v = vec![];
        fn go(p: &Pol, v: &mut Vec<Atom>) {
            match p {
                Pol::Atom(a) => v.push(a.clone()),
                Pol::And(xs) | Pol::Thresh(_, xs) => xs.iter().for_each(|x| go(x, v)),
                Pol::Or(xs) => xs.iter().for_each(|(_, x)| go(x, v)),
                _ => {}
            }
        }
        go(self, &mut v);
        v
    }

    pub fn n_leaves(&self) -> usize {
        match self {
            Pol::And(xs) | Pol::Thresh(_, xs) => xs.iter().map(|x| x.n_leaves()).sum(),
            Pol::Or(xs) => xs.iter().map(|(_, x)| x.n_leaves()).sum(),
            _ => 1,
        }
    }

    /// Truth value under an assignment of the syntactic atoms.
    pub fn eval(&self, sigma: &dyn Fn(&Atom) -> bool) -> bool {
        match self {
            Pol::Trivial => true,
            Pol::Unsat => false,
            Pol::Atom(a) => sigma(a),
            Pol::And(xs) => xs.iter().all(|x| x.eval(sigma)),
            Pol::Or(xs) => xs.iter().any(|(_, x)| x.eval(sigma)),
            Pol::Thresh(k, xs) => xs.iter().filter(|x| x.eval(sigma)).count() >= *k,
        }
    }

    /// Minimum number of true key atoms over satisfying assignments (None = unsatisfiable).
    /// Exponential in the number of atoms; callers bound it.
    pub fn min_keys(&self) -> Option<usize> {
        let atoms = self.atoms();
        let n = atoms.len();
        let mut best: Option<usize> = None;
        for mask in 0u32..(1u32 << n) {
            let sigma = |a: &Atom| {
                let i = atoms.iter().position(|x| x == a).unwrap();
                mask & (1 << i) != 0
            };
            if self.eval(&sigma) {
                let keys = atoms
                    .iter()
                    .enumerate()
                    .filter(|(i, a)| matches!(a, Atom::Key(_)) && mask & (1 << i) != 0)
                    .count();
                best = Some(best.map_or(keys, |b: usize| b.min(keys)));
            }
        }
        best
    }

    /// All "satisfying paths": minimal sets of atoms (as occurrence multisets are irrelevant,
    /// sets of distinct atoms) that make the policy true, enumerated structurally.
    /// Used for the mixed-time-lock oracle. Bounded by `cap` paths.
    pub fn paths(&self, cap: usize) -> Option<Vec<Vec<Atom>>> {
        fn cross(a: &[Vec<Atom>], b: &[Vec<Atom>], cap: usize) -> Option<Vec<Vec<Atom>>> {
            let mut out = vec![];
            for x in a {
                for y in b {
                    let mut z = x.clone();
                    for e in y {
                        if !z.contains(e) {
                            z.push(e.clone());
                        }
                    }
                    out.push(z);
                    if out.len() > cap {
                        return None;
                    }
                }
            }
            Some(out)
        }
        match self {
            Pol::Trivial => Some(vec![vec![]]),
            Pol::Unsat => Some(vec![]),
            Pol::Atom(a) => Some(vec![vec![a.clone()]]),
            Pol::And(xs) => {
                let mut acc = vec![vec![]];
                for x in xs {
                    acc = cross(&acc, &x.paths(cap)?, cap)?;
                }
                Some(acc)
            }
            Pol::Or(xs) => {
                let mut acc = vec![];
                for (_, x) in xs {
                    acc.extend(x.paths(cap)?);
                    if acc.len() > cap {
                        return None;
                    }
                }
                Some(acc)
            }
            Pol::Thresh(k, xs) => {
                // all k-subsets
                let n = xs.len();
                if n > 20 {
                    return None; // too many k-subsets to enumerate: the caller treats None as "not judged"
                }
                let sub: Vec<Vec<Vec<Atom>>> = {
                    let mut v = vec![];
                    for x in xs {
                        v.push(x.paths(cap)?);
                    }
                    v
                };
                let mut acc = vec![];
                for mask in 0u32..(1u32 << n) {
                    if mask.count_ones() as usize != *k {
                        continue;
                    }
                    let mut cur = vec![vec![]];
                    for i in 0..n {
                        if mask & (1 << i) != 0 {
                            cur = cross(&cur, &sub[i], cap)?;
                        }
                    }
                    acc.extend(cur);
                    if acc.len() > cap {
                        return None;
                    }
                }
                Some(acc)
            }
        }
    }
}

pub const POL_AFTER: [u32; 5] = [1, 144, 499_999_999, 500_000_000, 500_000_010];
pub const POL_OLDER: [u32; 5] = [1, 144, 65_535, (1 << 22) | 1, (1 << 22) | 100];

#[derive(Clone, Debug)]
pub struct PolGenCfg {
    pub max_leaves: usize,
    pub n_keys: usize,
    pub n_hash: usize,
    /// concrete syntax restrictions: binary and/or
    pub concrete: bool,
    /// allow TRIVIAL / UNSATISFIABLE leaves
    pub constants: bool,
    pub repeat_atoms: bool,
    pub timelocks: bool,
    pub hashes: bool,
    pub max_depth: usize,
    pub timelock_heavy: bool,
}

pub struct PolGen<'r> {
    pub rng: &'r mut Rng,
    pub cfg: PolGenCfg,
    next_key: usize,
}

impl<'r> PolGen<'r> {
    pub fn new(rng: &'r mut Rng, cfg: PolGenCfg) -> Self { PolGen { rng, cfg, next_key: 0 } }

    fn leaf(&mut self) -> Pol {
        let r = self.rng.below(100);
        if self.cfg.constants && r < 8 {
            return if self.rng.coin() { Pol::Trivial } else { Pol::Unsat };
        }
        if self.cfg.timelocks && ((8..22).contains(&r) || (self.cfg.timelock_heavy && r >= 50)) {
            return if self.rng.coin() {
                Pol::Atom(Atom::After(*self.rng.pick(&POL_AFTER)))
            } else {
                Pol::Atom(Atom::Older(*self.rng.pick(&POL_OLDER)))
            };
        }
        if self.cfg.hashes && (22..34).contains(&r) {
            let i = self.rng.below(self.cfg.n_hash);
            return Pol::Atom(match self.rng.below(4) {
                0 => Atom::Sha256(i),
                1 => Atom::Hash256(i),
                2 => Atom::Ripemd160(i),
                _ => Atom::Hash160(i),
            });
        }
        let k = if self.cfg.repeat_atoms && self.rng.chance(1, 4) {
            self.rng.below(self.cfg.n_keys)
        } else {
            let k = self.next_key % self.cfg.n_keys;
            self.next_key += 1;
            k
        };
        Pol::Atom(Atom::Key(k))
    }

    pub fn gen(&mut self, leaves: usize, depth: usize) -> Pol {
        if leaves <= 1 || depth >= self.cfg.max_depth {
            return self.leaf();
        }
        match self.rng.below(10) {
            0..=3 => {
                let n = if self.cfg.concrete { 2 } else { self.rng.range(2, leaves.min(4)) };
                let parts = self.split(leaves, n);
                Pol::And(parts.into_iter().map(|l| self.gen(l, depth + 1)).collect())
            }
            4..=7 => {
                let n = if self.cfg.concrete { 2 } else { self.rng.range(2, leaves.min(4)) };
                let parts = self.split(leaves, n);
                Pol::Or(
                    parts
                        .into_iter()
                        .map(|l| {
                            let w = *self.rng.pick(&[1usize, 1, 1, 2, 3, 9, 99]);
                            (w, self.gen(l, depth + 1))
                        })
                        .collect(),
                )
            }
            _ => {
                let n = self.rng.range(2, leaves.min(5));
                let k = self.rng.range(1, n);
                let parts = self.split(leaves, n);
                Pol::Thresh(k, parts.into_iter().map(|l| self.gen(l, depth + 1)).collect())
            }
        }
    }

    fn split(&mut self, leaves: usize, n: usize) -> Vec<usize> {
        let mut parts = vec![1usize; n];
        for _ in 0..leaves.saturating_sub(n) {
            let i = self.rng.below(n);
            parts[i] += 1;
        }
        parts
    }
}

/// BIP-65 / BIP-68/112 semantics of a time-lock atom in a concrete (nLockTime, nSequence) world.
pub fn after_ok(n: u32, lock_time: u32, sequence: u32) -> bool {
    const T: u32 = 500_000_000;
    (n < T) == (lock_time < T) && n <= lock_time && sequence != 0xffff_ffff
}
pub fn older_ok(n: u32, sequence: u32) -> bool {
    if sequence & (1 << 31) != 0 {
        return false;
    }
    const TYPE: u32 = 1 << 22;
    let a = n & (TYPE | 0xffff);
    let b = sequence & (TYPE | 0xffff);
    (a < TYPE) == (b < TYPE) && a <= b
}

/// A concrete asset world for policy evaluation.
#[derive(Clone, Debug)]
pub struct PolWorld {
    pub keys: Vec<bool>,
    pub pre: Vec<bool>,
    pub lock_time: u32,
    pub sequence: u32,
}

impl PolWorld {
    pub fn sigma(&self) -> impl Fn(&Atom) -> bool + '_ {
        move |a: &Atom| match a {
            Atom::Key(i) => self.keys.get(*i).copied().unwrap_or(false),
            Atom::After(n) => after_ok(*n, self.lock_time, self.sequence),
            Atom::Older(n) => older_ok(*n, self.sequence),
            Atom::Sha256(i) | Atom::Hash256(i) | Atom::Ripemd160(i) | Atom::Hash160(i) => {
                self.pre.get(*i).copied().unwrap_or(false)
            }
        }
    }
}

/// Map atom -> index for truth tables.
pub fn atom_index(atoms: &[Atom]) -> BTreeMap<Atom, usize> {
    atoms.iter().cloned().enumerate().map(|(i, a)| (a, i)).collect()
}

// --------------------------------------------------------------------------
// Independent parser of the policy text syntax (both flavours) into `Pol`.

pub struct PolLookup<'a> {
    pub key: &'a dyn Fn(&str) -> Option<usize>,
    pub hash: &'a dyn Fn(&str) -> Option<usize>,
}

fn split_top(s: &str) -> Result<Vec<&str>, String> {
    let mut out = vec![];
    let mut depth = 0i32;
    let mut start = 0;
    for (i, c) in s.char_indices() {
        match c {
            '(' => depth += 1,
            ')' => {
                depth -= 1;
                if depth < 0 {
                    return Err("unbalanced )".into());
                }
            }
            ',' if depth == 0 => {
                out.push(&s[start..i]);
                start = i + 1;
            }
            _ => {}
        }
    }
    if depth != 0 {
        return Err("unbalanced (".into());
    }
    out.push(&s[start..]);
    Ok(out)
}

pub fn parse_pol(s: &str, lk: &PolLookup) -> Result<Pol, String> {
    let s = s.trim();
    if s == "TRIVIAL" || s == "TRIVIAL()" {
        return Ok(Pol::Trivial);
    }
    if s == "UNSATISFIABLE" || s == "UNSATISFIABLE()" {
        return Ok(Pol::Unsat);
    }
    let open = s.find('(').ok_or_else(|| format!("no ( in {}", s))?;
    if !s.ends_with(')') {
        return Err(format!("no closing ) in {}", s));
    }
    let name = &s[..open];
    let inner = &s[open + 1..s.len() - 1];
    let num = |a: &str| a.trim().parse::<u32>().map_err(|_| format!("bad number {}", a));
    let key = |a: &str| (lk.key)(a.trim()).ok_or_else(|| format!("unknown key {}", a));
    let hash = |a: &str| (lk.hash)(a.trim()).ok_or_else(|| format!("unknown hash {}", a));
    Ok(match name {
        "pk" => Pol::Atom(Atom::Key(key(inner)?)),
        "after" => Pol::Atom(Atom::After(num(inner)?)),
        "older" => Pol::Atom(Atom::Older(num(inner)?)),
        "sha256" => Pol::Atom(Atom::Sha256(hash(inner)?)),
        "hash256" => Pol::Atom(Atom::Hash256(hash(inner)?)),
        "ripemd160" => Pol::Atom(Atom::Ripemd160(hash(inner)?)),
        "hash160" => Pol::Atom(Atom::Hash160(hash(inner)?)),
        "and" => {
            let mut xs = vec![];
            for a in split_top(inner)? {
                xs.push(parse_pol(a, lk)?);
            }
            Pol::And(xs)
        }
        "or" => {
            let mut xs = vec![];
            for a in split_top(inner)? {
                let a = a.trim();
                let (w, rest) = match a.find('@') {
                    Some(i) if a[..i].chars().all(|c| c.is_ascii_digit()) && i > 0 => {
                        (a[..i].parse::<usize>().map_err(|_| "bad weight".to_string())?, &a[i + 1..])
                    }
                    _ => (1, a),
                };
                xs.push((w, parse_pol(rest, lk)?));
            }
            Pol::Or(xs)
        }
        "thresh" => {
            let args = split_top(inner)?;
            if args.len() < 2 {
                return Err("thresh needs k and children".into());
            }
            let k = num(args[0])? as usize;
            let mut xs = vec![];
            for a in &args[1..] {
                xs.push(parse_pol(a, lk)?);
            }
            Pol::Thresh(k, xs)
        }
        x => return Err(format!("unknown policy fragment {}", x)),
    })
}

/// Lookup for `AbstractPolNames`.
pub fn abstract_lookup() -> (impl Fn(&str) -> Option<usize>, impl Fn(&str) -> Option<usize>) {
    (
        |s: &str| s.strip_prefix('K').and_then(|n| n.parse::<usize>().ok()),
        |s: &str| u64::from_str_radix(&s[s.len().saturating_sub(8)..], 16).ok().map(|n| (n & 0xfff) as usize),
    )
}
