//! Key universe, preimages, spending transactions, signer and `Satisfier`
//! implementations that answer exactly from an *asset world*.

use std::cell::RefCell;
use std::collections::{BTreeMap, BTreeSet, HashMap};
use std::str::FromStr;

use miniscript::bitcoin;

use bitcoin::absolute;
use bitcoin::bip32::{ChildNumber, DerivationPath, Xpriv, Xpub};
use bitcoin::hashes::{hash160, ripemd160, sha256, sha256d, Hash};
use bitcoin::key::{Keypair, TapTweak as _};
use bitcoin::secp256k1::{self, Message, Secp256k1, SecretKey, XOnlyPublicKey};
use bitcoin::sighash::{EcdsaSighashType, Prevouts, SighashCache, TapSighashType};
use bitcoin::taproot::TapLeafHash;
use bitcoin::{
    relative, transaction, Amount, OutPoint, ScriptBuf, Sequence, Transaction, TxIn, TxOut, Txid,
    Witness,
};
use miniscript::{DefiniteDescriptorKey, MiniscriptKey, Satisfier, ToPublicKey};

use crate::prng::Rng;

pub type Dk = DefiniteDescriptorKey;

pub const N_KEYS: usize = 8;
pub const N_PRE: usize = 4;

#[derive(Clone)]
pub struct KeyInfo {
    pub sk: SecretKey,
    pub pk: secp256k1::PublicKey,
    pub xonly: XOnlyPublicKey,
    pub compressed_hex: String,
    pub uncompressed_hex: String,
    pub xonly_hex: String,
}

#[derive(Clone)]
pub struct PreInfo {
    pub pre: [u8; 32],
    pub sha256: [u8; 32],
    pub hash256: [u8; 32],
    pub ripemd160: [u8; 20],
    pub hash160: [u8; 20],
}

pub struct World {
    pub secp: Secp256k1<secp256k1::All>,
    pub keys: Vec<KeyInfo>,
    pub pre: Vec<PreInfo>,
    /// every secret the world can sign with, by x-only public key (includes bip32-derived ones)
    pub sk_by_xonly: RefCell<HashMap<[u8; 32], (SecretKey, usize)>>,
    pub xprv: Xpriv,
    pub xpub: Xpub,
}

pub fn hex(b: &[u8]) -> String {
    let mut s = String::with_capacity(b.len() * 2);
    for x in b {
        s.push_str(&format!("{:02x}", x));
    }
    s
}

pub fn unhex(s: &str) -> Option<Vec<u8>> {
    if s.len() % 2 != 0 {
        return None;
    }
    let mut v = Vec::with_capacity(s.len() / 2);
    for i in (0..s.len()).step_by(2) {
        v.push(u8::from_str_radix(s.get(i..i + 2)?, 16).ok()?);
    }
    Some(v)
}

impl World {
    /// The key universe is a pure function of `seed`.
    pub fn new(seed: u64) -> World {
        let secp = Secp256k1::new();
        let mut rng = Rng::derive(seed, 0, "world-keys");
        let mut keys = Vec::new();
        let mut map = HashMap::new();
        while keys.len() < N_KEYS {
            let b = rng.bytes(32);
            if let Ok(sk) = SecretKey::from_slice(&b) {
                let pk = secp256k1::PublicKey::from_secret_key(&secp, &sk);
                let (xonly, _) = pk.x_only_public_key();
                map.insert(xonly.serialize(), (sk, keys.len()));
                keys.push(KeyInfo {
                    sk,
                    pk,
                    xonly,
                    compressed_hex: hex(&pk.serialize()),
                    uncompressed_hex: hex(&pk.serialize_uncompressed()),
                    xonly_hex: hex(&xonly.serialize()),
                });
            }
        }
        let mut pre = Vec::new();
        for _ in 0..N_PRE {
            let p = rng.bytes(32);
            let mut a = [0u8; 32];
            a.copy_from_slice(&p);
            pre.push(PreInfo {
                pre: a,
                sha256: sha256::Hash::hash(&a).to_byte_array(),
                hash256: sha256d::Hash::hash(&a).to_byte_array(),
                ripemd160: ripemd160::Hash::hash(&a).to_byte_array(),
                hash160: hash160::Hash::hash(&a).to_byte_array(),
            });
        }
        let xprv = Xpriv::new_master(bitcoin::NetworkKind::Main, &rng.bytes(32)).unwrap();
        let xpub = Xpub::from_priv(&secp, &xprv);
        World { secp, keys, pre, sk_by_xonly: RefCell::new(map), xprv, xpub }
    }

    /// Register the secret key at an unhardened/hardened path below the world's xprv
    /// as owned by logical key `owner`; returns the derived public key.
    pub fn register_derived(&self, path: &DerivationPath, owner: usize) -> secp256k1::PublicKey {
        let child = self.xprv.derive_priv(&self.secp, path).unwrap();
        let sk = child.private_key;
        let pk = secp256k1::PublicKey::from_secret_key(&self.secp, &sk);
        self.sk_by_xonly
            .borrow_mut()
            .insert(pk.x_only_public_key().0.serialize(), (sk, owner));
        pk
    }

    pub fn owner_of(&self, xonly: &[u8; 32]) -> Option<usize> {
        self.sk_by_xonly.borrow().get(xonly).map(|x| x.1)
    }

    pub fn secret_for(&self, pk: &secp256k1::PublicKey) -> Option<SecretKey> {
        let x = pk.x_only_public_key().0.serialize();
        let (sk, _) = *self.sk_by_xonly.borrow().get(&x)?;
        if secp256k1::PublicKey::from_secret_key(&self.secp, &sk) == *pk {
            Some(sk)
        } else {
            Some(sk.negate())
        }
    }

    pub fn dk(&self, s: &str) -> Dk { Dk::from_str(s).expect("world key string parses") }
    pub fn dk_compressed(&self, i: usize) -> Dk { self.dk(&self.keys[i].compressed_hex) }
    pub fn dk_uncompressed(&self, i: usize) -> Dk { self.dk(&self.keys[i].uncompressed_hex) }
    pub fn dk_xonly(&self, i: usize) -> Dk { self.dk(&self.keys[i].xonly_hex) }

    /// All public key byte strings of the world (for adversary alphabets).
    pub fn all_pubkey_bytes(&self) -> Vec<Vec<u8>> {
        let mut v = vec![];
        for k in &self.keys {
            v.push(k.pk.serialize().to_vec());
            v.push(k.pk.serialize_uncompressed().to_vec());
            v.push(k.xonly.serialize().to_vec());
        }
        v
    }
}

/// A spending transaction around the input under test.
#[derive(Clone, Debug)]
pub struct Spend {
    pub tx: Transaction,
    pub prevouts: Vec<TxOut>,
    pub idx: usize,
}

impl Spend {
    /// `n_inputs` inputs, the one under test at `idx` locking `spk`.
    pub fn new(
        spk: ScriptBuf,
        lock_time: u32,
        sequence: u32,
        version: i32,
        n_inputs: usize,
        idx: usize,
    ) -> Spend {
        let mut input = vec![];
        let mut prevouts = vec![];
        for i in 0..n_inputs {
            let txid = Txid::from_byte_array([i as u8 + 1; 32]);
            input.push(TxIn {
                previous_output: OutPoint { txid, vout: i as u32 },
                script_sig: ScriptBuf::new(),
                sequence: if i == idx { Sequence(sequence) } else { Sequence(0xffff_fffd) },
                witness: Witness::new(),
            });
            let o = if i == idx {
                TxOut { value: Amount::from_sat(100_000 + i as u64), script_pubkey: spk.clone() }
            } else {
                TxOut {
                    value: Amount::from_sat(50_000 + i as u64),
                    script_pubkey: ScriptBuf::from_bytes(vec![0x51]),
                }
            };
            prevouts.push(o);
        }
        let tx = Transaction {
            version: transaction::Version(version),
            lock_time: absolute::LockTime::from_consensus(lock_time),
            input,
            output: vec![TxOut {
                value: Amount::from_sat(90_000),
                script_pubkey: ScriptBuf::from_bytes(vec![0x6a, 0x01, 0x42]),
            }],
        };
        Spend { tx, prevouts, idx }
    }

    pub fn simple(spk: ScriptBuf, lock_time: u32, sequence: u32) -> Spend {
        Spend::new(spk, lock_time, sequence, 2, 1, 0)
    }

    pub fn txc(&self) -> crate::refvm::vm::TxCtx<'_> {
        crate::refvm::vm::TxCtx { tx: &self.tx, idx: self.idx, prevouts: &self.prevouts }
    }

    /// BIP-65 semantics of OP_CHECKLOCKTIMEVERIFY for operand n on this input.
    pub fn cltv_ok(&self, n: u32) -> bool {
        let lt = self.tx.lock_time.to_consensus_u32();
        const T: u32 = 500_000_000;
        let same = (lt < T) == (n < T);
        same && n <= lt && self.tx.input[self.idx].sequence.0 != 0xffff_ffff && n < 0x8000_0000
    }

    /// BIP-112 semantics of OP_CHECKSEQUENCEVERIFY for operand n on this input.
    pub fn csv_ok(&self, n: u32) -> bool {
        if n & (1 << 31) != 0 {
            return true;
        }
        let seq = self.tx.input[self.idx].sequence.0;
        if (self.tx.version.0 as u32) < 2 || seq & (1 << 31) != 0 {
            return false;
        }
        const TYPE: u32 = 1 << 22;
        let a = n & (TYPE | 0xffff);
        let b = seq & (TYPE | 0xffff);
        ((a < TYPE) == (b < TYPE)) && a <= b
    }
}

/// How ECDSA signatures for the input under test must be computed.
#[derive(Clone, Debug)]
pub enum EcdsaMode {
    /// legacy sighash over this script code
    Legacy(ScriptBuf),
    /// BIP-143 sighash over this script code
    Segwit(ScriptBuf),
    /// no ECDSA signatures in this output type
    None,
}

/// The assets a party holds, plus the transaction they are spending in.
pub struct Assets<'w> {
    pub world: &'w World,
    /// logical key ids that can sign
    pub keys: BTreeSet<usize>,
    /// preimage ids that are known
    pub pre: BTreeSet<usize>,
    pub spend: &'w Spend,
    pub ecdsa: EcdsaMode,
    pub ecdsa_hashtype: EcdsaSighashType,
    pub tap_hashtype: TapSighashType,
    /// memo of produced signatures (sig bytes are deterministic anyway)
    pub log: RefCell<SigLog>,
    /// pretend time locks are met / unmet regardless of the transaction (None = from tx)
    pub force_timelocks: Option<bool>,
}

#[derive(Default, Debug, Clone)]
pub struct SigLog {
    pub ecdsa: BTreeMap<Vec<u8>, Vec<u8>>,
    pub schnorr: BTreeMap<(Vec<u8>, Option<[u8; 32]>), Vec<u8>>,
}

impl<'w> Assets<'w> {
    pub fn new(world: &'w World, spend: &'w Spend, ecdsa: EcdsaMode) -> Self {
        Assets {
            world,
            keys: BTreeSet::new(),
            pre: BTreeSet::new(),
            spend,
            ecdsa,
            ecdsa_hashtype: EcdsaSighashType::All,
            tap_hashtype: TapSighashType::Default,
            log: RefCell::new(SigLog::default()),
            force_timelocks: None,
        }
    }

    /// Sign with another signature hash type than ALL / DEFAULT for a third of the salts
    /// (SINGLE only where the input has a matching output).
    pub fn vary_hashtypes(&mut self, salt: u64) {
        if salt % 3 != 0 {
            return;
        }
        use EcdsaSighashType as E;
        use TapSighashType as T;
        let single_ok = self.spend.idx < self.spend.tx.output.len();
        let e = [E::All, E::None, E::Single, E::AllPlusAnyoneCanPay, E::NonePlusAnyoneCanPay, E::SinglePlusAnyoneCanPay][((salt / 3) % 6) as usize];
        let t = [T::Default, T::All, T::None, T::Single, T::AllPlusAnyoneCanPay, T::NonePlusAnyoneCanPay, T::SinglePlusAnyoneCanPay][((salt / 18) % 7) as usize];
        self.ecdsa_hashtype = if !single_ok && matches!(e, E::Single | E::SinglePlusAnyoneCanPay) { E::All } else { e };
        self.tap_hashtype = if !single_ok && matches!(t, T::Single | T::SinglePlusAnyoneCanPay) { T::Default } else { t };
    }

    pub fn can_sign(&self, pk: &secp256k1::PublicKey) -> bool {
        match self.world.owner_of(&pk.x_only_public_key().0.serialize()) {
            Some(o) => self.keys.contains(&o),
            None => false,
        }
    }

    /// The ECDSA sighash of the input under test (model side: script code chosen by the harness).
    pub fn ecdsa_digest(&self) -> Option<[u8; 32]> {
        let cache = SighashCache::new(&self.spend.tx);
        match &self.ecdsa {
            EcdsaMode::None => None,
            EcdsaMode::Legacy(sc) => cache.legacy_signature_hash(self.spend.idx, sc, self.ecdsa_hashtype.to_u32()).ok().map(|h| h.to_byte_array()),
            EcdsaMode::Segwit(sc) => {
                let mut cache = cache;
                cache
                    .p2wsh_signature_hash(self.spend.idx, sc, self.spend.prevouts[self.spend.idx].value, self.ecdsa_hashtype)
                    .ok()
                    .map(|h| h.to_byte_array())
            }
        }
    }

    /// The taproot sighash of the input under test (key path for `None`).
    pub fn schnorr_digest(&self, leaf: Option<TapLeafHash>) -> Option<[u8; 32]> {
        let mut cache = SighashCache::new(&self.spend.tx);
        let prevouts = Prevouts::All(&self.spend.prevouts);
        match leaf {
            Some(lh) => cache.taproot_script_spend_signature_hash(self.spend.idx, &prevouts, lh, self.tap_hashtype).ok().map(|h| h.to_byte_array()),
            None => cache.taproot_key_spend_signature_hash(self.spend.idx, &prevouts, self.tap_hashtype).ok().map(|h| h.to_byte_array()),
        }
    }

    pub fn ecdsa_sig(&self, pk: &bitcoin::PublicKey) -> Option<bitcoin::ecdsa::Signature> {
        if !self.can_sign(&pk.inner) {
            return None;
        }
        let sk = self.world.secret_for(&pk.inner)?;
        let cache = SighashCache::new(&self.spend.tx);
        let digest: [u8; 32] = match &self.ecdsa {
            EcdsaMode::None => return None,
            EcdsaMode::Legacy(sc) => cache
                .legacy_signature_hash(self.spend.idx, sc, self.ecdsa_hashtype.to_u32())
                .ok()?
                .to_byte_array(),
            EcdsaMode::Segwit(sc) => {
                let mut cache = cache;
                cache
                    .p2wsh_signature_hash(
                        self.spend.idx,
                        sc,
                        self.spend.prevouts[self.spend.idx].value,
                        self.ecdsa_hashtype,
                    )
                    .ok()?
                    .to_byte_array()
            }
        };
        let sig = self.world.secp.sign_ecdsa(&Message::from_digest(digest), &sk);
        let s = bitcoin::ecdsa::Signature { signature: sig, sighash_type: self.ecdsa_hashtype };
        self.log.borrow_mut().ecdsa.insert(pk.to_bytes(), s.to_vec());
        Some(s)
    }

    pub fn schnorr_sig(
        &self,
        xonly: &XOnlyPublicKey,
        leaf: Option<TapLeafHash>,
        merkle_root_for_keyspend: Option<Option<bitcoin::taproot::TapNodeHash>>,
    ) -> Option<bitcoin::taproot::Signature> {
        let x = xonly.serialize();
        let owner = self.world.owner_of(&x)?;
        if !self.keys.contains(&owner) {
            return None;
        }
        let (sk, _) = *self.world.sk_by_xonly.borrow().get(&x)?;
        let kp = Keypair::from_secret_key(&self.world.secp, &sk);
        let mut cache = SighashCache::new(&self.spend.tx);
        let prevouts = Prevouts::All(&self.spend.prevouts);
        let (digest, kp): ([u8; 32], Keypair) = match leaf {
            Some(lh) => (
                cache
                    .taproot_script_spend_signature_hash(self.spend.idx, &prevouts, lh, self.tap_hashtype)
                    .ok()?
                    .to_byte_array(),
                kp,
            ),
            None => {
                let root = merkle_root_for_keyspend?;
                let tweaked = kp.tap_tweak(&self.world.secp, root);
                (
                    cache
                        .taproot_key_spend_signature_hash(self.spend.idx, &prevouts, self.tap_hashtype)
                        .ok()?
                        .to_byte_array(),
                    tweaked.to_keypair(),
                )
            }
        };
        let sig = self
            .world
            .secp
            .sign_schnorr_no_aux_rand(&Message::from_digest(digest), &kp);
        let s = bitcoin::taproot::Signature { signature: sig, sighash_type: self.tap_hashtype };
        self.log
            .borrow_mut()
            .schnorr
            .insert((x.to_vec(), leaf.map(|l| l.to_byte_array())), s.to_vec());
        Some(s)
    }

    fn pre_for<F: Fn(&crate::world::PreInfo) -> bool>(&self, f: F) -> Option<[u8; 32]> {
        for (i, p) in self.world.pre.iter().enumerate() {
            if f(p) && self.pre.contains(&i) {
                return Some(p.pre);
            }
        }
        None
    }
}

/// A `Satisfier` over `Assets` for one descriptor; `tr_merkle_root` is needed for key-path signatures.
pub struct WorldSat<'a, 'w> {
    pub assets: &'a Assets<'w>,
    pub tr_merkle_root: Option<Option<bitcoin::taproot::TapNodeHash>>,
}

impl<'a, 'w, Pk> Satisfier<Pk> for WorldSat<'a, 'w>
where
    Pk: MiniscriptKey<
            Sha256 = sha256::Hash,
            Hash256 = miniscript::hash256::Hash,
            Ripemd160 = ripemd160::Hash,
            Hash160 = hash160::Hash,
        > + ToPublicKey,
{
    fn lookup_ecdsa_sig(&self, pk: &Pk) -> Option<bitcoin::ecdsa::Signature> {
        self.assets.ecdsa_sig(&pk.to_public_key())
    }

    fn lookup_tap_key_spend_sig(&self, pk: &Pk) -> Option<bitcoin::taproot::Signature> {
        self.assets.schnorr_sig(&pk.to_x_only_pubkey(), None, self.tr_merkle_root)
    }

    fn lookup_tap_leaf_script_sig(
        &self,
        pk: &Pk,
        lh: &TapLeafHash,
    ) -> Option<bitcoin::taproot::Signature> {
        self.assets.schnorr_sig(&pk.to_x_only_pubkey(), Some(*lh), None)
    }

    fn lookup_raw_pkh_pk(&self, h: &hash160::Hash) -> Option<bitcoin::PublicKey> {
        for k in &self.assets.world.keys {
            let c = bitcoin::PublicKey::new(k.pk);
            if c.to_pubkeyhash(miniscript::SigType::Ecdsa) == *h {
                return Some(c);
            }
            let u = bitcoin::PublicKey::new_uncompressed(k.pk);
            if u.to_pubkeyhash(miniscript::SigType::Ecdsa) == *h {
                return Some(u);
            }
        }
        None
    }

    fn lookup_raw_pkh_x_only_pk(&self, h: &hash160::Hash) -> Option<XOnlyPublicKey> {
        for k in &self.assets.world.keys {
            if hash160::Hash::hash(&k.xonly.serialize()) == *h {
                return Some(k.xonly);
            }
        }
        None
    }

    fn lookup_raw_pkh_ecdsa_sig(
        &self,
        h: &hash160::Hash,
    ) -> Option<(bitcoin::PublicKey, bitcoin::ecdsa::Signature)> {
        let pk = <Self as Satisfier<Pk>>::lookup_raw_pkh_pk(self, h)?;
        let sig = self.assets.ecdsa_sig(&pk)?;
        Some((pk, sig))
    }

    fn lookup_raw_pkh_tap_leaf_script_sig(
        &self,
        k: &(hash160::Hash, TapLeafHash),
    ) -> Option<(XOnlyPublicKey, bitcoin::taproot::Signature)> {
        let x = <Self as Satisfier<Pk>>::lookup_raw_pkh_x_only_pk(self, &k.0)?;
        let sig = self.assets.schnorr_sig(&x, Some(k.1), None)?;
        Some((x, sig))
    }

    fn lookup_sha256(&self, h: &sha256::Hash) -> Option<[u8; 32]> {
        self.assets.pre_for(|p| p.sha256 == h.to_byte_array())
    }
    fn lookup_hash256(&self, h: &miniscript::hash256::Hash) -> Option<[u8; 32]> {
        self.assets.pre_for(|p| p.hash256 == h.to_byte_array())
    }
    fn lookup_ripemd160(&self, h: &ripemd160::Hash) -> Option<[u8; 32]> {
        self.assets.pre_for(|p| p.ripemd160 == h.to_byte_array())
    }
    fn lookup_hash160(&self, h: &hash160::Hash) -> Option<[u8; 32]> {
        self.assets.pre_for(|p| p.hash160 == h.to_byte_array())
    }

    fn check_older(&self, n: relative::LockTime) -> bool {
        if let Some(f) = self.assets.force_timelocks {
            return f;
        }
        self.assets.spend.csv_ok(n.to_consensus_u32())
    }

    fn check_after(&self, n: absolute::LockTime) -> bool {
        if let Some(f) = self.assets.force_timelocks {
            return f;
        }
        self.assets.spend.cltv_ok(n.to_consensus_u32())
    }
}

/// Child number helper.
pub fn normal(i: u32) -> ChildNumber { ChildNumber::from_normal_idx(i).unwrap() }

// --------------------------------------------------------------------------
// Descriptor key expressions (text) of every form, with the data needed to
// check them against an independent BIP-32 derivation.

#[derive(Clone, Debug)]
pub struct KeyExpr {
    /// public key expression as it appears in a descriptor
    pub text: String,
    /// same expression with the private key (xprv / WIF) where one exists
    pub secret_text: Option<String>,
    /// derivation steps after the xpub (each step: alternatives; one alternative unless multipath)
    pub steps: Vec<Vec<u32>>,
    /// path from the world's master key to the xpub in `text` (empty for the master xpub)
    pub origin_path: Vec<u32>,
    pub has_origin: bool,
    /// 0 = none, 1 = unhardened wildcard, 2 = hardened wildcard
    pub wildcard: u8,
    pub is_xpub: bool,
    pub n_multipath: usize,
}

const H: u32 = 0x8000_0000;

fn path_str(p: &[u32], hmark: &str) -> String {
    p.iter()
        .map(|c| if c & H != 0 { format!("/{}{}", c & !H, hmark) } else { format!("/{}", c) })
        .collect()
}

impl World {
    fn xprv_at(&self, path: &[u32]) -> Xpriv {
        let cn: Vec<ChildNumber> = path
            .iter()
            .map(|c| {
                if c & H != 0 {
                    ChildNumber::from_hardened_idx(c & !H).unwrap()
                } else {
                    ChildNumber::from_normal_idx(*c).unwrap()
                }
            })
            .collect();
        self.xprv.derive_priv(&self.secp, &DerivationPath::from(cn)).unwrap()
    }

    /// A random xpub-based key expression. `allow_multipath`/`allow_wildcard` restrict the forms.
    pub fn gen_xkey(&self, rng: &mut Rng, allow_wildcard: bool, allow_multipath: bool, allow_hardened_wc: bool) -> KeyExpr {
        let hmark = if rng.coin() { "'" } else { "h" };
        // origin: 0-3 steps (possibly hardened) from the master
        let n_origin = rng.below(4);
        let origin_path: Vec<u32> = (0..n_origin)
            .map(|_| {
                let v = rng.below(100) as u32;
                if rng.coin() {
                    v | H
                } else {
                    v
                }
            })
            .collect();
        let mut xprv = self.xprv_at(&origin_path);
        // one key in six is written with the testnet version bytes (tpub / tprv): same key material
        if rng.chance(1, 6) {
            xprv.network = bitcoin::NetworkKind::Test;
        }
        let xpub = Xpub::from_priv(&self.secp, &xprv);
        let has_origin = n_origin > 0 || rng.chance(1, 4);
        let fp = self.xpub.fingerprint();
        let origin = if has_origin { format!("[{}{}]", fp, path_str(&origin_path, hmark)) } else { String::new() };
        // derivation steps after the xpub (unhardened so that public derivation works)
        let n_steps = rng.below(3);
        let mut steps: Vec<Vec<u32>> = (0..n_steps).map(|_| vec![rng.below(50) as u32]).collect();
        let mut n_multipath = 1;
        if allow_multipath && rng.chance(1, 3) {
            n_multipath = rng.range(2, 4);
            let mut alts: Vec<u32> = vec![];
            while alts.len() < n_multipath {
                let v = rng.below(20) as u32;
                if !alts.contains(&v) {
                    alts.push(v);
                }
            }
            let pos = rng.below(steps.len() + 1);
            steps.insert(pos, alts);
        }
        let wildcard = if allow_wildcard && rng.chance(1, 2) {
            if allow_hardened_wc && rng.chance(1, 5) {
                2
            } else {
                1
            }
        } else {
            0
        };
        let mut tail = String::new();
        for s in &steps {
            if s.len() == 1 {
                tail.push_str(&format!("/{}", s[0]));
            } else {
                tail.push_str(&format!("/<{}>", s.iter().map(|v| v.to_string()).collect::<Vec<_>>().join(";")));
            }
        }
        match wildcard {
            1 => tail.push_str("/*"),
            2 => tail.push_str(&format!("/*{}", hmark)),
            _ => {}
        }
        KeyExpr {
            text: format!("{}{}{}", origin, xpub, tail),
            secret_text: Some(format!("{}{}{}", origin, xprv, tail)),
            steps,
            origin_path,
            has_origin,
            wildcard,
            is_xpub: true,
            n_multipath,
        }
    }

    /// Independent BIP-32 public derivation of the key `expr` stands for, choosing
    /// alternative `alt` of a multipath step and index `index` for the wildcard.
    /// Goes through the private side so that hardened origins are covered.
    pub fn derive_expr(&self, expr: &KeyExpr, alt: usize, index: u32) -> Option<secp256k1::PublicKey> {
        let mut path = expr.origin_path.clone();
        for s in &expr.steps {
            path.push(if s.len() == 1 { s[0] } else { s[alt % s.len()] });
        }
        match expr.wildcard {
            1 => path.push(index),
            2 => return None,
            _ => {}
        }
        Some(crate::oracle::bip32::derive_pub_from_master(self, &path))
    }
}
