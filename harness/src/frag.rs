//! Harness-side miniscript AST, printer and *type-directed* generator. The
//! generator is guided by the specification model (oracle::spec_types), never by
//! the library, so that the same seed produces the same cases on any tree.
//! Whether a generated fragment is *accepted* is always decided by the library.

use crate::oracle::spec_types::{self as st, Base, Kind, STy};
use crate::prng::Rng;

#[derive(Clone, Copy, Debug, PartialEq, Eq, Hash, PartialOrd, Ord)]
pub enum Cx {
    Bare,
    Legacy,
    Segwitv0,
    Tap,
}

impl Cx {
    pub const ALL: [Cx; 4] = [Cx::Bare, Cx::Legacy, Cx::Segwitv0, Cx::Tap];
    pub fn name(&self) -> &'static str {
        match self {
            Cx::Bare => "bare",
            Cx::Legacy => "legacy",
            Cx::Segwitv0 => "segwitv0",
            Cx::Tap => "tap",
        }
    }
    pub fn is_tap(&self) -> bool { *self == Cx::Tap }
}

#[derive(Clone, Copy, Debug, PartialEq, Eq, Hash, PartialOrd, Ord)]
pub enum KeyForm {
    Compressed,
    Uncompressed,
    XOnly,
}

#[derive(Clone, Copy, Debug, PartialEq, Eq, Hash, PartialOrd, Ord)]
pub struct KeyRef {
    pub id: usize,
    pub form: KeyForm,
}

#[derive(Clone, Debug, PartialEq, Eq, Hash, PartialOrd, Ord)]
pub enum Frag {
    False,
    True,
    PkK(KeyRef),
    PkH(KeyRef),
    After(u32),
    Older(u32),
    Sha256(usize),
    Hash256(usize),
    Ripemd160(usize),
    Hash160(usize),
    Alt(Box<Frag>),
    Swap(Box<Frag>),
    Check(Box<Frag>),
    DupIf(Box<Frag>),
    Verify(Box<Frag>),
    NonZero(Box<Frag>),
    ZeroNotEqual(Box<Frag>),
    AndV(Box<Frag>, Box<Frag>),
    AndB(Box<Frag>, Box<Frag>),
    AndOr(Box<Frag>, Box<Frag>, Box<Frag>),
    OrB(Box<Frag>, Box<Frag>),
    OrC(Box<Frag>, Box<Frag>),
    OrD(Box<Frag>, Box<Frag>),
    OrI(Box<Frag>, Box<Frag>),
    Thresh(usize, Vec<Frag>),
    Multi(usize, Vec<KeyRef>),
    SortedMulti(usize, Vec<KeyRef>),
    MultiA(usize, Vec<KeyRef>),
    SortedMultiA(usize, Vec<KeyRef>),
}

/// Names for keys and hashes when printing.
pub trait Names {
    fn key(&self, k: &KeyRef) -> String;
    fn sha256(&self, i: usize) -> String;
    fn hash256(&self, i: usize) -> String;
    fn ripemd160(&self, i: usize) -> String;
    fn hash160(&self, i: usize) -> String;
}

impl Names for crate::world::World {
    fn key(&self, k: &KeyRef) -> String {
        let ki = &self.keys[k.id % self.keys.len()];
        match k.form {
            KeyForm::Compressed => ki.compressed_hex.clone(),
            KeyForm::Uncompressed => ki.uncompressed_hex.clone(),
            KeyForm::XOnly => ki.xonly_hex.clone(),
        }
    }
    fn sha256(&self, i: usize) -> String { crate::world::hex(&self.pre[i % self.pre.len()].sha256) }
    fn hash256(&self, i: usize) -> String {
        // the library prints hash256 in the same byte order it parses: plain hex of the digest
        crate::world::hex(&self.pre[i % self.pre.len()].hash256)
    }
    fn ripemd160(&self, i: usize) -> String {
        crate::world::hex(&self.pre[i % self.pre.len()].ripemd160)
    }
    fn hash160(&self, i: usize) -> String { crate::world::hex(&self.pre[i % self.pre.len()].hash160) }
}

/// Abstract string names (for `Miniscript<String, _>` workloads: Miri, policies).
pub struct AbstractNames;
impl Names for AbstractNames {
    fn key(&self, k: &KeyRef) -> String { format!("K{}", k.id) }
    fn sha256(&self, i: usize) -> String { format!("{:064x}", 0x1000 + i) }
    fn hash256(&self, i: usize) -> String { format!("{:064x}", 0x2000 + i) }
    fn ripemd160(&self, i: usize) -> String { format!("{:040x}", 0x3000 + i) }
    fn hash160(&self, i: usize) -> String { format!("{:040x}", 0x4000 + i) }
}

impl Frag {
    pub fn kind(&self) -> Kind {
        match self {
            Frag::False => Kind::False,
            Frag::True => Kind::True,
            Frag::PkK(_) => Kind::PkK,
            Frag::PkH(_) => Kind::PkH,
            Frag::After(_) => Kind::After,
            Frag::Older(_) => Kind::Older,
            Frag::Sha256(_) => Kind::Sha256,
            Frag::Hash256(_) => Kind::Hash256,
            Frag::Ripemd160(_) => Kind::Ripemd160,
            Frag::Hash160(_) => Kind::Hash160,
            Frag::Alt(_) => Kind::Alt,
            Frag::Swap(_) => Kind::Swap,
            Frag::Check(_) => Kind::Check,
            Frag::DupIf(_) => Kind::DupIf,
            Frag::Verify(_) => Kind::Verify,
            Frag::NonZero(_) => Kind::NonZero,
            Frag::ZeroNotEqual(_) => Kind::ZeroNotEqual,
            Frag::AndV(..) => Kind::AndV,
            Frag::AndB(..) => Kind::AndB,
            Frag::AndOr(..) => Kind::AndOr,
            Frag::OrB(..) => Kind::OrB,
            Frag::OrC(..) => Kind::OrC,
            Frag::OrD(..) => Kind::OrD,
            Frag::OrI(..) => Kind::OrI,
            Frag::Thresh(..) => Kind::Thresh,
            Frag::Multi(..) | Frag::SortedMulti(..) => Kind::Multi,
            Frag::MultiA(..) | Frag::SortedMultiA(..) => Kind::MultiA,
        }
    }

    pub fn name(&self) -> &'static str {
        match self {
            Frag::False => "0",
            Frag::True => "1",
            Frag::PkK(_) => "pk_k",
            Frag::PkH(_) => "pk_h",
            Frag::After(_) => "after",
            Frag::Older(_) => "older",
            Frag::Sha256(_) => "sha256",
            Frag::Hash256(_) => "hash256",
            Frag::Ripemd160(_) => "ripemd160",
            Frag::Hash160(_) => "hash160",
            Frag::Alt(_) => "a",
            Frag::Swap(_) => "s",
            Frag::Check(_) => "c",
            Frag::DupIf(_) => "d",
            Frag::Verify(_) => "v",
            Frag::NonZero(_) => "j",
            Frag::ZeroNotEqual(_) => "n",
            Frag::AndV(..) => "and_v",
            Frag::AndB(..) => "and_b",
            Frag::AndOr(..) => "andor",
            Frag::OrB(..) => "or_b",
            Frag::OrC(..) => "or_c",
            Frag::OrD(..) => "or_d",
            Frag::OrI(..) => "or_i",
            Frag::Thresh(..) => "thresh",
            Frag::Multi(..) => "multi",
            Frag::SortedMulti(..) => "sortedmulti",
            Frag::MultiA(..) => "multi_a",
            Frag::SortedMultiA(..) => "sortedmulti_a",
        }
    }

    pub fn children(&self) -> Vec<&Frag> {
        match self {
            Frag::Alt(x)
            | Frag::Swap(x)
            | Frag::Check(x)
            | Frag::DupIf(x)
            | Frag::Verify(x)
            | Frag::NonZero(x)
            | Frag::ZeroNotEqual(x) => vec![x],
            Frag::AndV(a, b)
            | Frag::AndB(a, b)
            | Frag::OrB(a, b)
            | Frag::OrC(a, b)
            | Frag::OrD(a, b)
            | Frag::OrI(a, b) => vec![a, b],
            Frag::AndOr(a, b, c) => vec![a, b, c],
            Frag::Thresh(_, xs) => xs.iter().collect(),
            _ => vec![],
        }
    }

    pub fn n_nodes(&self) -> usize { 1 + self.children().iter().map(|c| c.n_nodes()).sum::<usize>() }

    pub fn walk<'a>(&'a self, f: &mut dyn FnMut(&'a Frag)) {
        f(self);
        for c in self.children() {
            c.walk(f);
        }
    }

    /// Keys in left-to-right order of the string form.
    pub fn keys(&self) -> Vec<KeyRef> {
        let mut v = vec![];
        self.walk(&mut |n| match n {
            Frag::PkK(k) | Frag::PkH(k) => v.push(*k),
            Frag::Multi(_, ks)
            | Frag::SortedMulti(_, ks)
            | Frag::MultiA(_, ks)
            | Frag::SortedMultiA(_, ks) => v.extend(ks.iter().cloned()),
            _ => {}
        });
        v
    }

    /// (sha256, hash256, ripemd160, hash160) preimage ids used
    pub fn preimages(&self) -> Vec<usize> {
        let mut v = vec![];
        self.walk(&mut |n| match n {
            Frag::Sha256(i) | Frag::Hash256(i) | Frag::Ripemd160(i) | Frag::Hash160(i) => {
                if !v.contains(i) {
                    v.push(*i)
                }
            }
            _ => {}
        });
        v
    }

    pub fn timelocks(&self) -> (Vec<u32>, Vec<u32>) {
        let mut a = vec![];
        let mut o = vec![];
        self.walk(&mut |n| match n {
            Frag::After(x) => a.push(*x),
            Frag::Older(x) => o.push(*x),
            _ => {}
        });
        (a, o)
    }

    fn is_wrapper(&self) -> bool {
        matches!(
            self,
            Frag::Alt(_)
                | Frag::Swap(_)
                | Frag::Check(_)
                | Frag::DupIf(_)
                | Frag::Verify(_)
                | Frag::NonZero(_)
                | Frag::ZeroNotEqual(_)
        )
    }

    /// Library syntax, without sugar (c:pk_k rather than pk).
    pub fn to_string_with(&self, names: &dyn Names) -> String {
        let mut s = String::new();
        self.fmt_into(names, &mut s);
        s
    }

    fn fmt_into(&self, nm: &dyn Names, s: &mut String) {
        let keys = |k: &usize, ks: &Vec<KeyRef>, s: &mut String, name: &str| {
            s.push_str(name);
            s.push('(');
            s.push_str(&k.to_string());
            for key in ks {
                s.push(',');
                s.push_str(&nm.key(key));
            }
            s.push(')');
        };
        match self {
            Frag::False => s.push('0'),
            Frag::True => s.push('1'),
            Frag::PkK(k) => {
                s.push_str("pk_k(");
                s.push_str(&nm.key(k));
                s.push(')');
            }
            Frag::PkH(k) => {
                s.push_str("pk_h(");
                s.push_str(&nm.key(k));
                s.push(')');
            }
            Frag::After(n) => s.push_str(&format!("after({})", n)),
            Frag::Older(n) => s.push_str(&format!("older({})", n)),
            Frag::Sha256(i) => s.push_str(&format!("sha256({})", nm.sha256(*i))),
            Frag::Hash256(i) => s.push_str(&format!("hash256({})", nm.hash256(*i))),
            Frag::Ripemd160(i) => s.push_str(&format!("ripemd160({})", nm.ripemd160(*i))),
            Frag::Hash160(i) => s.push_str(&format!("hash160({})", nm.hash160(*i))),
            Frag::Alt(x)
            | Frag::Swap(x)
            | Frag::Check(x)
            | Frag::DupIf(x)
            | Frag::Verify(x)
            | Frag::NonZero(x)
            | Frag::ZeroNotEqual(x) => {
                s.push_str(self.name());
                if !x.is_wrapper() {
                    s.push(':');
                }
                x.fmt_into(nm, s);
            }
            Frag::AndV(a, b)
            | Frag::AndB(a, b)
            | Frag::OrB(a, b)
            | Frag::OrC(a, b)
            | Frag::OrD(a, b)
            | Frag::OrI(a, b) => {
                s.push_str(self.name());
                s.push('(');
                a.fmt_into(nm, s);
                s.push(',');
                b.fmt_into(nm, s);
                s.push(')');
            }
            Frag::AndOr(a, b, c) => {
                s.push_str("andor(");
                a.fmt_into(nm, s);
                s.push(',');
                b.fmt_into(nm, s);
                s.push(',');
                c.fmt_into(nm, s);
                s.push(')');
            }
            Frag::Thresh(k, xs) => {
                s.push_str(&format!("thresh({}", k));
                for x in xs {
                    s.push(',');
                    x.fmt_into(nm, s);
                }
                s.push(')');
            }
            Frag::Multi(k, ks) => keys(k, ks, s, "multi"),
            Frag::SortedMulti(k, ks) => keys(k, ks, s, "sortedmulti"),
            Frag::MultiA(k, ks) => keys(k, ks, s, "multi_a"),
            Frag::SortedMultiA(k, ks) => keys(k, ks, s, "sortedmulti_a"),
        }
    }

    /// Type according to the specification model (None if ill-typed).
    pub fn spec_type(&self, tap: bool) -> Result<STy, &'static str> {
        Ok(match self {
            Frag::False
            | Frag::True
            | Frag::PkK(_)
            | Frag::PkH(_)
            | Frag::After(_)
            | Frag::Older(_)
            | Frag::Sha256(_)
            | Frag::Hash256(_)
            | Frag::Ripemd160(_)
            | Frag::Hash160(_) => st::leaf(self.kind()),
            Frag::Multi(..) | Frag::SortedMulti(..) => st::leaf(Kind::Multi),
            Frag::MultiA(..) | Frag::SortedMultiA(..) => st::leaf(Kind::MultiA),
            Frag::Alt(x)
            | Frag::Swap(x)
            | Frag::Check(x)
            | Frag::DupIf(x)
            | Frag::Verify(x)
            | Frag::NonZero(x)
            | Frag::ZeroNotEqual(x) => st::wrapper(self.kind(), &x.spec_type(tap)?, tap)?,
            Frag::AndV(a, b)
            | Frag::AndB(a, b)
            | Frag::OrB(a, b)
            | Frag::OrC(a, b)
            | Frag::OrD(a, b)
            | Frag::OrI(a, b) => st::binary(self.kind(), &a.spec_type(tap)?, &b.spec_type(tap)?)?,
            Frag::AndOr(a, b, c) => {
                st::andor(&a.spec_type(tap)?, &b.spec_type(tap)?, &c.spec_type(tap)?)?
            }
            Frag::Thresh(k, xs) => {
                let mut ts = vec![];
                for x in xs {
                    ts.push(x.spec_type(tap)?);
                }
                st::thresh(*k, &ts)?
            }
        })
    }
}

/// Absolute and relative lock-time values around the unit boundaries.
// the first seven of each list are the semantic boundaries (units, maxima); the rest are the
// boundaries of the script-number encoding (OP_16 / 1 / 2 / 3 / 4 byte pushes and their sign bits)
pub const AFTER_VALUES: [u32; 20] = [
    1, 2, 144, 499_999_999, 500_000_000, 500_000_001, 0x7fff_ffff, 16, 17, 127, 128, 255, 256, 32_767, 32_768, 65_536, 8_388_607, 8_388_608, 16_777_216,
    1_700_000_000,
];
pub const OLDER_VALUES: [u32; 23] = [
    // bits 16..=21 have no meaning under BIP-68/112: 0 blocks, 1 block, 3 x 512 s and 10 blocks in disguise
    65_536,
    65_537,
    (1 << 22) | (1 << 17) | 3,
    (1 << 21) | 10,
    1,
    2,
    144,
    65_535,
    (1 << 22) | 1,
    (1 << 22) | 2,
    (1 << 22) | 65_535,
    16,
    17,
    127,
    128,
    255,
    256,
    32_767,
    32_768,
    (1 << 22) | 16,
    (1 << 22) | 17,
    (1 << 22) | 128,
    (1 << 22) | 32_768,
];

#[derive(Clone, Debug)]
pub struct GenCfg {
    pub cx: Cx,
    pub max_nodes: usize,
    /// number of distinct logical keys to draw from
    pub n_keys: usize,
    pub n_pre: usize,
    /// allow repeating keys (insane scripts)
    pub repeat_keys: bool,
    /// probability (in %) of ignoring the typing guidance at a node
    pub chaos_pct: u32,
    pub allow_timelocks: bool,
    pub allow_hashes: bool,
    /// make about half of the B leaves time locks (mixed-unit paths become common)
    pub timelock_heavy: bool,
}

impl GenCfg {
    pub fn new(cx: Cx, max_nodes: usize) -> Self {
        GenCfg {
            cx,
            max_nodes,
            n_keys: crate::world::N_KEYS,
            n_pre: crate::world::N_PRE,
            repeat_keys: false,
            chaos_pct: 0,
            allow_timelocks: true,
            allow_hashes: true,
            timelock_heavy: false,
        }
    }
}

pub struct Gen<'r> {
    pub rng: &'r mut Rng,
    pub cfg: GenCfg,
    next_key: usize,
    key_perm: Vec<usize>,
}

impl<'r> Gen<'r> {
    pub fn new(rng: &'r mut Rng, cfg: GenCfg) -> Self {
        let mut key_perm: Vec<usize> = (0..cfg.n_keys).collect();
        rng.shuffle(&mut key_perm);
        Gen { rng, cfg, next_key: 0, key_perm }
    }

    fn key(&mut self) -> KeyRef {
        let id = if self.cfg.repeat_keys && self.rng.chance(1, 4) {
            self.key_perm[self.rng.below(self.cfg.n_keys)]
        } else {
            let i = self.next_key;
            self.next_key += 1;
            self.key_perm[i % self.cfg.n_keys]
        };
        let form = match self.cfg.cx {
            Cx::Bare | Cx::Legacy => {
                if self.rng.chance(1, 5) {
                    KeyForm::Uncompressed
                } else {
                    KeyForm::Compressed
                }
            }
            Cx::Segwitv0 => KeyForm::Compressed,
            Cx::Tap => KeyForm::XOnly,
        };
        KeyRef { id, form }
    }

    fn keys(&mut self, n: usize) -> Vec<KeyRef> { (0..n).map(|_| self.key()).collect() }

    fn tap(&self) -> bool { self.cfg.cx.is_tap() }

    /// A leaf of base type B (with spec type).
    fn leaf_b(&mut self) -> Frag {
        if self.cfg.timelock_heavy && self.cfg.allow_timelocks && self.rng.coin() {
            return if self.rng.coin() {
                Frag::After(*self.rng.pick(&AFTER_VALUES))
            } else {
                Frag::Older(*self.rng.pick(&OLDER_VALUES))
            };
        }
        loop {
            let r = self.rng.below(100);
            return match r {
                0..=29 => Frag::Check(Box::new(Frag::PkK(self.key()))),
                30..=39 => Frag::Check(Box::new(Frag::PkH(self.key()))),
                40..=51 => {
                    // mostly small; sometimes wide (number pushes above 16 need two bytes)
                    // CHECKSIGADD-based multisig has no 20-key limit: go past it now and then
                    let n = if self.rng.chance(1, 8) {
                        if self.tap() && self.cfg.repeat_keys && self.rng.chance(1, 3) {
                            self.rng.range(21, 40)
                        } else {
                            self.rng.range(4, 20)
                        }
                    } else {
                        self.rng.range(1, 3)
                    };
                    let k = if n > 20 && self.rng.coin() { self.rng.range(21, n) } else { self.rng.range(1, n) };
                    let ks = self.keys(n);
                    let sorted = self.rng.chance(1, 4);
                    match (self.tap(), sorted) {
                        (false, false) => Frag::Multi(k, ks),
                        (false, true) => Frag::SortedMulti(k, ks),
                        (true, false) => Frag::MultiA(k, ks),
                        (true, true) => Frag::SortedMultiA(k, ks),
                    }
                }
                52..=63 if self.cfg.allow_timelocks => {
                    Frag::After(*self.rng.pick(&AFTER_VALUES))
                }
                64..=75 if self.cfg.allow_timelocks => {
                    Frag::Older(*self.rng.pick(&OLDER_VALUES))
                }
                76..=93 if self.cfg.allow_hashes => {
                    let i = self.rng.below(self.cfg.n_pre);
                    match self.rng.below(4) {
                        0 => Frag::Sha256(i),
                        1 => Frag::Hash256(i),
                        2 => Frag::Ripemd160(i),
                        _ => Frag::Hash160(i),
                    }
                }
                94..=96 => Frag::False,
                97..=99 => Frag::True,
                _ => continue,
            };
        }
    }

    /// Generate a fragment of the wanted base type with at most `budget` nodes.
    /// With probability chaos_pct the typing guidance is ignored for one node.
    pub fn gen(&mut self, want: Base, budget: usize) -> Frag {
        for _ in 0..12 {
            let f = self.try_gen(want, budget);
            if self.cfg.chaos_pct > 0 {
                return f;
            }
            if let Ok(t) = f.spec_type(self.tap()) {
                if t.base == want {
                    return f;
                }
            }
        }
        self.fallback(want)
    }

    fn fallback(&mut self, want: Base) -> Frag {
        match want {
            Base::B => Frag::Check(Box::new(Frag::PkK(self.key()))),
            Base::K => Frag::PkK(self.key()),
            Base::V => Frag::Verify(Box::new(Frag::Check(Box::new(Frag::PkK(self.key()))))),
            Base::W => Frag::Alt(Box::new(Frag::Check(Box::new(Frag::PkK(self.key()))))),
        }
    }

    /// Generate with required properties (d and/or u), retrying.
    fn gen_props(&mut self, want: Base, budget: usize, need_d: bool, need_u: bool, need_o: bool) -> Frag {
        // chaos also drops the property requirements of a position now and then
        if self.cfg.chaos_pct > 0 && self.rng.chance(self.cfg.chaos_pct, 100) {
            return self.gen(want, budget);
        }
        for _ in 0..8 {
            let f = self.gen(want, budget);
            if let Ok(t) = f.spec_type(self.tap()) {
                if (!need_d || t.d) && (!need_u || t.u) && (!need_o || t.o) {
                    return f;
                }
            } else if self.cfg.chaos_pct > 0 {
                return f;
            }
        }
        // pk-based fallbacks are Bdu / Wdu / Bo
        match want {
            Base::W => Frag::Swap(Box::new(Frag::Check(Box::new(Frag::PkK(self.key()))))),
            _ => self.fallback(want),
        }
    }

    fn try_gen(&mut self, want: Base, budget: usize) -> Frag {
        let chaos = self.cfg.chaos_pct > 0 && self.rng.chance(self.cfg.chaos_pct, 100);
        let want = if chaos { *self.rng.pick(&[Base::B, Base::V, Base::K, Base::W]) } else { want };
        if budget <= 1 {
            return match want {
                Base::B => self.leaf_b(),
                Base::K => {
                    if self.rng.chance(2, 3) {
                        Frag::PkK(self.key())
                    } else {
                        Frag::PkH(self.key())
                    }
                }
                _ => self.fallback(want),
            };
        }
        let b = budget - 1;
        let bx = |x: Frag| Box::new(x);
        match want {
            Base::K => match self.rng.below(10) {
                0..=4 => Frag::PkK(self.key()),
                5..=6 => Frag::PkH(self.key()),
                7 => {
                    let x = self.gen(Base::V, b / 2);
                    let y = self.gen(Base::K, b - b / 2);
                    Frag::AndV(bx(x), bx(y))
                }
                8 => {
                    let x = self.gen(Base::K, b / 2);
                    let y = self.gen(Base::K, b - b / 2);
                    Frag::OrI(bx(x), bx(y))
                }
                _ => {
                    let x = self.gen_props(Base::B, b / 3, true, true, false);
                    let y = self.gen(Base::K, b / 3);
                    let z = self.gen(Base::K, b / 3);
                    Frag::AndOr(bx(x), bx(y), bx(z))
                }
            },
            Base::V => match self.rng.below(10) {
                0..=4 => {
                    let x = self.gen(Base::B, b);
                    Frag::Verify(bx(x))
                }
                5 => {
                    let x = self.gen(Base::V, b / 2);
                    let y = self.gen(Base::V, b - b / 2);
                    Frag::AndV(bx(x), bx(y))
                }
                6..=7 => {
                    let x = self.gen_props(Base::B, b / 2, true, true, false);
                    let y = self.gen(Base::V, b - b / 2);
                    Frag::OrC(bx(x), bx(y))
                }
                8 => {
                    let x = self.gen(Base::V, b / 2);
                    let y = self.gen(Base::V, b - b / 2);
                    Frag::OrI(bx(x), bx(y))
                }
                _ => {
                    let x = self.gen_props(Base::B, b / 3, true, true, false);
                    let y = self.gen(Base::V, b / 3);
                    let z = self.gen(Base::V, b / 3);
                    Frag::AndOr(bx(x), bx(y), bx(z))
                }
            },
            Base::W => {
                if self.rng.chance(2, 3) {
                    let x = self.gen(Base::B, b);
                    Frag::Alt(bx(x))
                } else {
                    let x = self.gen_props(Base::B, b, false, false, true);
                    Frag::Swap(bx(x))
                }
            }
            Base::B => match self.rng.below(100) {
                0..=11 => self.leaf_b(),
                12..=17 => {
                    let x = self.gen(Base::K, b);
                    Frag::Check(bx(x))
                }
                18..=21 => {
                    // d:X needs Vz
                    let x = self.gen(Base::V, b);
                    Frag::DupIf(bx(x))
                }
                22..=25 => {
                    let x = self.gen(Base::B, b);
                    Frag::NonZero(bx(x))
                }
                26..=29 => {
                    let x = self.gen(Base::B, b);
                    Frag::ZeroNotEqual(bx(x))
                }
                30..=41 => {
                    let x = self.gen(Base::V, b / 2);
                    let y = self.gen(Base::B, b - b / 2);
                    Frag::AndV(bx(x), bx(y))
                }
                42..=50 => {
                    let x = self.gen(Base::B, b / 2);
                    let y = self.gen(Base::W, b - b / 2);
                    Frag::AndB(bx(x), bx(y))
                }
                51..=58 => {
                    let x = self.gen_props(Base::B, b / 2, true, false, false);
                    let y = self.gen_props(Base::W, b - b / 2, true, false, false);
                    Frag::OrB(bx(x), bx(y))
                }
                59..=67 => {
                    let x = self.gen_props(Base::B, b / 2, true, true, false);
                    let y = self.gen(Base::B, b - b / 2);
                    Frag::OrD(bx(x), bx(y))
                }
                68..=75 => {
                    let x = self.gen(Base::B, b / 2);
                    let y = self.gen(Base::B, b - b / 2);
                    Frag::OrI(bx(x), bx(y))
                }
                76..=84 => {
                    let x = self.gen_props(Base::B, b / 3, true, true, false);
                    let y = self.gen(Base::B, b / 3);
                    let z = self.gen(Base::B, b / 3);
                    Frag::AndOr(bx(x), bx(y), bx(z))
                }
                85..=93 => {
                    let n = self.rng.range(1, 4.min(b.max(1)));
                    let k = self.rng.range(1, n);
                    let each = (b / n).max(1);
                    let mut xs = vec![self.gen_props(Base::B, each, true, true, false)];
                    for _ in 1..n {
                        xs.push(self.gen_props(Base::W, each, true, true, false));
                    }
                    Frag::Thresh(k, xs)
                }
                94..=96 => {
                    // t:X
                    let x = self.gen(Base::V, b);
                    Frag::AndV(bx(x), bx(Frag::True))
                }
                _ => {
                    // l:X / u:X
                    let x = self.gen(Base::B, b);
                    if self.rng.coin() {
                        Frag::OrI(bx(Frag::False), bx(x))
                    } else {
                        Frag::OrI(bx(x), bx(Frag::False))
                    }
                }
            },
        }
    }
}

/// "Cost ladder": a signature arm against a signature-free arm of adjustable weight
/// (1-4 hash preimages, optionally ending in a time lock) under every choice combinator,
/// below a root signature so the script stays sane. Branch selection in the satisfier
/// (cheapest vs non-malleable, has_sig bookkeeping, thresh ordering) is decided exactly
/// where these costs cross, which random typed generation rarely hits.
pub fn ladder(rng: &mut Rng, cx: Cx) -> Frag {
    let form = match cx {
        Cx::Tap => KeyForm::XOnly,
        _ => KeyForm::Compressed,
    };
    let mut ids: Vec<usize> = (0..crate::world::N_KEYS).collect();
    rng.shuffle(&mut ids);
    let key = |i: usize| KeyRef { id: ids[i], form };
    let bx = |x: Frag| Box::new(x);
    let pk = |i: usize| Frag::Check(Box::new(Frag::PkK(key(i))));
    let hash = |rng: &mut Rng, i: usize| match rng.below(4) {
        0 => Frag::Sha256(i % crate::world::N_PRE),
        1 => Frag::Hash256(i % crate::world::N_PRE),
        2 => Frag::Ripemd160(i % crate::world::N_PRE),
        _ => Frag::Hash160(i % crate::world::N_PRE),
    };
    // one ladder in nine is a root `c:` over a compound K expression (a single CHECKSIG at the very
    // end of the script, conditions and key choice in front of it)
    if rng.chance(1, 9) {
        let cond = |rng: &mut Rng| match rng.below(4) {
            0 => Frag::Older(*rng.pick(&[1u32, 10, 144])),
            1 => Frag::After(*rng.pick(&[1u32, 144, 500_000_001])),
            _ => hash(rng, 1),
        };
        let kk = |i: usize| Frag::PkK(key(i));
        let inner = match rng.below(5) {
            0 => Frag::AndV(bx(Frag::Verify(bx(cond(rng)))), bx(kk(1))),
            1 => Frag::OrI(bx(Frag::AndV(bx(Frag::Verify(bx(cond(rng)))), bx(kk(1)))), bx(kk(2))),
            2 => Frag::AndOr(bx(pk(3)), bx(kk(1)), bx(Frag::AndV(bx(Frag::Verify(bx(cond(rng)))), bx(kk(2))))),
            3 => Frag::AndV(bx(Frag::Verify(bx(cond(rng)))), bx(Frag::PkH(key(1)))),
            _ => Frag::OrI(bx(kk(1)), bx(Frag::AndV(bx(Frag::Verify(bx(pk(2)))), bx(kk(3))))),
        };
        return Frag::Check(bx(inner));
    }
    // signature-free arm: and_v(v:h1, and_v(v:h2, ... last))
    let sigless = |rng: &mut Rng| -> Frag {
        let h = 1 + rng.below(4);
        let mut f = match rng.below(5) {
            0 => Frag::Older(*rng.pick(&[1u32, 2, 144])),
            1 => Frag::After(*rng.pick(&[1u32, 2, 144])),
            2 => Frag::True,
            3 => {
                // the same lock twice on the one path (the two have to be merged, not to conflict)
                let n = *rng.pick(&[1u32, 10, 144]);
                if rng.coin() {
                    Frag::AndV(Box::new(Frag::Verify(Box::new(Frag::Older(n)))), Box::new(Frag::Older(n)))
                } else {
                    Frag::AndV(Box::new(Frag::Verify(Box::new(Frag::After(n)))), Box::new(Frag::After(n)))
                }
            }
            _ => hash(rng, 3),
        };
        for i in 0..h {
            f = Frag::AndV(bx(Frag::Verify(bx(hash(rng, i)))), bx(f));
        }
        f
    };
    let sigarm = |rng: &mut Rng| -> Frag {
        match rng.below(4) {
            0 | 1 => pk(1),
            2 if cx != Cx::Tap => Frag::Multi(1 + rng.below(2), vec![key(1), key(2)]),
            2 => Frag::MultiA(1 + rng.below(2), vec![key(1), key(2)]),
            _ => Frag::AndV(bx(Frag::Verify(bx(pk(1)))), bx(pk(2))),
        }
    };
    // d+u versions: u:X = or_i(X,0), W versions through a:
    let du = |x: Frag| Frag::OrI(bx(x), bx(Frag::False));
    // two locks of the same kind and unit side by side: different values, the same value twice, and
    // a value whose meaningless high bits make it look larger than it is
    let lock_pair = |rng: &mut Rng| -> (Frag, Frag) {
        let vals: [(u32, u32); 8] = [(5, 10), (1, 144), ((1 << 22) | 2, (1 << 22) | 9), (3, 65_535), (10, 10), (10, 65_537), (144, 144), ((1 << 22) | 9, (1 << 22) | 9)];
        let (a, b) = *rng.pick(&vals);
        let (a, b) = if rng.coin() { (a, b) } else { (b, a) };
        match rng.below(3) {
            0 => (Frag::Older(a), Frag::Older(b)),
            1 => (Frag::After(a & 0xffff), Frag::After(b & 0xffff)),
            _ => (Frag::After(500_000_000 + (a & 0xffff)), Frag::After(500_000_000 + (b & 0xffff))),
        }
    };
    let lw = |x: Frag| Frag::Swap(Box::new(Frag::OrI(Box::new(Frag::False), Box::new(Frag::ZeroNotEqual(Box::new(x))))));
    // the lock families (8..=10) get a double share
    let pick = match rng.below(14) {
        11 => 8,
        12 => 9,
        13 => 10,
        x => x,
    };
    let choice = match pick {
        8 => {
            // thresh over keys and two different locks (k ranges over everything sensible)
            let (l1, l2) = lock_pair(rng);
            let xs = vec![pk(1), Frag::Swap(bx(pk(2))), lw(l1), lw(l2)];
            Frag::Thresh(1 + rng.below(4), xs)
        }
        9 => {
            let (l1, l2) = lock_pair(rng);
            match rng.below(3) {
                0 => Frag::OrI(bx(Frag::AndV(bx(Frag::Verify(bx(pk(1)))), bx(l1))), bx(Frag::AndV(bx(Frag::Verify(bx(pk(2)))), bx(l2)))),
                1 => Frag::AndV(bx(Frag::Verify(bx(l1))), bx(Frag::AndV(bx(Frag::Verify(bx(pk(1)))), bx(l2)))),
                _ => Frag::AndOr(bx(pk(1)), bx(l1), bx(Frag::AndV(bx(Frag::Verify(bx(pk(2)))), bx(l2)))),
            }
        }
        10 => {
            let (l1, l2) = lock_pair(rng);
            Frag::OrD(bx(pk(1)), bx(Frag::OrI(bx(Frag::AndV(bx(Frag::Verify(bx(pk(2)))), bx(l1))), bx(Frag::AndV(bx(Frag::Verify(bx(pk(3)))), bx(l2))))))
        }
        0 => {
            // the signature arm as plain key or behind j: (whose dissatisfaction is the empty element)
            let left = if rng.chance(1, 3) { Frag::NonZero(bx(Frag::AndV(bx(Frag::Verify(bx(pk(1)))), bx(pk(2))))) } else { pk(1) };
            Frag::OrD(bx(left), bx(sigless(rng)))
        }
        1 => Frag::OrI(bx(sigarm(rng)), bx(sigless(rng))),
        2 => Frag::OrI(bx(sigless(rng)), bx(sigarm(rng))),
        3 => {
            let first = if rng.chance(1, 3) { Frag::NonZero(bx(Frag::AndV(bx(Frag::Verify(bx(pk(1)))), bx(pk(3))))) } else { pk(1) };
            Frag::AndOr(bx(first), bx(pk(2)), bx(sigless(rng)))
        }
        4 => Frag::OrB(bx(pk(1)), bx(Frag::Alt(bx(du(sigless(rng)))))),
        5 => {
            let n_sig = 1 + rng.below(3);
            let mut xs = vec![pk(1)];
            for i in 1..n_sig {
                xs.push(Frag::Swap(bx(pk(1 + i))));
            }
            let n_free = 1 + rng.below(2);
            for _ in 0..n_free {
                xs.push(Frag::Alt(bx(du(sigless(rng)))));
            }
            let k = 1 + rng.below(xs.len().min(3));
            Frag::Thresh(k, xs)
        }
        6 => Frag::AndV(bx(Frag::OrC(bx(pk(1)), bx(Frag::Verify(bx(sigless(rng)))))), bx(Frag::True)),
        _ => Frag::OrD(bx(du(sigless(rng))), bx(sigarm(rng))),
    };
    if rng.chance(1, 5) {
        choice
    } else {
        Frag::AndV(bx(Frag::Verify(bx(pk(0)))), bx(choice))
    }
}

/// One-call helper: a fresh fragment of base type `want` in context `cx`.
pub fn generate(rng: &mut Rng, cfg: GenCfg, want: Base) -> Frag {
    let budget = {
        let m = cfg.max_nodes.max(1);
        1 + rng.below(m)
    };
    let mut g = Gen::new(rng, cfg);
    g.gen(want, budget)
}

// --------------------------------------------------------------------------
// A small, independent parser of the miniscript text syntax into `Frag`
// (used for corpora and for validating the specification model against the
// Alloy-derived vectors of src/miniscript/ms_tests.rs).

pub struct ParseCtx {
    pub key_names: Vec<String>,
    pub hash_names: Vec<String>,
    pub default_form: KeyForm,
}

impl ParseCtx {
    pub fn new(default_form: KeyForm) -> Self {
        ParseCtx { key_names: vec![], hash_names: vec![], default_form }
    }
    fn key(&mut self, name: &str) -> KeyRef {
        let id = match self.key_names.iter().position(|k| k == name) {
            Some(i) => i,
            None => {
                self.key_names.push(name.to_string());
                self.key_names.len() - 1
            }
        };
        KeyRef { id, form: self.default_form }
    }
    fn hash(&mut self, name: &str) -> usize {
        match self.hash_names.iter().position(|k| k == name) {
            Some(i) => i,
            None => {
                self.hash_names.push(name.to_string());
                self.hash_names.len() - 1
            }
        }
    }
}

/// Split "name(args...)" at top-level commas.
fn split_args(s: &str) -> Result<Vec<&str>, String> {
    let mut out = vec![];
    let mut depth = 0i32;
    let mut start = 0;
    for (i, c) in s.char_indices() {
        match c {
            '(' => depth += 1,
            ')' => {
                depth -= 1;
                if depth < 0 {
                    return Err("unbalanced )".into());
                }
            }
            ',' if depth == 0 => {
                out.push(&s[start..i]);
                start = i + 1;
            }
            _ => {}
        }
    }
    if depth != 0 {
        return Err("unbalanced (".into());
    }
    out.push(&s[start..]);
    Ok(out)
}

pub fn parse_frag(s: &str, pc: &mut ParseCtx) -> Result<Frag, String> {
    let s = s.trim();
    // wrappers: prefix up to ':' that has no '(' before it
    if let Some(colon) = s.find(':') {
        let paren = s.find('(').unwrap_or(usize::MAX);
        if colon < paren {
            let (w, rest) = (&s[..colon], &s[colon + 1..]);
            if w.is_empty() {
                return Err("empty wrapper".into());
            }
            let mut f = parse_frag(rest, pc)?;
            for ch in w.chars().rev() {
                let b = Box::new(f);
                f = match ch {
                    'a' => Frag::Alt(b),
                    's' => Frag::Swap(b),
                    'c' => Frag::Check(b),
                    'd' => Frag::DupIf(b),
                    'v' => Frag::Verify(b),
                    'j' => Frag::NonZero(b),
                    'n' => Frag::ZeroNotEqual(b),
                    't' => Frag::AndV(b, Box::new(Frag::True)),
                    'u' => Frag::OrI(b, Box::new(Frag::False)),
                    'l' => Frag::OrI(Box::new(Frag::False), b),
                    x => return Err(format!("unknown wrapper {}", x)),
                };
            }
            return Ok(f);
        }
    }
    if s == "0" {
        return Ok(Frag::False);
    }
    if s == "1" {
        return Ok(Frag::True);
    }
    let open = s.find('(').ok_or_else(|| format!("no ( in {}", s))?;
    if !s.ends_with(')') {
        return Err("no closing )".into());
    }
    let name = &s[..open];
    let inner = &s[open + 1..s.len() - 1];
    let args = split_args(inner)?;
    let bx = |f: Frag| Box::new(f);
    let num = |a: &str| a.trim().parse::<u32>().map_err(|_| format!("bad number {}", a));
    let two = |pc: &mut ParseCtx| -> Result<(Frag, Frag), String> {
        if args.len() != 2 {
            return Err(format!("{} needs 2 args", name));
        }
        Ok((parse_frag(args[0], pc)?, parse_frag(args[1], pc)?))
    };
    Ok(match name {
        "pk_k" => Frag::PkK(pc.key(inner)),
        "pk_h" => Frag::PkH(pc.key(inner)),
        "pk" => Frag::Check(bx(Frag::PkK(pc.key(inner)))),
        "pkh" => Frag::Check(bx(Frag::PkH(pc.key(inner)))),
        "after" => Frag::After(num(inner)?),
        "older" => Frag::Older(num(inner)?),
        "sha256" => Frag::Sha256(pc.hash(inner)),
        "hash256" => Frag::Hash256(pc.hash(inner)),
        "ripemd160" => Frag::Ripemd160(pc.hash(inner)),
        "hash160" => Frag::Hash160(pc.hash(inner)),
        "and_v" => {
            let (a, b) = two(pc)?;
            Frag::AndV(bx(a), bx(b))
        }
        "and_b" => {
            let (a, b) = two(pc)?;
            Frag::AndB(bx(a), bx(b))
        }
        "and_n" => {
            let (a, b) = two(pc)?;
            Frag::AndOr(bx(a), bx(b), bx(Frag::False))
        }
        "or_b" => {
            let (a, b) = two(pc)?;
            Frag::OrB(bx(a), bx(b))
        }
        "or_c" => {
            let (a, b) = two(pc)?;
            Frag::OrC(bx(a), bx(b))
        }
        "or_d" => {
            let (a, b) = two(pc)?;
            Frag::OrD(bx(a), bx(b))
        }
        "or_i" => {
            let (a, b) = two(pc)?;
            Frag::OrI(bx(a), bx(b))
        }
        "andor" => {
            if args.len() != 3 {
                return Err("andor needs 3 args".into());
            }
            Frag::AndOr(
                bx(parse_frag(args[0], pc)?),
                bx(parse_frag(args[1], pc)?),
                bx(parse_frag(args[2], pc)?),
            )
        }
        "thresh" => {
            if args.len() < 2 {
                return Err("thresh needs k and children".into());
            }
            let k = num(args[0])? as usize;
            let mut xs = vec![];
            for a in &args[1..] {
                xs.push(parse_frag(a, pc)?);
            }
            Frag::Thresh(k, xs)
        }
        "multi" | "sortedmulti" | "multi_a" | "sortedmulti_a" => {
            if args.len() < 2 {
                return Err("multi needs k and keys".into());
            }
            let k = num(args[0])? as usize;
            let ks: Vec<KeyRef> = args[1..].iter().map(|a| pc.key(a.trim())).collect();
            match name {
                "multi" => Frag::Multi(k, ks),
                "sortedmulti" => Frag::SortedMulti(k, ks),
                "multi_a" => Frag::MultiA(k, ks),
                _ => Frag::SortedMultiA(k, ks),
            }
        }
        x => return Err(format!("unknown fragment {}", x)),
    })
}

// --------------------------------------------------------------------------
// Structural mutations (for pairs that differ "only in one thing").

impl Frag {
    fn children_mut(&mut self) -> Vec<&mut Frag> {
        match self {
            Frag::Alt(x)
            | Frag::Swap(x)
            | Frag::Check(x)
            | Frag::DupIf(x)
            | Frag::Verify(x)
            | Frag::NonZero(x)
            | Frag::ZeroNotEqual(x) => vec![x],
            Frag::AndV(a, b)
            | Frag::AndB(a, b)
            | Frag::OrB(a, b)
            | Frag::OrC(a, b)
            | Frag::OrD(a, b)
            | Frag::OrI(a, b) => vec![a, b],
            Frag::AndOr(a, b, c) => vec![a, b, c],
            Frag::Thresh(_, xs) => xs.iter_mut().collect(),
            _ => vec![],
        }
    }

    /// Apply `f` to the `idx`-th node in pre-order.
    pub fn with_node_mut(&mut self, idx: &mut usize, f: &mut dyn FnMut(&mut Frag)) -> bool {
        if *idx == 0 {
            f(self);
            return true;
        }
        *idx -= 1;
        for c in self.children_mut() {
            if c.with_node_mut(idx, f) {
                return true;
            }
        }
        false
    }
}

/// One small structural edit of a random node. Returns a description, or None if
/// nothing applicable was found.
pub fn mutate_frag(rng: &mut Rng, f: &mut Frag, fresh_key: KeyRef) -> Option<&'static str> {
    let n = f.n_nodes();
    for _ in 0..12 {
        let mut idx = rng.below(n);
        let mut what: Option<&'static str> = None;
        let choice = rng.below(8);
        let r1 = rng.next_u64();
        f.with_node_mut(&mut idx, &mut |node| {
            what = match node {
                Frag::Thresh(_, xs) if choice >= 4 && matches!(xs.first(), Some(Frag::Thresh(..))) => {
                    // move a child across the boundary of a nested threshold: the pre-order
                    // sequence of nodes stays the same, only the arities change
                    let moved = if choice % 2 == 0 && xs.len() > 1 {
                        let c = xs.remove(1);
                        if let Frag::Thresh(_, ys) = &mut xs[0] {
                            ys.push(c);
                        }
                        true
                    } else if let Frag::Thresh(k2, ys) = &mut xs[0] {
                        if ys.len() > 1 && *k2 < ys.len() {
                            let c = ys.pop().unwrap();
                            xs.insert(1, c);
                            true
                        } else {
                            false
                        }
                    } else {
                        false
                    };
                    if moved {
                        Some("child moved across nested thresh boundary")
                    } else {
                        None
                    }
                }
                Frag::Thresh(k, xs) => match choice {
                    0 if *k < xs.len() => {
                        *k += 1;
                        Some("thresh k+1")
                    }
                    1 if *k > 1 => {
                        *k -= 1;
                        Some("thresh k-1")
                    }
                    2 => {
                        xs.push(Frag::Alt(Box::new(Frag::Check(Box::new(Frag::PkK(fresh_key))))));
                        Some("thresh +child")
                    }
                    3 if xs.len() > 1 && *k < xs.len() => {
                        xs.pop();
                        Some("thresh -child")
                    }
                    _ => None,
                },
                Frag::Multi(k, ks) | Frag::SortedMulti(k, ks) | Frag::MultiA(k, ks) | Frag::SortedMultiA(k, ks) => {
                    match choice {
                        0 if *k < ks.len() => {
                            *k += 1;
                            Some("multi k+1")
                        }
                        1 if *k > 1 => {
                            *k -= 1;
                            Some("multi k-1")
                        }
                        2 => {
                            ks.push(fresh_key);
                            Some("multi +key")
                        }
                        3 if ks.len() > 1 && *k < ks.len() => {
                            ks.pop();
                            Some("multi -key")
                        }
                        4 if ks.len() > 1 => {
                            let l = ks.len();
                            ks.swap(0, l - 1);
                            Some("multi swap keys")
                        }
                        _ => None,
                    }
                }
                Frag::PkK(k) | Frag::PkH(k) if choice < 3 => {
                    *k = fresh_key;
                    Some("key changed")
                }
                Frag::After(t) if choice < 4 => {
                    *t = if *t > 1 { *t - 1 } else { *t + 1 };
                    Some("after changed")
                }
                Frag::Older(t) if choice < 4 => {
                    *t = if *t & 0xffff > 1 { *t - 1 } else { *t + 1 };
                    Some("older changed")
                }
                Frag::Sha256(i) | Frag::Hash256(i) | Frag::Ripemd160(i) | Frag::Hash160(i) if choice < 4 => {
                    *i += 1;
                    Some("hash changed")
                }
                Frag::AndB(a, b) | Frag::OrB(a, b) | Frag::OrI(a, b) | Frag::AndV(a, b) | Frag::OrD(a, b)
                    if choice == 5 =>
                {
                    std::mem::swap(a, b);
                    Some("children swapped")
                }
                Frag::AndOr(_, b, c) if choice == 4 || choice == 5 => {
                    // the else branches of two nested andor nodes trade places (the and_n sugar moves
                    // from one to the other; the other nodes keep their pre-order sequence)
                    if let Frag::AndOr(_, _, c2) = &mut **b {
                        std::mem::swap(c, c2);
                        Some("andor else-branches traded between outer and inner")
                    } else {
                        std::mem::swap(b, c);
                        Some("andor branches swapped")
                    }
                }
                Frag::OrI(a, b) if choice == 6 => {
                    // sugar re-spelling candidates: or_i(X,0) <-> or_i(0,X)
                    if **b == Frag::False || **a == Frag::False {
                        std::mem::swap(a, b);
                        Some("l:/u: swapped")
                    } else {
                        None
                    }
                }
                Frag::True if choice == 7 => {
                    *node = Frag::False;
                    Some("1 -> 0")
                }
                Frag::False if choice == 7 => {
                    *node = Frag::True;
                    Some("0 -> 1")
                }
                _ => {
                    let _ = r1;
                    None
                }
            };
        });
        if what.is_some() {
            return what;
        }
    }
    None
}

// --------------------------------------------------------------------------
// Sugared spelling (pk, pkh, t:, l:, u:, and_n) of the same tree.

impl Frag {
    fn sugar_wrapper(&self) -> Option<(char, &Frag)> {
        match self {
            Frag::Check(x) if matches!(**x, Frag::PkK(_) | Frag::PkH(_)) => None,
            Frag::Alt(x) => Some(('a', x)),
            Frag::Swap(x) => Some(('s', x)),
            Frag::Check(x) => Some(('c', x)),
            Frag::DupIf(x) => Some(('d', x)),
            Frag::Verify(x) => Some(('v', x)),
            Frag::NonZero(x) => Some(('j', x)),
            Frag::ZeroNotEqual(x) => Some(('n', x)),
            Frag::AndV(x, t) if **t == Frag::True => Some(('t', x)),
            Frag::OrI(z, x) if **z == Frag::False => Some(('l', x)),
            Frag::OrI(x, z) if **z == Frag::False => Some(('u', x)),
            _ => None,
        }
    }

    pub fn to_string_sugared(&self, nm: &dyn Names) -> String {
        let mut s = String::new();
        self.fmt_sugar(nm, &mut s);
        s
    }

    fn fmt_sugar(&self, nm: &dyn Names, s: &mut String) {
        if let Some((ch, x)) = self.sugar_wrapper() {
            s.push(ch);
            if x.sugar_wrapper().is_none() {
                s.push(':');
            }
            x.fmt_sugar(nm, s);
            return;
        }
        match self {
            Frag::Check(x) => match &**x {
                Frag::PkK(k) => s.push_str(&format!("pk({})", nm.key(k))),
                Frag::PkH(k) => s.push_str(&format!("pkh({})", nm.key(k))),
                _ => unreachable!(),
            },
            Frag::AndOr(a, b, c) if **c == Frag::False => {
                s.push_str("and_n(");
                a.fmt_sugar(nm, s);
                s.push(',');
                b.fmt_sugar(nm, s);
                s.push(')');
            }
            Frag::AndV(a, b)
            | Frag::AndB(a, b)
            | Frag::OrB(a, b)
            | Frag::OrC(a, b)
            | Frag::OrD(a, b)
            | Frag::OrI(a, b) => {
                s.push_str(self.name());
                s.push('(');
                a.fmt_sugar(nm, s);
                s.push(',');
                b.fmt_sugar(nm, s);
                s.push(')');
            }
            Frag::AndOr(a, b, c) => {
                s.push_str("andor(");
                a.fmt_sugar(nm, s);
                s.push(',');
                b.fmt_sugar(nm, s);
                s.push(',');
                c.fmt_sugar(nm, s);
                s.push(')');
            }
            Frag::Thresh(k, xs) => {
                s.push_str(&format!("thresh({}", k));
                for x in xs {
                    s.push(',');
                    x.fmt_sugar(nm, s);
                }
                s.push(')');
            }
            other => other.fmt_into(nm, s),
        }
    }
}

// --------------------------------------------------------------------------
// Specification-side lift of a fragment to a policy (Miniscript spec, "policy
// to miniscript" read backwards): wrappers are transparent.

use crate::pol::{Atom, Pol};

impl Frag {
    pub fn to_pol(&self) -> Pol {
        match self {
            Frag::False => Pol::Unsat,
            Frag::True => Pol::Trivial,
            Frag::PkK(k) | Frag::PkH(k) => Pol::Atom(Atom::Key(k.id)),
            Frag::After(n) => Pol::Atom(Atom::After(*n)),
            Frag::Older(n) => Pol::Atom(Atom::Older(*n)),
            Frag::Sha256(i) => Pol::Atom(Atom::Sha256(*i)),
            Frag::Hash256(i) => Pol::Atom(Atom::Hash256(*i)),
            Frag::Ripemd160(i) => Pol::Atom(Atom::Ripemd160(*i)),
            Frag::Hash160(i) => Pol::Atom(Atom::Hash160(*i)),
            Frag::Alt(x)
            | Frag::Swap(x)
            | Frag::Check(x)
            | Frag::DupIf(x)
            | Frag::Verify(x)
            | Frag::NonZero(x)
            | Frag::ZeroNotEqual(x) => x.to_pol(),
            Frag::AndV(a, b) | Frag::AndB(a, b) => Pol::And(vec![a.to_pol(), b.to_pol()]),
            Frag::OrB(a, b) | Frag::OrC(a, b) | Frag::OrD(a, b) | Frag::OrI(a, b) => {
                Pol::Or(vec![(1, a.to_pol()), (1, b.to_pol())])
            }
            Frag::AndOr(a, b, c) => {
                Pol::Or(vec![(1, Pol::And(vec![a.to_pol(), b.to_pol()])), (1, c.to_pol())])
            }
            Frag::Thresh(k, xs) => Pol::Thresh(*k, xs.iter().map(|x| x.to_pol()).collect()),
            Frag::Multi(k, ks) | Frag::SortedMulti(k, ks) | Frag::MultiA(k, ks) | Frag::SortedMultiA(k, ks) => {
                Pol::Thresh(*k, ks.iter().map(|k| Pol::Atom(Atom::Key(k.id))).collect())
            }
        }
    }

    /// Is there any satisfaction at all (structurally)?
    pub fn satisfiable(&self) -> bool {
        match self {
            Frag::False => false,
            Frag::Alt(x)
            | Frag::Swap(x)
            | Frag::Check(x)
            | Frag::DupIf(x)
            | Frag::Verify(x)
            | Frag::NonZero(x)
            | Frag::ZeroNotEqual(x) => x.satisfiable(),
            Frag::AndV(a, b) | Frag::AndB(a, b) => a.satisfiable() && b.satisfiable(),
            Frag::OrB(a, b) | Frag::OrC(a, b) | Frag::OrD(a, b) | Frag::OrI(a, b) => {
                a.satisfiable() || b.satisfiable()
            }
            Frag::AndOr(a, b, c) => (a.satisfiable() && b.satisfiable()) || c.satisfiable(),
            Frag::Thresh(k, xs) => xs.iter().filter(|x| x.satisfiable()).count() >= *k,
            _ => true,
        }
    }

    pub fn height(&self) -> usize {
        self.children().iter().map(|c| 1 + c.height()).max().unwrap_or(0)
    }

    pub fn any(&self, p: &dyn Fn(&Frag) -> bool) -> bool {
        let mut found = false;
        self.walk(&mut |n| {
            if p(n) {
                found = true
            }
        });
        found
    }
}
