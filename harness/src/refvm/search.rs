//! Lazy witness search: ground truth for "does a witness exist over this
//! alphabet". Depth-first over the forks requested by the machine.
//!
//! Completeness argument (assumption recorded in every evidence file that uses
//! the search): every opcode of the supported set inspects an input element
//! only through emptiness / truthiness / minimal-bool form / byte size / hash
//! equality with a constant / signature validity against a given key / key-hash
//! equality / numeric value of results. The alphabet holds one representative
//! of each class that can be distinguished that way for the script at hand, so
//! a witness over arbitrary bytes exists iff one over the alphabet exists.
//! Soundness does not rest on that argument: every witness the search returns
//! is re-executed concretely by the caller.

use std::rc::Rc;

use super::script::Op;
use super::vm::*;

#[derive(Clone, Debug, PartialEq, Eq)]
pub enum Tag {
    Sig,
    Key,
    Preimage,
    Other,
}

#[derive(Clone, Debug, Default)]
pub struct Alphabet {
    pub items: Vec<(Rc<Vec<u8>>, Tag)>,
}

impl Alphabet {
    pub fn new() -> Self { Alphabet { items: vec![] } }
    pub fn add(&mut self, v: Vec<u8>, tag: Tag) {
        if !self.items.iter().any(|(x, _)| **x == v) {
            self.items.push((Rc::new(v), tag));
        }
    }
    /// The constants every alphabet contains.
    pub fn with_basics(include_two: bool) -> Self {
        let mut a = Alphabet::new();
        a.add(vec![], Tag::Other);
        a.add(vec![1], Tag::Other);
        if include_two {
            a.add(vec![2], Tag::Other);
        }
        a.add(vec![0; 32], Tag::Other);
        a
    }
    pub fn len(&self) -> usize { self.items.len() }
    pub fn is_empty(&self) -> bool { self.items.is_empty() }
}

#[derive(Clone, Copy, Debug, PartialEq, Eq)]
pub enum Finish {
    /// witness-style: exactly one element, true
    ExactlyOneTrue,
    /// legacy consensus: non-empty, top true
    TopTrue,
    /// do not judge: report the raw final machine
    Raw,
}

#[derive(Clone, Debug)]
pub struct SearchCfg {
    /// budget in VM steps over all paths
    pub max_steps: usize,
    /// witness length cap
    pub max_vars: usize,
    /// stop after this many successes
    pub max_results: usize,
}

impl SearchCfg {
    pub fn quick() -> Self { SearchCfg { max_steps: 200_000, max_vars: 40, max_results: 64 } }
}

#[derive(Clone, Debug)]
pub struct Found {
    /// witness stack, bottom first (as it would appear in a witness / scriptSig)
    pub stack: Vec<Vec<u8>>,
    pub trace: Trace,
}

#[derive(Clone, Debug, Default)]
pub struct SearchResult {
    pub found: Vec<Found>,
    /// budget was hit before the tree was exhausted: absence of results is inconclusive
    pub exhausted_budget: bool,
    pub steps: usize,
    pub paths: usize,
    pub unsupported: bool,
}

pub struct Terminal<'m> {
    pub machine: &'m Machine,
    pub result: Result<(), Fail>,
}

fn minimalif_active(env: &Env) -> bool {
    match env.sigversion {
        SigVersion::Tapscript => true,
        SigVersion::WitnessV0 => env.flags.minimalif,
        SigVersion::Base => false,
    }
}

fn candidates(m: &Machine, var: usize, role: &Role, env: &Env, alpha: &Alphabet) -> Vec<Rc<Vec<u8>>> {
    let shared = m.var_refs(var) > 1;
    let mut out: Vec<Rc<Vec<u8>>> = Vec::new();
    let mut push = |v: Rc<Vec<u8>>| {
        if !out.iter().any(|x| **x == *v) {
            out.push(v);
        }
    };
    let full = |push: &mut dyn FnMut(Rc<Vec<u8>>)| {
        for (v, _) in &alpha.items {
            push(v.clone());
        }
    };
    match role {
        Role::Bool => {
            push(Rc::new(vec![]));
            push(Rc::new(vec![1]));
            if !minimalif_active(env) {
                push(Rc::new(vec![2]));
                if shared {
                    full(&mut push);
                }
            }
        }
        Role::Sig(_) => {
            push(Rc::new(vec![]));
            if shared {
                full(&mut push);
            } else {
                for (v, t) in &alpha.items {
                    if *t == Tag::Sig {
                        push(v.clone());
                    }
                }
                if !env.flags.nullfail {
                    // a non-empty invalid signature is distinguishable without NULLFAIL:
                    // any DER-looking sig from the alphabet that does not match serves.
                    // (already included: all sigs)
                }
            }
        }
        Role::Any => full(&mut push),
    }
    out
}

/// Explore all executions of `ops` from a symbolic stack (`initial` concrete
/// elements on top of lazily created variables).
pub fn explore<F: FnMut(Terminal)>(
    ops: Rc<Vec<Op>>,
    initial: Vec<Vec<u8>>,
    env: &Env,
    alpha: &Alphabet,
    cfg: &SearchCfg,
    finish: Finish,
    sigops_budget: i64,
    mut on_terminal: F,
) -> SearchResult {
    let mut res = SearchResult::default();
    let mut root = Machine::new(ops, initial, true, cfg.max_vars);
    root.sigops_budget = sigops_budget;
    let mut work = vec![root];
    'outer: while let Some(mut m) = work.pop() {
        loop {
            if res.steps > cfg.max_steps {
                res.exhausted_budget = true;
                break 'outer;
            }
            if m.finished() {
                res.paths += 1;
                if !m.cond.is_empty() {
                    on_terminal(Terminal {
                        machine: &m,
                        result: Err(Fail::Abort("unbalanced conditional")),
                    });
                    break;
                }
                if finish == Finish::Raw {
                    on_terminal(Terminal { machine: &m, result: Ok(()) });
                    break;
                }
                // final truth value
                if m.stack.is_empty() {
                    on_terminal(Terminal {
                        machine: &m,
                        result: Err(Fail::ScriptFalse("empty stack at end")),
                    });
                    break;
                }
                if finish == Finish::ExactlyOneTrue && m.stack.len() != 1 {
                    on_terminal(Terminal {
                        machine: &m,
                        result: Err(Fail::ScriptFalse("stack not clean at end")),
                    });
                    break;
                }
                let top = m.stack.last().unwrap().clone();
                match m.resolve(&top) {
                    Some(b) => {
                        let r = if super::script::cast_to_bool(&b) {
                            Ok(())
                        } else {
                            Err(Fail::ScriptFalse("false at end"))
                        };
                        if r.is_ok() {
                            res.found.push(Found { stack: witness_of(&m), trace: m.trace.clone() });
                        }
                        on_terminal(Terminal { machine: &m, result: r });
                        if res.found.len() >= cfg.max_results {
                            break 'outer;
                        }
                    }
                    None => {
                        if let Elem::V(var) = top {
                            for c in candidates(&m, var, &Role::Any, env, alpha) {
                                let mut n = m.clone();
                                n.bind(var, c);
                                work.push(n);
                            }
                        }
                    }
                }
                break;
            }
            res.steps += 1;
            match m.step(env) {
                Ok(()) => {}
                Err(Stop::Fail(f)) => {
                    res.paths += 1;
                    if f.is_unsupported() {
                        res.unsupported = true;
                    }
                    on_terminal(Terminal { machine: &m, result: Err(f) });
                    break;
                }
                Err(Stop::Fork { var, role }) => {
                    let cands = candidates(&m, var, &role, env, alpha);
                    // push in reverse so that the first candidate is explored first
                    for c in cands.into_iter().rev() {
                        let mut n = m.clone();
                        n.bind(var, c);
                        work.push(n);
                    }
                    break;
                }
            }
        }
    }
    res
}

/// The witness stack (bottom first) a machine's variable bindings stand for.
pub fn witness_of(m: &Machine) -> Vec<Vec<u8>> {
    m.bindings
        .iter()
        .rev()
        .map(|b| match b {
            Some(v) => (**v).clone(),
            None => vec![],
        })
        .collect()
}

/// Convenience: search for successful witnesses only.
pub fn search(
    ops: Rc<Vec<Op>>,
    env: &Env,
    alpha: &Alphabet,
    cfg: &SearchCfg,
    finish: Finish,
    sigops_budget: i64,
) -> SearchResult {
    explore(ops, vec![], env, alpha, cfg, finish, sigops_budget, |_| {})
}
