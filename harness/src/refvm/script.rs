//! Byte-level Script parser of the reference VM. Written from the Bitcoin
//! Script format, not from rust-miniscript's lexer.

pub const OP_0: u8 = 0x00;
pub const OP_PUSHDATA1: u8 = 0x4c;
pub const OP_PUSHDATA2: u8 = 0x4d;
pub const OP_PUSHDATA4: u8 = 0x4e;
pub const OP_1NEGATE: u8 = 0x4f;
pub const OP_1: u8 = 0x51;
pub const OP_16: u8 = 0x60;
pub const OP_NOP: u8 = 0x61;
pub const OP_IF: u8 = 0x63;
pub const OP_NOTIF: u8 = 0x64;
pub const OP_ELSE: u8 = 0x67;
pub const OP_ENDIF: u8 = 0x68;
pub const OP_VERIFY: u8 = 0x69;
pub const OP_RETURN: u8 = 0x6a;
pub const OP_TOALTSTACK: u8 = 0x6b;
pub const OP_FROMALTSTACK: u8 = 0x6c;
pub const OP_2DROP: u8 = 0x6d;
pub const OP_IFDUP: u8 = 0x73;
pub const OP_DROP: u8 = 0x75;
pub const OP_DUP: u8 = 0x76;
pub const OP_SWAP: u8 = 0x7c;
pub const OP_SIZE: u8 = 0x82;
pub const OP_EQUAL: u8 = 0x87;
pub const OP_EQUALVERIFY: u8 = 0x88;
pub const OP_NOT: u8 = 0x91;
pub const OP_0NOTEQUAL: u8 = 0x92;
pub const OP_ADD: u8 = 0x93;
pub const OP_BOOLAND: u8 = 0x9a;
pub const OP_BOOLOR: u8 = 0x9b;
pub const OP_NUMEQUAL: u8 = 0x9c;
pub const OP_NUMEQUALVERIFY: u8 = 0x9d;
pub const OP_RIPEMD160: u8 = 0xa6;
pub const OP_SHA256: u8 = 0xa8;
pub const OP_HASH160: u8 = 0xa9;
pub const OP_HASH256: u8 = 0xaa;
pub const OP_CHECKSIG: u8 = 0xac;
pub const OP_CHECKSIGVERIFY: u8 = 0xad;
pub const OP_CHECKMULTISIG: u8 = 0xae;
pub const OP_CHECKMULTISIGVERIFY: u8 = 0xaf;
pub const OP_CLTV: u8 = 0xb1;
pub const OP_CSV: u8 = 0xb2;
pub const OP_CHECKSIGADD: u8 = 0xba;

#[derive(Clone, Debug, PartialEq, Eq)]
pub enum Op {
    /// A data push (OP_0, direct pushes, PUSHDATA1/2/4, OP_1NEGATE, OP_1..OP_16).
    Push { data: Vec<u8>, minimal: bool, opcode: u8 },
    /// Any other opcode.
    Code(u8),
}

#[derive(Clone, Debug, PartialEq, Eq)]
pub enum ParseError {
    Truncated,
}

fn push_is_minimal(opcode: u8, data: &[u8]) -> bool {
    if data.is_empty() {
        return opcode == OP_0;
    }
    if data.len() == 1 && (1..=16).contains(&data[0]) {
        return false; // must have used OP_1..OP_16
    }
    if data.len() == 1 && data[0] == 0x81 {
        return false; // must have used OP_1NEGATE
    }
    if data.len() <= 75 {
        return opcode as usize == data.len();
    }
    if data.len() <= 255 {
        return opcode == OP_PUSHDATA1;
    }
    if data.len() <= 65535 {
        return opcode == OP_PUSHDATA2;
    }
    true
}

/// Parse a script completely. Truncated pushes are an error (consensus: the
/// script fails when the bad opcode is reached; for our purposes any script
/// with a truncated push is invalid).
pub fn parse(script: &[u8]) -> Result<Vec<Op>, ParseError> {
    let mut ops = Vec::new();
    let mut i = 0usize;
    while i < script.len() {
        let opcode = script[i];
        i += 1;
        match opcode {
            0x00 => ops.push(Op::Push { data: vec![], minimal: true, opcode }),
            0x01..=0x4b => {
                let n = opcode as usize;
                if i + n > script.len() {
                    return Err(ParseError::Truncated);
                }
                let data = script[i..i + n].to_vec();
                i += n;
                let minimal = push_is_minimal(opcode, &data);
                ops.push(Op::Push { data, minimal, opcode });
            }
            OP_PUSHDATA1 | OP_PUSHDATA2 | OP_PUSHDATA4 => {
                let w = match opcode {
                    OP_PUSHDATA1 => 1,
                    OP_PUSHDATA2 => 2,
                    _ => 4,
                };
                if i + w > script.len() {
                    return Err(ParseError::Truncated);
                }
                let mut n = 0usize;
                for k in 0..w {
                    n |= (script[i + k] as usize) << (8 * k);
                }
                i += w;
                if n > script.len() || i + n > script.len() {
                    return Err(ParseError::Truncated);
                }
                let data = script[i..i + n].to_vec();
                i += n;
                let minimal = push_is_minimal(opcode, &data);
                ops.push(Op::Push { data, minimal, opcode });
            }
            OP_1NEGATE => ops.push(Op::Push { data: vec![0x81], minimal: true, opcode }),
            OP_1..=OP_16 => {
                ops.push(Op::Push { data: vec![opcode - OP_1 + 1], minimal: true, opcode })
            }
            _ => ops.push(Op::Code(opcode)),
        }
    }
    Ok(ops)
}

/// Minimal push encoding of `data` (what a standard scriptSig must use).
pub fn push_minimal(out: &mut Vec<u8>, data: &[u8]) {
    if data.is_empty() {
        out.push(OP_0);
    } else if data.len() == 1 && (1..=16).contains(&data[0]) {
        out.push(OP_1 + data[0] - 1);
    } else if data.len() == 1 && data[0] == 0x81 {
        out.push(OP_1NEGATE);
    } else if data.len() <= 75 {
        out.push(data.len() as u8);
        out.extend_from_slice(data);
    } else if data.len() <= 255 {
        out.push(OP_PUSHDATA1);
        out.push(data.len() as u8);
        out.extend_from_slice(data);
    } else {
        out.push(OP_PUSHDATA2);
        out.push((data.len() & 0xff) as u8);
        out.push((data.len() >> 8) as u8);
        out.extend_from_slice(data);
    }
}

/// Script number decoding (CScriptNum). `max_len` is 4 except for CLTV/CSV (5).
pub fn num_decode(v: &[u8], require_minimal: bool, max_len: usize) -> Result<i64, &'static str> {
    if v.len() > max_len {
        return Err("script number overflow");
    }
    if require_minimal && !v.is_empty() {
        let last = v[v.len() - 1];
        if last & 0x7f == 0 && (v.len() <= 1 || v[v.len() - 2] & 0x80 == 0) {
            return Err("non-minimally encoded script number");
        }
    }
    if v.is_empty() {
        return Ok(0);
    }
    let mut r: i64 = 0;
    for (i, b) in v.iter().enumerate() {
        r |= (*b as i64) << (8 * i);
    }
    let last = v[v.len() - 1];
    if last & 0x80 != 0 {
        r &= !(0x80i64 << (8 * (v.len() - 1)));
        r = -r;
    }
    Ok(r)
}

pub fn num_encode(n: i64) -> Vec<u8> {
    if n == 0 {
        return vec![];
    }
    let neg = n < 0;
    let mut abs = n.unsigned_abs();
    let mut v = Vec::new();
    while abs > 0 {
        v.push((abs & 0xff) as u8);
        abs >>= 8;
    }
    if v[v.len() - 1] & 0x80 != 0 {
        v.push(if neg { 0x80 } else { 0 });
    } else if neg {
        let l = v.len() - 1;
        v[l] |= 0x80;
    }
    v
}

pub fn cast_to_bool(v: &[u8]) -> bool {
    for (i, b) in v.iter().enumerate() {
        if *b != 0 {
            // negative zero
            return !(i == v.len() - 1 && *b == 0x80);
        }
    }
    false
}
