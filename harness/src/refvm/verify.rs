//! Full input verification (Bitcoin Core's VerifyScript) on top of the machine:
//! bare / P2PK / P2PKH / P2SH / P2WPKH / P2WSH / nested / P2TR key and script path.

use std::rc::Rc;

use miniscript::bitcoin;

use bitcoin::hashes::{hash160, sha256, Hash};
use bitcoin::secp256k1::{self, Secp256k1};
use bitcoin::taproot::TapLeafHash;

use super::script::*;
use super::vm::*;
use crate::oracle::bip341;

#[derive(Clone, Debug, PartialEq, Eq)]
pub enum SpendKind {
    Bare,
    P2sh,
    P2wpkh,
    P2wsh,
    P2shP2wpkh,
    P2shP2wsh,
    TrKey,
    TrScript,
}

#[derive(Clone, Debug)]
pub struct Verified {
    pub kind: SpendKind,
    /// trace of the "interesting" script (redeem / witness / leaf script, or spk for bare)
    pub trace: Trace,
    /// number of elements that were on the stack when that script started
    pub initial_stack: usize,
    /// the script that was executed last (redeem / witness / leaf / spk)
    pub script: Vec<u8>,
}

fn run_concrete(
    script: &[u8],
    stack: Vec<Vec<u8>>,
    env: &Env,
    sigops_budget: i64,
) -> Result<(Vec<Vec<u8>>, Trace), Fail> {
    if env.sigversion != SigVersion::Tapscript && script.len() > MAX_SCRIPT {
        return Err(Fail::Limit("script size"));
    }
    let ops = parse(script).map_err(|_| Fail::Abort("truncated push"))?;
    let mut m = Machine::new(Rc::new(ops), stack, false, 0);
    m.sigops_budget = sigops_budget;
    match run_to_end(&mut m, env) {
        Ok(()) => {}
        Err(Stop::Fail(f)) => return Err(f),
        Err(Stop::Fork { .. }) => return Err(Fail::Abort("unbound variable in concrete run")),
    }
    let out = m
        .stack
        .iter()
        .map(|e| match e {
            Elem::B(b) => (**b).clone(),
            Elem::V(_) => vec![],
        })
        .collect();
    Ok((out, m.trace))
}

fn is_push_only(ops: &[Op]) -> bool { ops.iter().all(|o| matches!(o, Op::Push { .. })) }

fn witness_program(spk: &[u8]) -> Option<(u8, &[u8])> {
    if spk.len() < 4 || spk.len() > 42 {
        return None;
    }
    let v = spk[0];
    if v != 0 && !(OP_1..=OP_16).contains(&v) {
        return None;
    }
    if spk[1] as usize + 2 == spk.len() && (2..=40).contains(&spk[1]) {
        let ver = if v == 0 { 0 } else { v - OP_1 + 1 };
        return Some((ver, &spk[2..]));
    }
    None
}

fn is_p2sh(spk: &[u8]) -> bool {
    spk.len() == 23 && spk[0] == OP_HASH160 && spk[1] == 0x14 && spk[22] == OP_EQUAL
}

pub fn p2pkh_script(h: &[u8]) -> Vec<u8> {
    let mut s = vec![OP_DUP, OP_HASH160, 0x14];
    s.extend_from_slice(h);
    s.push(OP_EQUALVERIFY);
    s.push(OP_CHECKSIG);
    s
}

pub fn witness_serialized_size(w: &[Vec<u8>]) -> usize {
    let mut n = bip341::compact_size(w.len()).len();
    for e in w {
        n += bip341::compact_size(e.len()).len() + e.len();
    }
    n
}

/// Verify input `txc.idx` of `txc.tx`.
pub fn verify_input(
    spk: &[u8],
    script_sig: &[u8],
    witness: &[Vec<u8>],
    txc: &TxCtx,
    flags: Flags,
    secp: &Secp256k1<secp256k1::All>,
) -> Result<Verified, Fail> {
    let sig_ops = parse(script_sig).map_err(|_| Fail::Abort("truncated push in scriptSig"))?;
    if flags.sigpushonly && !is_push_only(&sig_ops) {
        return Err(Fail::Encoding("scriptSig not push-only"));
    }
    if flags.policy_limits && script_sig.len() > 1650 {
        return Err(Fail::Limit("scriptSig size (policy)"));
    }

    // native witness programs
    if let Some((ver, prog)) = witness_program(spk) {
        if !script_sig.is_empty() {
            return Err(Fail::Program("scriptSig not empty for native witness program"));
        }
        return verify_witness_program(ver, prog, witness, txc, flags, secp, false);
    }

    // run scriptSig
    let env_sig = Env::new(txc, SigVersion::Base, flags, script_sig.to_vec(), None, secp);
    let (stack, _) = run_concrete(script_sig, vec![], &env_sig, i64::MAX)?;
    let stack_copy = stack.clone();

    // run scriptPubKey
    let env_spk = Env::new(txc, SigVersion::Base, flags, spk.to_vec(), None, secp);
    let n_initial = stack.len();
    let (stack, trace_spk) = run_concrete(spk, stack, &env_spk, i64::MAX)?;
    if stack.is_empty() || !cast_to_bool(stack.last().unwrap()) {
        return Err(Fail::ScriptFalse("scriptPubKey evaluated false"));
    }

    if is_p2sh(spk) {
        if !is_push_only(&sig_ops) {
            return Err(Fail::Encoding("P2SH scriptSig not push-only"));
        }
        let mut stack = stack_copy;
        let redeem = match stack.pop() {
            Some(r) => r,
            None => return Err(Fail::Abort("empty P2SH stack")),
        };
        if hash160::Hash::hash(&redeem).to_byte_array()[..] != spk[2..22] {
            return Err(Fail::Program("redeem script hash mismatch"));
        }
        if let Some((ver, prog)) = witness_program(&redeem) {
            // scriptSig must be exactly one push of the redeem script
            let mut expect = vec![];
            push_minimal(&mut expect, &redeem);
            if script_sig != &expect[..] {
                return Err(Fail::Program("malleated P2SH-witness scriptSig"));
            }
            return verify_witness_program(ver, prog, witness, txc, flags, secp, true);
        }
        if !witness.is_empty() {
            return Err(Fail::Program("unexpected witness"));
        }
        let env = Env::new(txc, SigVersion::Base, flags, redeem.clone(), None, secp);
        let n_initial = stack.len();
        let (out, trace) = run_concrete(&redeem, stack, &env, i64::MAX)?;
        if out.is_empty() || !cast_to_bool(out.last().unwrap()) {
            return Err(Fail::ScriptFalse("redeem script evaluated false"));
        }
        if flags.cleanstack && out.len() != 1 {
            return Err(Fail::ScriptFalse("stack not clean (CLEANSTACK)"));
        }
        return Ok(Verified { kind: SpendKind::P2sh, trace, initial_stack: n_initial, script: redeem });
    }

    if !witness.is_empty() {
        return Err(Fail::Program("unexpected witness"));
    }
    if flags.cleanstack && stack.len() != 1 {
        return Err(Fail::ScriptFalse("stack not clean (CLEANSTACK)"));
    }
    Ok(Verified {
        kind: SpendKind::Bare,
        trace: trace_spk,
        initial_stack: n_initial,
        script: spk.to_vec(),
    })
}

fn verify_witness_program(
    ver: u8,
    prog: &[u8],
    witness: &[Vec<u8>],
    txc: &TxCtx,
    flags: Flags,
    secp: &Secp256k1<secp256k1::All>,
    nested: bool,
) -> Result<Verified, Fail> {
    if ver == 0 {
        if prog.len() == 32 {
            if witness.is_empty() {
                return Err(Fail::Program("empty witness for P2WSH"));
            }
            let script = witness[witness.len() - 1].clone();
            let stack: Vec<Vec<u8>> = witness[..witness.len() - 1].to_vec();
            if sha256::Hash::hash(&script).to_byte_array()[..] != prog[..] {
                return Err(Fail::Program("witness script hash mismatch"));
            }
            if flags.policy_limits {
                if script.len() > 3600 {
                    return Err(Fail::Limit("P2WSH script size (policy)"));
                }
                if stack.len() > 100 {
                    return Err(Fail::Limit("P2WSH stack items (policy)"));
                }
                if stack.iter().any(|e| e.len() > 80) {
                    return Err(Fail::Limit("P2WSH stack item size (policy)"));
                }
            }
            if stack.iter().any(|e| e.len() > MAX_ELEM) {
                return Err(Fail::Limit("witness element size"));
            }
            let env = Env::new(txc, SigVersion::WitnessV0, flags, script.clone(), None, secp);
            let n_initial = stack.len();
            let (out, trace) = run_concrete(&script, stack, &env, i64::MAX)?;
            if out.len() != 1 {
                return Err(Fail::ScriptFalse("witness stack not clean"));
            }
            if !cast_to_bool(&out[0]) {
                return Err(Fail::ScriptFalse("witness script evaluated false"));
            }
            let kind = if nested { SpendKind::P2shP2wsh } else { SpendKind::P2wsh };
            return Ok(Verified { kind, trace, initial_stack: n_initial, script });
        } else if prog.len() == 20 {
            if witness.len() != 2 {
                return Err(Fail::Program("P2WPKH witness must have 2 items"));
            }
            let script = p2pkh_script(prog);
            let env = Env::new(txc, SigVersion::WitnessV0, flags, script.clone(), None, secp);
            let (out, trace) = run_concrete(&script, witness.to_vec(), &env, i64::MAX)?;
            if out.len() != 1 || !cast_to_bool(&out[0]) {
                return Err(Fail::ScriptFalse("P2WPKH evaluated false"));
            }
            let kind = if nested { SpendKind::P2shP2wpkh } else { SpendKind::P2wpkh };
            return Ok(Verified { kind, trace, initial_stack: 2, script });
        } else {
            return Err(Fail::Program("wrong v0 program length"));
        }
    }
    if ver == 1 && prog.len() == 32 && !nested {
        if witness.is_empty() {
            return Err(Fail::Program("empty taproot witness"));
        }
        let mut w: Vec<Vec<u8>> = witness.to_vec();
        if w.len() >= 2 && !w[w.len() - 1].is_empty() && w[w.len() - 1][0] == 0x50 {
            return Err(Fail::Unsupported("annex"));
        }
        if w.len() == 1 {
            let ok = verify_schnorr(secp, txc, &w[0], prog, None)?;
            if !ok {
                return Err(Fail::Signature("invalid key-path signature"));
            }
            let mut trace = Trace::default();
            trace.sig_checks.push((prog.to_vec(), w[0].clone(), true));
            return Ok(Verified { kind: SpendKind::TrKey, trace, initial_stack: 1, script: vec![] });
        }
        let control = w.pop().unwrap();
        let script = w.pop().unwrap();
        let lh = bip341::verify_control_block(secp, prog, &control, &script)
            .map_err(Fail::Program)?;
        if control[0] & 0xfe != 0xc0 {
            return Err(Fail::Unsupported("unknown leaf version"));
        }
        // OP_SUCCESSx: any such opcode makes the script succeed; outside the model
        if let Ok(ops) = parse(&script) {
            for o in &ops {
                if let Op::Code(c) = o {
                    if is_op_success(*c) {
                        return Err(Fail::Unsupported("OP_SUCCESS"));
                    }
                }
            }
        } else {
            return Err(Fail::Abort("truncated push in tapscript"));
        }
        if w.len() > MAX_STACK {
            return Err(Fail::Limit("stack size"));
        }
        if w.iter().any(|e| e.len() > MAX_ELEM) {
            return Err(Fail::Limit("witness element size"));
        }
        if flags.policy_limits && w.iter().any(|e| e.len() > 80) {
            return Err(Fail::Limit("tapscript stack item size (policy)"));
        }
        let budget = 50 + witness_serialized_size(witness) as i64;
        let env = Env::new(
            txc,
            SigVersion::Tapscript,
            flags,
            vec![],
            Some(TapLeafHash::from_byte_array(lh)),
            secp,
        );
        let n_initial = w.len();
        let (out, trace) = run_concrete(&script, w, &env, budget)?;
        if out.len() != 1 {
            return Err(Fail::ScriptFalse("tapscript stack not clean"));
        }
        if !cast_to_bool(&out[0]) {
            return Err(Fail::ScriptFalse("tapscript evaluated false"));
        }
        return Ok(Verified { kind: SpendKind::TrScript, trace, initial_stack: n_initial, script });
    }
    Err(Fail::Unsupported("unknown witness version / program"))
}

fn is_op_success(c: u8) -> bool {
    c == 80
        || c == 98
        || (126..=129).contains(&c)
        || (131..=134).contains(&c)
        || (137..=138).contains(&c)
        || (141..=142).contains(&c)
        || (149..=153).contains(&c)
        || (187..=254).contains(&c)
}
