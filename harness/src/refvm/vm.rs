//! The reference Script machine. Supports concrete execution and *lazy symbolic*
//! execution: stack elements may be unbound variables that stand for witness
//! elements; an opcode that needs to inspect an unbound variable interrupts the
//! step with `Stop::Fork`, and the search driver (search.rs) binds the variable
//! to each candidate and resumes. Opcodes never mutate the machine before all
//! their operands have been resolved, so a step can always be restarted.

use std::cell::RefCell;
use std::collections::HashMap;
use std::rc::Rc;

use miniscript::bitcoin;

use bitcoin::hashes::{hash160, ripemd160, sha256, sha256d, Hash};
use bitcoin::secp256k1::{self, ecdsa, schnorr, Message, Secp256k1, XOnlyPublicKey};
use bitcoin::sighash::{EcdsaSighashType, Prevouts, SighashCache, TapSighashType};
use bitcoin::taproot::TapLeafHash;
use bitcoin::{Script, Transaction, TxOut};

use super::script::*;

#[derive(Clone, Copy, Debug, PartialEq, Eq)]
pub enum SigVersion {
    Base,
    WitnessV0,
    Tapscript,
}

#[derive(Clone, Copy, Debug, PartialEq, Eq)]
pub struct Flags {
    pub strictenc: bool,
    pub low_s: bool,
    pub sigpushonly: bool,
    pub minimaldata: bool,
    pub cleanstack: bool,
    pub minimalif: bool,
    pub nullfail: bool,
    pub nulldummy: bool,
    pub witness_pubkeytype: bool,
    pub discourage_upgradable_pubkeytype: bool,
    /// Standardness policy limits on the input (P2WSH 100 items / 80 bytes /
    /// 3600-byte script, tapscript 80-byte items, scriptSig 1650 bytes).
    pub policy_limits: bool,
}

impl Flags {
    /// Consensus rules with all soft forks active (P2SH, DERSIG, CLTV, CSV,
    /// WITNESS, NULLDUMMY, TAPROOT).
    pub const CONSENSUS: Flags = Flags {
        strictenc: false,
        low_s: false,
        sigpushonly: false,
        minimaldata: false,
        cleanstack: false,
        minimalif: false,
        nullfail: false,
        nulldummy: true,
        witness_pubkeytype: false,
        discourage_upgradable_pubkeytype: false,
        policy_limits: false,
    };
    /// Bitcoin Core's STANDARD_SCRIPT_VERIFY_FLAGS (the ones that matter to the
    /// opcode set we support) plus per-input policy limits.
    pub const STANDARD: Flags = Flags {
        strictenc: true,
        low_s: true,
        sigpushonly: true,
        minimaldata: true,
        cleanstack: true,
        minimalif: true,
        nullfail: true,
        nulldummy: true,
        witness_pubkeytype: true,
        discourage_upgradable_pubkeytype: true,
        policy_limits: true,
    };
}

/// Why an execution failed. The category matters to the monitors.
#[derive(Clone, Debug, PartialEq, Eq)]
pub enum Fail {
    /// script ended with false / empty stack, or VERIFY-type opcode failed
    ScriptFalse(&'static str),
    /// structural failure (underflow, unbalanced conditional, bad number...)
    Abort(&'static str),
    /// signature or public key encoding/validity rule
    Signature(&'static str),
    /// a resource limit (ops, stack, element size, script size, sigops budget, policy limits)
    Limit(&'static str),
    /// push/number/if-argument encoding rule (MINIMALDATA, MINIMALIF, NULLDUMMY...)
    Encoding(&'static str),
    /// lock time rule
    Locktime(&'static str),
    /// template mismatch (hash mismatch, wrong witness program...)
    Program(&'static str),
    /// construct outside the model: never a verdict
    Unsupported(&'static str),
}

impl Fail {
    pub fn category(&self) -> &'static str {
        match self {
            Fail::ScriptFalse(_) => "script-false",
            Fail::Abort(_) => "abort",
            Fail::Signature(_) => "signature",
            Fail::Limit(_) => "limit",
            Fail::Encoding(_) => "encoding",
            Fail::Locktime(_) => "locktime",
            Fail::Program(_) => "program",
            Fail::Unsupported(_) => "unsupported",
        }
    }
    pub fn detail(&self) -> &'static str {
        match self {
            Fail::ScriptFalse(s)
            | Fail::Abort(s)
            | Fail::Signature(s)
            | Fail::Limit(s)
            | Fail::Encoding(s)
            | Fail::Locktime(s)
            | Fail::Program(s)
            | Fail::Unsupported(s) => s,
        }
    }
    pub fn is_unsupported(&self) -> bool { matches!(self, Fail::Unsupported(_)) }
}

#[derive(Clone, Debug, PartialEq, Eq, Hash)]
pub enum HashKind {
    Sha256,
    Hash256,
    Ripemd160,
    Hash160,
}

/// What one execution did.
#[derive(Clone, Debug, Default)]
pub struct Trace {
    /// non-push opcodes counted the way Bitcoin Core counts them (+ multisig keys)
    pub op_count: usize,
    /// max of (stack + altstack) over the run
    pub max_stack: usize,
    /// (pubkey bytes, signature bytes, verified?)
    pub sig_checks: Vec<(Vec<u8>, Vec<u8>, bool)>,
    /// (kind, preimage, digest)
    pub hash_ops: Vec<(HashKind, Vec<u8>, Vec<u8>)>,
    /// indices into hash_ops whose digest was then compared equal by EQUAL / EQUALVERIFY
    pub hash_matched: Vec<usize>,
    pub cltv: Vec<i64>,
    pub csv: Vec<i64>,
    /// Number of opcodes executed (including pushes) - a step counter.
    pub steps: usize,
}

/// Transaction context for signature and lock-time checks.
pub struct TxCtx<'a> {
    pub tx: &'a Transaction,
    pub idx: usize,
    pub prevouts: &'a [TxOut],
}

/// Everything an execution needs besides the machine state.
pub struct Env<'a> {
    pub txc: &'a TxCtx<'a>,
    pub sigversion: SigVersion,
    pub flags: Flags,
    /// script code for Base / WitnessV0 sighash
    pub script_code: Vec<u8>,
    /// leaf hash for Tapscript
    pub leaf_hash: Option<TapLeafHash>,
    /// memo: (sig, key) -> verification outcome
    pub sig_memo: RefCell<HashMap<(Vec<u8>, Vec<u8>), Result<bool, Fail>>>,
    pub secp: &'a Secp256k1<secp256k1::All>,
}

/// Bitcoin Core's IsValidSignatureEncoding (strict DER + 1 sighash byte).
pub fn is_valid_signature_encoding(sig: &[u8]) -> bool {
    if sig.len() < 9 || sig.len() > 73 {
        return false;
    }
    if sig[0] != 0x30 {
        return false;
    }
    if sig[1] as usize != sig.len() - 3 {
        return false;
    }
    let len_r = sig[3] as usize;
    if 5 + len_r >= sig.len() {
        return false;
    }
    let len_s = sig[5 + len_r] as usize;
    if len_r + len_s + 7 != sig.len() {
        return false;
    }
    if sig[2] != 0x02 {
        return false;
    }
    if len_r == 0 {
        return false;
    }
    if sig[4] & 0x80 != 0 {
        return false;
    }
    if len_r > 1 && sig[4] == 0 && sig[5] & 0x80 == 0 {
        return false;
    }
    if sig[len_r + 4] != 0x02 {
        return false;
    }
    if len_s == 0 {
        return false;
    }
    if sig[len_r + 6] & 0x80 != 0 {
        return false;
    }
    if len_s > 1 && sig[len_r + 6] == 0 && sig[len_r + 7] & 0x80 == 0 {
        return false;
    }
    true
}

fn is_compressed_or_uncompressed_pubkey(k: &[u8]) -> bool {
    match k.len() {
        33 => k[0] == 2 || k[0] == 3,
        65 => k[0] == 4,
        _ => false,
    }
}

impl<'a> Env<'a> {
    pub fn new(
        txc: &'a TxCtx<'a>,
        sigversion: SigVersion,
        flags: Flags,
        script_code: Vec<u8>,
        leaf_hash: Option<TapLeafHash>,
        secp: &'a Secp256k1<secp256k1::All>,
    ) -> Self {
        Env {
            txc,
            sigversion,
            flags,
            script_code,
            leaf_hash,
            sig_memo: RefCell::new(HashMap::new()),
            secp,
        }
    }

    /// Pure check: does `sig` verify for `key` in this environment? Encoding
    /// failures that abort the script are `Err`.
    pub fn check_sig(&self, sig: &[u8], key: &[u8]) -> Result<bool, Fail> {
        let k = (sig.to_vec(), key.to_vec());
        if let Some(r) = self.sig_memo.borrow().get(&k) {
            return r.clone();
        }
        let r = match self.sigversion {
            SigVersion::Base | SigVersion::WitnessV0 => self.check_ecdsa(sig, key),
            SigVersion::Tapscript => self.check_schnorr_tapscript(sig, key),
        };
        self.sig_memo.borrow_mut().insert(k, r.clone());
        r
    }

    fn check_ecdsa(&self, sig: &[u8], key: &[u8]) -> Result<bool, Fail> {
        // CheckSignatureEncoding (DERSIG is consensus)
        if !sig.is_empty() {
            if !is_valid_signature_encoding(sig) {
                return Err(Fail::Signature("non-DER signature"));
            }
            let hashtype = sig[sig.len() - 1];
            if self.flags.low_s {
                let s = ecdsa::Signature::from_der(&sig[..sig.len() - 1])
                    .map_err(|_| Fail::Signature("non-DER signature (parse)"))?;
                let mut n = s;
                n.normalize_s();
                if n != s {
                    return Err(Fail::Signature("high-S signature"));
                }
            }
            let base = hashtype & !0x80;
            if !(1..=3).contains(&base) {
                if self.flags.strictenc {
                    return Err(Fail::Signature("undefined hashtype"));
                }
                return Err(Fail::Unsupported("non-standard sighash type"));
            }
        }
        // CheckPubKeyEncoding
        if self.flags.strictenc && !is_compressed_or_uncompressed_pubkey(key) {
            return Err(Fail::Signature("pubkey type (STRICTENC)"));
        }
        if self.flags.witness_pubkeytype
            && self.sigversion == SigVersion::WitnessV0
            && !(key.len() == 33 && (key[0] == 2 || key[0] == 3))
        {
            return Err(Fail::Signature("witness pubkey not compressed"));
        }
        let ok = if sig.is_empty() {
            false
        } else {
            self.verify_ecdsa_raw(sig, key)?
        };
        if !ok && self.flags.nullfail && !sig.is_empty() {
            return Err(Fail::Signature("NULLFAIL"));
        }
        Ok(ok)
    }

    fn verify_ecdsa_raw(&self, sig: &[u8], key: &[u8]) -> Result<bool, Fail> {
        let pk = match secp256k1::PublicKey::from_slice(key) {
            Ok(pk) => pk,
            Err(_) => return Ok(false),
        };
        let hashtype = sig[sig.len() - 1];
        let mut s = match ecdsa::Signature::from_der(&sig[..sig.len() - 1]) {
            Ok(s) => s,
            Err(_) => return Ok(false),
        };
        s.normalize_s();
        let cache = SighashCache::new(self.txc.tx);
        let sc = Script::from_bytes(&self.script_code);
        let digest: [u8; 32] = match self.sigversion {
            SigVersion::Base => {
                if hashtype & 0x1f == 3 && self.txc.idx >= self.txc.tx.output.len() {
                    return Err(Fail::Unsupported("SIGHASH_SINGLE bug"));
                }
                match cache.legacy_signature_hash(self.txc.idx, sc, hashtype as u32) {
                    Ok(h) => h.to_byte_array(),
                    Err(_) => return Err(Fail::Unsupported("legacy sighash error")),
                }
            }
            SigVersion::WitnessV0 => {
                let ty = EcdsaSighashType::from_consensus(hashtype as u32);
                let value = self.txc.prevouts[self.txc.idx].value;
                let mut cache = cache;
                match cache.p2wsh_signature_hash(self.txc.idx, sc, value, ty) {
                    Ok(h) => h.to_byte_array(),
                    Err(_) => return Err(Fail::Unsupported("segwit sighash error")),
                }
            }
            SigVersion::Tapscript => unreachable!(),
        };
        let msg = Message::from_digest(digest);
        Ok(self.secp.verify_ecdsa(&msg, &s, &pk).is_ok())
    }

    /// BIP-342 signature rule. Ok(true) = valid sig, Ok(false) = empty sig,
    /// Err = script must fail.
    fn check_schnorr_tapscript(&self, sig: &[u8], key: &[u8]) -> Result<bool, Fail> {
        if key.is_empty() {
            return Err(Fail::Signature("empty pubkey in tapscript"));
        }
        if key.len() != 32 {
            if self.flags.discourage_upgradable_pubkeytype {
                return Err(Fail::Signature("upgradable pubkey type"));
            }
            // unknown key type: signature check is skipped, non-empty sig counts as success
            return Ok(!sig.is_empty());
        }
        if sig.is_empty() {
            return Ok(false);
        }
        let leaf_hash = self.leaf_hash.ok_or(Fail::Abort("no leaf hash"))?;
        match verify_schnorr(self.secp, self.txc, sig, key, Some(leaf_hash)) {
            Ok(true) => Ok(true),
            Ok(false) => Err(Fail::Signature("invalid schnorr signature")),
            Err(e) => Err(e),
        }
    }
}

/// Verify a BIP-340 signature with BIP-341 sighash (key path if `leaf` is None).
pub fn verify_schnorr(
    secp: &Secp256k1<secp256k1::All>,
    txc: &TxCtx,
    sig: &[u8],
    key: &[u8],
    leaf: Option<TapLeafHash>,
) -> Result<bool, Fail> {
    let (sigbytes, ty) = match sig.len() {
        64 => (&sig[..64], TapSighashType::Default),
        65 => {
            if sig[64] == 0 {
                return Err(Fail::Signature("explicit SIGHASH_DEFAULT byte"));
            }
            match TapSighashType::from_consensus_u8(sig[64]) {
                Ok(t) => (&sig[..64], t),
                Err(_) => return Err(Fail::Signature("invalid taproot hashtype")),
            }
        }
        _ => return Err(Fail::Signature("schnorr signature size")),
    };
    let xonly = match XOnlyPublicKey::from_slice(key) {
        Ok(k) => k,
        Err(_) => return Ok(false),
    };
    let s = match schnorr::Signature::from_slice(sigbytes) {
        Ok(s) => s,
        Err(_) => return Ok(false),
    };
    let mut cache = SighashCache::new(txc.tx);
    let prevouts = Prevouts::All(txc.prevouts);
    let digest: [u8; 32] = match leaf {
        Some(lh) => match cache.taproot_script_spend_signature_hash(txc.idx, &prevouts, lh, ty) {
            Ok(h) => h.to_byte_array(),
            Err(_) => return Err(Fail::Signature("taproot sighash error")),
        },
        None => match cache.taproot_key_spend_signature_hash(txc.idx, &prevouts, ty) {
            Ok(h) => h.to_byte_array(),
            Err(_) => return Err(Fail::Signature("taproot sighash error")),
        },
    };
    let msg = Message::from_digest(digest);
    Ok(secp.verify_schnorr(&s, &msg, &xonly).is_ok())
}

/// A stack element: concrete bytes or witness variable.
#[derive(Clone, Debug)]
pub enum Elem {
    B(Rc<Vec<u8>>),
    V(usize),
}

/// Why the machine wants a variable bound.
#[derive(Clone, Debug, PartialEq, Eq)]
pub enum Role {
    /// argument of IF/NOTIF
    Bool,
    /// signature checked against this key
    Sig(Vec<u8>),
    /// anything else (size, hash, equality, number, key, final truth value)
    Any,
}

#[derive(Clone, Debug)]
pub enum Stop {
    Fork { var: usize, role: Role },
    Fail(Fail),
}

impl From<Fail> for Stop {
    fn from(f: Fail) -> Self { Stop::Fail(f) }
}

pub const MAX_STACK: usize = 1000;
pub const MAX_ELEM: usize = 520;
pub const MAX_OPS: usize = 201;
pub const MAX_SCRIPT: usize = 10_000;

#[derive(Clone)]
pub struct Machine {
    pub ops: Rc<Vec<Op>>,
    pub pc: usize,
    pub stack: Vec<Elem>,
    pub alt: Vec<Elem>,
    pub cond: Vec<bool>,
    /// variable table; var i is the i-th witness element counted from the top
    pub bindings: Vec<Option<Rc<Vec<u8>>>>,
    pub lazy: bool,
    pub max_vars: usize,
    pub trace: Trace,
    pub sigops_budget: i64,
}

fn rc(v: Vec<u8>) -> Elem { Elem::B(Rc::new(v)) }

impl Machine {
    pub fn new(ops: Rc<Vec<Op>>, initial: Vec<Vec<u8>>, lazy: bool, max_vars: usize) -> Self {
        Machine {
            ops,
            pc: 0,
            stack: initial.into_iter().map(rc).collect(),
            alt: vec![],
            cond: vec![],
            bindings: vec![],
            lazy,
            max_vars,
            trace: Trace::default(),
            sigops_budget: i64::MAX,
        }
    }

    pub fn executing(&self) -> bool { self.cond.iter().all(|b| *b) }

    pub fn finished(&self) -> bool { self.pc >= self.ops.len() }

    pub fn bind(&mut self, var: usize, val: Rc<Vec<u8>>) { self.bindings[var] = Some(val); }

    /// How many live references (stack + altstack) a variable has.
    pub fn var_refs(&self, var: usize) -> usize {
        self.stack
            .iter()
            .chain(self.alt.iter())
            .filter(|e| matches!(e, Elem::V(v) if *v == var))
            .count()
    }

    /// Ensure the stack has at least n elements, creating variables at the
    /// bottom in lazy mode.
    fn need(&mut self, n: usize) -> Result<(), Stop> {
        while self.stack.len() < n {
            if !self.lazy {
                return Err(Stop::Fail(Fail::Abort("stack underflow")));
            }
            if self.bindings.len() >= self.max_vars {
                return Err(Stop::Fail(Fail::Limit("search witness length cap")));
            }
            let id = self.bindings.len();
            self.bindings.push(None);
            self.stack.insert(0, Elem::V(id));
        }
        Ok(())
    }

    /// Value of the element `depth` below the top (0 = top). Needs `need()` first.
    fn val(&self, depth: usize, role: Role) -> Result<Rc<Vec<u8>>, Stop> {
        match &self.stack[self.stack.len() - 1 - depth] {
            Elem::B(b) => Ok(b.clone()),
            Elem::V(id) => match &self.bindings[*id] {
                Some(b) => Ok(b.clone()),
                None => Err(Stop::Fork { var: *id, role }),
            },
        }
    }

    pub fn resolve(&self, e: &Elem) -> Option<Rc<Vec<u8>>> {
        match e {
            Elem::B(b) => Some(b.clone()),
            Elem::V(id) => self.bindings[*id].clone(),
        }
    }

    fn popn(&mut self, n: usize) {
        let l = self.stack.len();
        self.stack.truncate(l - n);
    }

    fn push_bool(&mut self, b: bool) { self.stack.push(rc(if b { vec![1] } else { vec![] })); }

    fn num(&self, depth: usize, env: &Env, max_len: usize) -> Result<i64, Stop> {
        let v = self.val(depth, Role::Any)?;
        num_decode(&v, env.flags.minimaldata, max_len)
            .map_err(|e| Stop::Fail(Fail::Encoding(e)))
    }

    /// Execute one opcode. On `Err(Stop::Fork)` the machine is unchanged
    /// (except possibly for new bottom variables, which is harmless).
    pub fn step(&mut self, env: &Env) -> Result<(), Stop> {
        let op = self.ops[self.pc].clone();
        let exec = self.executing();
        let counted = env.sigversion != SigVersion::Tapscript;
        match &op {
            Op::Push { data, minimal, .. } => {
                if data.len() > MAX_ELEM {
                    return Err(Fail::Limit("push size").into());
                }
                if exec {
                    if env.flags.minimaldata && !*minimal {
                        return Err(Fail::Encoding("non-minimal push").into());
                    }
                    self.stack.push(rc(data.clone()));
                }
            }
            Op::Code(c) => {
                let c = *c;
                // opcode count (Core counts every opcode > OP_16, executed or not)
                if counted {
                    if self.trace.op_count + 1 > MAX_OPS {
                        return Err(Fail::Limit("op count").into());
                    }
                }
                // Disabled opcodes fail even when not executed; none are in our set.
                match c {
                    OP_IF | OP_NOTIF => {
                        let mut v = false;
                        if exec {
                            self.need(1)?;
                            let b = self.val(0, Role::Bool)?;
                            let minimalif = match env.sigversion {
                                SigVersion::Tapscript => true,
                                SigVersion::WitnessV0 => env.flags.minimalif,
                                SigVersion::Base => false,
                            };
                            if minimalif && !(b.is_empty() || (b.len() == 1 && b[0] == 1)) {
                                return Err(Fail::Encoding("MINIMALIF").into());
                            }
                            v = cast_to_bool(&b);
                            if c == OP_NOTIF {
                                v = !v;
                            }
                            self.popn(1);
                        }
                        self.cond.push(v);
                    }
                    OP_ELSE => {
                        match self.cond.last_mut() {
                            None => return Err(Fail::Abort("ELSE without IF").into()),
                            Some(b) => *b = !*b,
                        }
                    }
                    OP_ENDIF => {
                        if self.cond.pop().is_none() {
                            return Err(Fail::Abort("ENDIF without IF").into());
                        }
                    }
                    _ if !exec => {
                        // not executed; only known opcodes are tolerated
                        if !is_known(c) {
                            return Err(Fail::Unsupported("opcode outside the model").into());
                        }
                    }
                    OP_NOP => {}
                    OP_VERIFY => {
                        self.need(1)?;
                        let b = self.val(0, Role::Any)?;
                        if !cast_to_bool(&b) {
                            return Err(Fail::ScriptFalse("VERIFY").into());
                        }
                        self.popn(1);
                    }
                    OP_RETURN => return Err(Fail::ScriptFalse("OP_RETURN").into()),
                    OP_TOALTSTACK => {
                        self.need(1)?;
                        let e = self.stack.pop().unwrap();
                        self.alt.push(e);
                    }
                    OP_FROMALTSTACK => match self.alt.pop() {
                        None => return Err(Fail::Abort("altstack underflow").into()),
                        Some(e) => self.stack.push(e),
                    },
                    OP_2DROP => {
                        self.need(2)?;
                        self.popn(2);
                    }
                    OP_DROP => {
                        self.need(1)?;
                        self.popn(1);
                    }
                    OP_IFDUP => {
                        self.need(1)?;
                        let b = self.val(0, Role::Any)?;
                        if cast_to_bool(&b) {
                            let e = self.stack.last().unwrap().clone();
                            self.stack.push(e);
                        }
                    }
                    OP_DUP => {
                        self.need(1)?;
                        let e = self.stack.last().unwrap().clone();
                        self.stack.push(e);
                    }
                    OP_SWAP => {
                        self.need(2)?;
                        let l = self.stack.len();
                        self.stack.swap(l - 1, l - 2);
                    }
                    OP_SIZE => {
                        self.need(1)?;
                        let b = self.val(0, Role::Any)?;
                        self.stack.push(rc(num_encode(b.len() as i64)));
                    }
                    OP_EQUAL | OP_EQUALVERIFY => {
                        self.need(2)?;
                        let a = self.val(1, Role::Any)?;
                        let b = self.val(0, Role::Any)?;
                        let eq = a == b;
                        if eq {
                            if let Some(last) = self.trace.hash_ops.len().checked_sub(1) {
                                if self.trace.hash_ops[last].2 == *a
                                    && !self.trace.hash_matched.contains(&last)
                                {
                                    self.trace.hash_matched.push(last);
                                }
                            }
                        }
                        if c == OP_EQUALVERIFY && !eq {
                            return Err(Fail::ScriptFalse("EQUALVERIFY").into());
                        }
                        self.popn(2);
                        if c == OP_EQUAL {
                            self.push_bool(eq);
                        }
                    }
                    OP_NOT | OP_0NOTEQUAL => {
                        self.need(1)?;
                        let n = self.num(0, env, 4)?;
                        self.popn(1);
                        let r = if c == OP_NOT { (n == 0) as i64 } else { (n != 0) as i64 };
                        self.stack.push(rc(num_encode(r)));
                    }
                    OP_ADD | OP_BOOLAND | OP_BOOLOR | OP_NUMEQUAL | OP_NUMEQUALVERIFY => {
                        self.need(2)?;
                        let a = self.num(1, env, 4)?;
                        let b = self.num(0, env, 4)?;
                        let r = match c {
                            OP_ADD => a + b,
                            OP_BOOLAND => (a != 0 && b != 0) as i64,
                            OP_BOOLOR => (a != 0 || b != 0) as i64,
                            _ => (a == b) as i64,
                        };
                        if c == OP_NUMEQUALVERIFY && r == 0 {
                            return Err(Fail::ScriptFalse("NUMEQUALVERIFY").into());
                        }
                        self.popn(2);
                        if c != OP_NUMEQUALVERIFY {
                            self.stack.push(rc(num_encode(r)));
                        }
                    }
                    OP_RIPEMD160 | OP_SHA256 | OP_HASH160 | OP_HASH256 => {
                        self.need(1)?;
                        let b = self.val(0, Role::Any)?;
                        let (kind, out) = match c {
                            OP_RIPEMD160 => (
                                HashKind::Ripemd160,
                                ripemd160::Hash::hash(&b).to_byte_array().to_vec(),
                            ),
                            OP_SHA256 => {
                                (HashKind::Sha256, sha256::Hash::hash(&b).to_byte_array().to_vec())
                            }
                            OP_HASH160 => {
                                (HashKind::Hash160, hash160::Hash::hash(&b).to_byte_array().to_vec())
                            }
                            _ => {
                                (HashKind::Hash256, sha256d::Hash::hash(&b).to_byte_array().to_vec())
                            }
                        };
                        self.trace.hash_ops.push((kind, b.to_vec(), out.clone()));
                        self.popn(1);
                        self.stack.push(rc(out));
                    }
                    OP_CHECKSIG | OP_CHECKSIGVERIFY => {
                        self.need(2)?;
                        let key = self.val(0, Role::Any)?;
                        let sig = self.val(1, Role::Sig(key.to_vec()))?;
                        let ok = env.check_sig(&sig, &key).map_err(Stop::Fail)?;
                        if env.sigversion == SigVersion::Tapscript && !sig.is_empty() {
                            if self.sigops_budget < 50 {
                                return Err(Fail::Limit("tapscript sigops budget").into());
                            }
                            self.sigops_budget -= 50;
                        }
                        if c == OP_CHECKSIGVERIFY && !ok {
                            return Err(Fail::ScriptFalse("CHECKSIGVERIFY").into());
                        }
                        self.trace.sig_checks.push((key.to_vec(), sig.to_vec(), ok));
                        self.popn(2);
                        if c == OP_CHECKSIG {
                            self.push_bool(ok);
                        }
                    }
                    OP_CHECKSIGADD => {
                        if env.sigversion != SigVersion::Tapscript {
                            return Err(Fail::Abort("CHECKSIGADD outside tapscript").into());
                        }
                        self.need(3)?;
                        let key = self.val(0, Role::Any)?;
                        let n = self.num(1, env, 4)?;
                        let sig = self.val(2, Role::Sig(key.to_vec()))?;
                        let ok = env.check_sig(&sig, &key).map_err(Stop::Fail)?;
                        if !sig.is_empty() {
                            if self.sigops_budget < 50 {
                                return Err(Fail::Limit("tapscript sigops budget").into());
                            }
                            self.sigops_budget -= 50;
                        }
                        self.trace.sig_checks.push((key.to_vec(), sig.to_vec(), ok));
                        self.popn(3);
                        self.stack.push(rc(num_encode(n + ok as i64)));
                    }
                    OP_CHECKMULTISIG | OP_CHECKMULTISIGVERIFY => {
                        if env.sigversion == SigVersion::Tapscript {
                            return Err(Fail::Abort("CHECKMULTISIG in tapscript").into());
                        }
                        self.need(1)?;
                        let nk = self.num(0, env, 4)?;
                        if !(0..=20).contains(&nk) {
                            return Err(Fail::Abort("multisig key count").into());
                        }
                        let nk = nk as usize;
                        if self.trace.op_count + 1 + nk > MAX_OPS {
                            return Err(Fail::Limit("op count").into());
                        }
                        self.need(2 + nk)?;
                        let ns = self.num(1 + nk, env, 4)?;
                        if ns < 0 || ns as usize > nk {
                            return Err(Fail::Abort("multisig sig count").into());
                        }
                        let ns = ns as usize;
                        self.need(3 + nk + ns)?;
                        // keys: depth 1..=nk (depth 1 = last key), sigs: depth nk+2 ..= nk+1+ns
                        let mut keys = Vec::with_capacity(nk);
                        for i in 0..nk {
                            keys.push(self.val(1 + i, Role::Any)?);
                        }
                        // Resolve signatures lazily in the order Core consumes them:
                        // last sig against last key, moving down.
                        let mut ikey = 0usize; // index into keys (0 = last key)
                        let mut isig = 0usize; // 0 = last sig
                        let mut success = true;
                        let mut checks = Vec::new();
                        let mut sigs_seen: Vec<Rc<Vec<u8>>> = Vec::new();
                        while success && isig < ns {
                            let key = keys[ikey].clone();
                            let sig = self.val(nk + 2 + isig, Role::Sig(key.to_vec()))?;
                            if sigs_seen.len() <= isig {
                                sigs_seen.push(sig.clone());
                            }
                            // In CHECKMULTISIG a failing (sig,key) pair is not a NULLFAIL
                            // violation by itself; NULLFAIL applies at the end.
                            let ok = match check_multisig_pair(env, &sig, &key) {
                                Ok(b) => b,
                                Err(f) => return Err(Stop::Fail(f)),
                            };
                            checks.push((key.to_vec(), sig.to_vec(), ok));
                            if ok {
                                isig += 1;
                            }
                            ikey += 1;
                            if ns - isig > nk - ikey {
                                success = false;
                            }
                        }
                        // remaining signatures (not examined) must still be resolved for NULLFAIL
                        let mut all_sigs = Vec::with_capacity(ns);
                        for i in 0..ns {
                            let s = match &self.stack[self.stack.len() - 1 - (nk + 2 + i)] {
                                Elem::B(b) => b.clone(),
                                Elem::V(id) => match &self.bindings[*id] {
                                    Some(b) => b.clone(),
                                    None => {
                                        return Err(Stop::Fork { var: *id, role: Role::Any });
                                    }
                                },
                            };
                            all_sigs.push(s);
                        }
                        if !success && env.flags.nullfail && all_sigs.iter().any(|s| !s.is_empty()) {
                            return Err(Fail::Signature("NULLFAIL (multisig)").into());
                        }
                        let dummy = self.val(2 + nk + ns, Role::Any)?;
                        if env.flags.nulldummy && !dummy.is_empty() {
                            return Err(Fail::Encoding("NULLDUMMY").into());
                        }
                        if c == OP_CHECKMULTISIGVERIFY && !success {
                            return Err(Fail::ScriptFalse("CHECKMULTISIGVERIFY").into());
                        }
                        self.trace.op_count += nk;
                        self.trace.sig_checks.extend(checks);
                        self.popn(3 + nk + ns);
                        if c == OP_CHECKMULTISIG {
                            self.push_bool(success);
                        }
                    }
                    OP_CLTV => {
                        self.need(1)?;
                        let n = self.num(0, env, 5)?;
                        if n < 0 {
                            return Err(Fail::Locktime("negative locktime").into());
                        }
                        let tx_lt = env.txc.tx.lock_time.to_consensus_u32() as i64;
                        const T: i64 = 500_000_000;
                        if !((tx_lt < T && n < T) || (tx_lt >= T && n >= T)) {
                            return Err(Fail::Locktime("CLTV unit mismatch").into());
                        }
                        if n > tx_lt {
                            return Err(Fail::Locktime("CLTV not reached").into());
                        }
                        if env.txc.tx.input[env.txc.idx].sequence.0 == 0xffff_ffff {
                            return Err(Fail::Locktime("CLTV with final sequence").into());
                        }
                        self.trace.cltv.push(n);
                    }
                    OP_CSV => {
                        self.need(1)?;
                        let n = self.num(0, env, 5)?;
                        if n < 0 {
                            return Err(Fail::Locktime("negative sequence").into());
                        }
                        if n & (1 << 31) == 0 {
                            let seq = env.txc.tx.input[env.txc.idx].sequence.0 as i64;
                            if (env.txc.tx.version.0 as u32) < 2 {
                                return Err(Fail::Locktime("CSV with tx version < 2").into());
                            }
                            if seq & (1 << 31) != 0 {
                                return Err(Fail::Locktime("CSV with disabled sequence").into());
                            }
                            const TYPE: i64 = 1 << 22;
                            const MASK: i64 = TYPE | 0xffff;
                            let a = n & MASK;
                            let b = seq & MASK;
                            if !((a < TYPE && b < TYPE) || (a >= TYPE && b >= TYPE)) {
                                return Err(Fail::Locktime("CSV unit mismatch").into());
                            }
                            if a > b {
                                return Err(Fail::Locktime("CSV not reached").into());
                            }
                        }
                        self.trace.csv.push(n);
                    }
                    _ => return Err(Fail::Unsupported("opcode outside the model").into()),
                }
                if counted {
                    self.trace.op_count += 1;
                }
            }
        }
        self.pc += 1;
        self.trace.steps += 1;
        let depth = self.stack.len() + self.alt.len();
        if depth > MAX_STACK {
            return Err(Fail::Limit("stack size").into());
        }
        if depth > self.trace.max_stack {
            self.trace.max_stack = depth;
        }
        Ok(())
    }
}

/// One (sig, key) comparison inside CHECKMULTISIG: encoding rules abort, a
/// mismatch is just `false`.
fn check_multisig_pair(env: &Env, sig: &[u8], key: &[u8]) -> Result<bool, Fail> {
    // Same as check_sig but without per-pair NULLFAIL.
    let mut f = env.flags;
    f.nullfail = false;
    let tmp = Env {
        txc: env.txc,
        sigversion: env.sigversion,
        flags: f,
        script_code: env.script_code.clone(),
        leaf_hash: env.leaf_hash,
        sig_memo: RefCell::new(HashMap::new()),
        secp: env.secp,
    };
    // use the outer memo with a distinguishing key prefix
    let k = (sig.to_vec(), [b"M", key].concat());
    if let Some(r) = env.sig_memo.borrow().get(&k) {
        return r.clone();
    }
    let r = tmp.check_sig(sig, key);
    env.sig_memo.borrow_mut().insert(k, r.clone());
    r
}

fn is_known(c: u8) -> bool {
    matches!(
        c,
        OP_NOP
            | OP_VERIFY
            | OP_RETURN
            | OP_TOALTSTACK
            | OP_FROMALTSTACK
            | OP_2DROP
            | OP_IFDUP
            | OP_DROP
            | OP_DUP
            | OP_SWAP
            | OP_SIZE
            | OP_EQUAL
            | OP_EQUALVERIFY
            | OP_NOT
            | OP_0NOTEQUAL
            | OP_ADD
            | OP_BOOLAND
            | OP_BOOLOR
            | OP_NUMEQUAL
            | OP_NUMEQUALVERIFY
            | OP_RIPEMD160
            | OP_SHA256
            | OP_HASH160
            | OP_HASH256
            | OP_CHECKSIG
            | OP_CHECKSIGVERIFY
            | OP_CHECKMULTISIG
            | OP_CHECKMULTISIGVERIFY
            | OP_CLTV
            | OP_CSV
            | OP_CHECKSIGADD
    )
}

/// Run a machine to completion (concrete mode or with all needed vars bound).
pub fn run_to_end(m: &mut Machine, env: &Env) -> Result<(), Stop> {
    while !m.finished() {
        m.step(env)?;
    }
    if !m.cond.is_empty() {
        return Err(Stop::Fail(Fail::Abort("unbalanced conditional")));
    }
    Ok(())
}
