//! Reference Bitcoin Script VM (oracle). See DESIGN.md section 4.1 / 4.2.
pub mod script;
pub mod search;
pub mod verify;
pub mod vm;
