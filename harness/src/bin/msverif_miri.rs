//! msverif_miri <seed> <shard> <ops>: the part of the workload that an undefined-behaviour
//! interpreter can run (no C FFI: String keys or key-free scripts). Under Miri every
//! operation is checked for UB, invalid pointer use and leaks; the oracles are the same
//! round-trip / law checks the native monitors use. Prints one JSON summary line.
//! Reaches the crate's only `unsafe` block (`Miniscript::downcast`) through `satisfy` on
//! key-free tapscript and segwit-v0 fragments (both outcomes of the cast).

use std::collections::hash_map::DefaultHasher;
use std::hash::Hasher;
use std::str::FromStr;

use miniscript::bitcoin;
use miniscript::bitcoin::hashes::{hash160, ripemd160, sha256, Hash as _};
use miniscript::policy::{Concrete, Liftable, Semantic};
use miniscript::{hash256, Descriptor, Legacy, Miniscript, Satisfier, Segwitv0, Tap, Translator, ValidationParams};
use msverif::frag::{AbstractNames, Cx, Gen, GenCfg};
use msverif::oracle::spec_types::Base;
use msverif::pol::{AbstractPolNames, PolGen, PolGenCfg};
use msverif::prng::Rng;

const PRE: [u8; 32] = [7u8; 32];

struct KeyFree {
    locks: bool,
    hashes: bool,
}
impl Satisfier<bitcoin::PublicKey> for KeyFree {
    fn lookup_sha256(&self, h: &sha256::Hash) -> Option<[u8; 32]> { (self.hashes && *h == sha256::Hash::hash(&PRE)).then_some(PRE) }
    fn lookup_hash256(&self, h: &hash256::Hash) -> Option<[u8; 32]> { (self.hashes && *h == hash256::Hash::hash(&PRE)).then_some(PRE) }
    fn lookup_ripemd160(&self, h: &ripemd160::Hash) -> Option<[u8; 32]> { (self.hashes && *h == ripemd160::Hash::hash(&PRE)).then_some(PRE) }
    fn lookup_hash160(&self, h: &hash160::Hash) -> Option<[u8; 32]> { (self.hashes && *h == hash160::Hash::hash(&PRE)).then_some(PRE) }
    fn check_older(&self, _: bitcoin::relative::LockTime) -> bool { self.locks }
    fn check_after(&self, _: bitcoin::absolute::LockTime) -> bool { self.locks }
}

fn keyfree(rng: &mut Rng, depth: usize) -> String {
    let leaf = |rng: &mut Rng| -> String {
        match rng.below(8) {
            0 => format!("sha256({})", sha256::Hash::hash(&PRE)),
            1 => format!("hash256({})", hash256::Hash::hash(&PRE)),
            2 => format!("ripemd160({})", ripemd160::Hash::hash(&PRE)),
            3 => format!("hash160({})", hash160::Hash::hash(&PRE)),
            4 => format!("after({})", 1 + rng.below(1000)),
            5 => format!("older({})", 1 + rng.below(1000)),
            6 => "1".into(),
            _ => format!("sha256({})", sha256::Hash::hash(&[1u8; 32])),
        }
    };
    if depth == 0 {
        return leaf(rng);
    }
    let h = |rng: &mut Rng| format!("sha256({})", sha256::Hash::hash(if rng.coin() { &PRE } else { &[9u8; 32] }));
    match rng.below(11) {
        0 => format!("and_v(v:{},{})", keyfree(rng, depth - 1), keyfree(rng, depth - 1)),
        1 => format!("and_b({},a:{})", keyfree(rng, depth - 1), keyfree(rng, depth - 1)),
        2 => format!("or_b({},a:{})", h(rng), h(rng)),
        3 => format!("or_d({},{})", h(rng), keyfree(rng, depth - 1)),
        4 => format!("or_i({},{})", keyfree(rng, depth - 1), keyfree(rng, depth - 1)),
        5 => format!("andor({},{},{})", h(rng), keyfree(rng, depth - 1), keyfree(rng, depth - 1)),
        6 => format!("thresh({},{},a:{},a:{})", 1 + rng.below(3), h(rng), h(rng), h(rng)),
        7 => format!("j:{}", h(rng)),
        8 => format!("t:or_c({},v:{})", h(rng), keyfree(rng, depth - 1)),
        9 => format!("l:{}", keyfree(rng, depth - 1)),
        _ => leaf(rng),
    }
}

struct Rename;
impl Translator<String> for Rename {
    type TargetPk = String;
    type Error = ();
    fn pk(&mut self, pk: &String) -> Result<String, ()> { Ok(format!("{}x", pk)) }
    fn sha256(&mut self, h: &String) -> Result<String, ()> { Ok(h.clone()) }
    fn hash256(&mut self, h: &String) -> Result<String, ()> { Ok(h.clone()) }
    fn ripemd160(&mut self, h: &String) -> Result<String, ()> { Ok(h.clone()) }
    fn hash160(&mut self, h: &String) -> Result<String, ()> { Ok(h.clone()) }
}

fn hash_of<T: std::hash::Hash>(t: &T) -> u64 {
    let mut h = DefaultHasher::new();
    t.hash(&mut h);
    h.finish()
}

fn main() {
    let a: Vec<String> = std::env::args().collect();
    let seed: u64 = a.get(1).and_then(|x| x.parse().ok()).unwrap_or(1);
    let shard: u64 = a.get(2).and_then(|x| x.parse().ok()).unwrap_or(0);
    let ops: usize = a.get(3).and_then(|x| x.parse().ok()).unwrap_or(40);
    if a.get(4).map(|x| x == "ubctl").unwrap_or(false) {
        // positive control (./check selftest --tier thorough): deliberate UB, Miri must stop here
        let v = vec![1u8, 2, 3];
        let p = v.as_ptr();
        drop(v);
        println!("{}", unsafe { *p.add(1) });
    }
    let mut fails: Vec<String> = vec![];
    let (mut parsed, mut satisfied, mut sat_failed, mut cast_some, mut cast_none, mut policies, mut descs) = (0u64, 0u64, 0u64, 0u64, 0u64, 0u64, 0u64);
    for i in 0..ops {
        let mut rng = Rng::derive(seed, shard * 1_000_003 + i as u64, "MIRI");
        // (1) String-key miniscripts: parse, print, re-parse, type, lift, laws
        let cx = Cx::ALL[rng.below(4)];
        let mut gc = GenCfg::new(cx, 7);
        gc.repeat_keys = rng.coin();
        let budget = 1 + rng.below(7);
        let frag = {
            let mut g = Gen::new(&mut rng, gc);
            g.gen(Base::B, budget)
        };
        let s = frag.to_string_with(&AbstractNames);
        macro_rules! roundtrip {
            ($ctx:ty) => {{
                if let Ok(ms) = Miniscript::<String, $ctx>::from_str_with_validation_params(&s, &ValidationParams::MAX) {
                    parsed += 1;
                    let s2 = ms.to_string();
                    match Miniscript::<String, $ctx>::from_str_with_validation_params(&s2, &ValidationParams::MAX) {
                        Ok(ms2) => {
                            if ms2 != ms || ms2.cmp(&ms) != std::cmp::Ordering::Equal || hash_of(&ms2) != hash_of(&ms) || ms2.to_string() != s2 {
                                fails.push(format!("round trip law broken for {}", s));
                            }
                        }
                        Err(e) => fails.push(format!("{} does not re-parse: {}", s2, e)),
                    }
                    let _ = (ms.lift().map(|p| p.normalized().to_string()), ms.ty, ms.script_size(), ms.max_satisfaction_witness_elements());
                    let c = ms.clone();
                    drop(ms);
                    let _ = c.validate(&<$ctx as miniscript::ScriptContext>::SANE);
                }
            }};
        }
        match cx {
            Cx::Bare | Cx::Legacy => roundtrip!(Legacy),
            Cx::Segwitv0 => roundtrip!(Segwitv0),
            Cx::Tap => roundtrip!(Tap),
        }
        // (2) descriptors with String keys incl. a tap tree; translation
        let d = match cx {
            Cx::Tap => format!("tr(K9,{{{},{{pk(K8),{}}}}})", s, "and_v(v:pk(K7),older(9))"),
            Cx::Segwitv0 => format!("wsh({})", s),
            _ => format!("sh({})", s),
        };
        if let Ok(desc) = Descriptor::<String>::from_str(&d) {
            descs += 1;
            let printed = desc.to_string();
            if Descriptor::<String>::from_str(&printed).map(|x| x != desc).unwrap_or(true) {
                fails.push(format!("descriptor round trip broken for {}", d));
            }
            let t = desc.translate_pk(&mut Rename).map(|x| x.to_string());
            if t.is_err() {
                fails.push(format!("translation failed for {}", d));
            }
            let _ = (desc.lift().map(|p| p.to_string()), desc.max_weight_to_satisfy(), desc.desc_type());
        }
        // (3) policies
        let pcfg = PolGenCfg { max_leaves: 6, n_keys: 6, n_hash: 2, concrete: rng.coin(), constants: rng.chance(1, 4), repeat_atoms: rng.coin(), timelocks: true, hashes: true, max_depth: 4, timelock_heavy: false };
        let conc = pcfg.concrete;
        let leaves = 1 + rng.below(6);
        let p = PolGen::new(&mut rng, pcfg).gen(leaves, 0);
        if conc {
            if let Ok(c) = Concrete::<String>::from_str(&p.concrete(&AbstractPolNames)) {
                policies += 1;
                let _ = (c.to_string(), c.is_valid(), c.lift().map(|l| l.normalized().to_string()));
            }
        } else if let Ok(sp) = Semantic::<String>::from_str(&p.semantic(&AbstractPolNames)) {
            policies += 1;
            let n = sp.clone().normalized();
            let _ = (n.to_string(), sp.n_keys(), sp.minimum_n_keys(), sp.clone().entails(n), sp.relative_timelocks());
        }
        // (4) key-free satisfaction: drives the unsafe downcast both ways
        let kf = keyfree(&mut rng, 2);
        let sat = KeyFree { locks: rng.chance(3, 4), hashes: rng.chance(3, 4) };
        if let Ok(ms) = Miniscript::<bitcoin::PublicKey, Tap>::from_str_with_validation_params(&kf, &ValidationParams::MAX) {
            cast_some += 1;
            match if rng.coin() { ms.satisfy(&sat) } else { ms.satisfy_malleable(&sat) } {
                Ok(w) => {
                    satisfied += 1;
                    if w.iter().any(|e| e.len() > 520) {
                        fails.push(format!("oversized witness element for {}", kf));
                    }
                }
                Err(_) => sat_failed += 1,
            }
            let _ = ms.encode();
        }
        if let Ok(ms) = Miniscript::<bitcoin::PublicKey, Segwitv0>::from_str_with_validation_params(&kf, &ValidationParams::MAX) {
            cast_none += 1;
            match ms.satisfy_malleable(&sat) {
                Ok(_) => satisfied += 1,
                Err(_) => sat_failed += 1,
            }
            let script = ms.encode();
            match Miniscript::<bitcoin::PublicKey, Segwitv0>::decode_with_validation_params(&script, &ValidationParams::MAX) {
                Ok(back) => {
                    if back.encode() != script {
                        fails.push(format!("decode(encode) differs for {}", kf));
                    }
                }
                Err(e) => fails.push(format!("decode(encode({})) failed: {}", kf, e)),
            }
        }
    }
    println!(
        "{{\"t\":\"miri\",\"seed\":{},\"shard\":{},\"ops\":{},\"miniscripts_parsed\":{},\"descriptors\":{},\"policies\":{},\"keyfree_tap_satisfy(downcast=Some)\":{},\"keyfree_segwit_satisfy(downcast=None)\":{},\"satisfied\":{},\"satisfaction_refused\":{},\"failures\":{:?}}}",
        seed, shard, ops, parsed, descs, policies, cast_some, cast_none, satisfied, sat_failed, fails
    );
    if !fails.is_empty() {
        std::process::exit(1);
    }
}
