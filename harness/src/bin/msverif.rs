//! msverif <Cxx> [--tier quick|thorough] [--seed S] [--shard i/n] [--case k] [--scale f] [--nt file]
use msverif::monitors::{self, Report, RunCfg, Tier};

fn main() {
    let args: Vec<String> = std::env::args().collect();
    if args.len() < 2 {
        eprintln!("usage: msverif <Cxx|selftest> [--tier quick|thorough] [--seed S] [--shard i/n] [--case k]");
        std::process::exit(2);
    }
    let mut cfg = RunCfg {
        prop: args[1].clone(),
        tier: Tier::Quick,
        seed: 1,
        shard: 0,
        nshards: 1,
        only_case: None,
        verbose: false,
        scale: 1.0,
        arg: None,
    };
    let mut nt: Option<String> = None;
    let mut i = 2;
    while i < args.len() {
        let a = args[i].as_str();
        let v = args.get(i + 1).cloned().unwrap_or_default();
        match a {
            "--tier" => {
                cfg.tier = if v == "thorough" { Tier::Thorough } else { Tier::Quick };
                i += 1;
            }
            "--seed" => {
                cfg.seed = v.parse().expect("seed");
                i += 1;
            }
            "--shard" => {
                let mut it = v.split('/');
                cfg.shard = it.next().unwrap().parse().expect("shard");
                cfg.nshards = it.next().unwrap().parse().expect("nshards");
                i += 1;
            }
            "--case" => {
                cfg.only_case = Some(v.parse().expect("case"));
                i += 1;
            }
            "--scale" => {
                cfg.scale = v.parse().expect("scale");
                i += 1;
            }
            "--nt" => {
                nt = Some(v);
                i += 1;
            }
            "--arg" => {
                cfg.arg = Some(v);
                i += 1;
            }
            "-v" => cfg.verbose = true,
            _ => {
                eprintln!("unknown argument {}", a);
                std::process::exit(2);
            }
        }
        i += 1;
    }
    if !cfg.verbose {
        monitors::install_quiet_panic_hook();
    }
    let mut rep = Report::new(&cfg);
    if !monitors::dispatch(&cfg, &mut rep) {
        eprintln!("unknown property {}", cfg.prop);
        std::process::exit(2);
    }
    rep.emit(nt.as_deref());
}
