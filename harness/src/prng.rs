//! Deterministic PRNG (SplitMix64 seeding xoshiro256**). No wall clock, no `rand`.

#[derive(Clone, Debug)]
pub struct Rng {
    s: [u64; 4],
}

fn splitmix(x: &mut u64) -> u64 {
    *x = x.wrapping_add(0x9E37_79B9_7F4A_7C15);
    let mut z = *x;
    z = (z ^ (z >> 30)).wrapping_mul(0xBF58_476D_1CE4_E5B9);
    z = (z ^ (z >> 27)).wrapping_mul(0x94D0_49BB_1331_11EB);
    z ^ (z >> 31)
}

impl Rng {
    pub fn new(seed: u64) -> Self {
        let mut x = seed;
        let s = [splitmix(&mut x), splitmix(&mut x), splitmix(&mut x), splitmix(&mut x)];
        Rng { s }
    }

    /// Seed from (global seed, shard, textual tag) so that every property/shard
    /// draws an independent stream.
    pub fn derive(seed: u64, shard: u64, tag: &str) -> Self {
        let mut h: u64 = 0xcbf2_9ce4_8422_2325;
        for b in tag.bytes() {
            h ^= b as u64;
            h = h.wrapping_mul(0x0000_0100_0000_01B3);
        }
        Rng::new(seed ^ h.rotate_left(17) ^ shard.wrapping_mul(0xA24B_AED4_963E_E407))
    }

    pub fn next_u64(&mut self) -> u64 {
        let r = self.s[1].wrapping_mul(5).rotate_left(7).wrapping_mul(9);
        let t = self.s[1] << 17;
        self.s[2] ^= self.s[0];
        self.s[3] ^= self.s[1];
        self.s[1] ^= self.s[2];
        self.s[0] ^= self.s[3];
        self.s[2] ^= t;
        self.s[3] = self.s[3].rotate_left(45);
        r
    }

    /// Uniform in 0..n (n > 0).
    pub fn below(&mut self, n: usize) -> usize {
        debug_assert!(n > 0);
        (self.next_u64() % (n as u64)) as usize
    }

    /// Uniform in lo..=hi.
    pub fn range(&mut self, lo: usize, hi: usize) -> usize { lo + self.below(hi - lo + 1) }

    pub fn chance(&mut self, num: u32, den: u32) -> bool { (self.next_u64() % den as u64) < num as u64 }

    pub fn coin(&mut self) -> bool { self.next_u64() & 1 == 1 }

    pub fn pick<'a, T>(&mut self, xs: &'a [T]) -> &'a T { &xs[self.below(xs.len())] }

    pub fn bytes(&mut self, n: usize) -> Vec<u8> {
        let mut v = Vec::with_capacity(n);
        while v.len() < n {
            let x = self.next_u64().to_le_bytes();
            for b in x {
                if v.len() < n {
                    v.push(b);
                }
            }
        }
        v
    }

    pub fn shuffle<T>(&mut self, xs: &mut [T]) {
        for i in (1..xs.len()).rev() {
            let j = self.below(i + 1);
            xs.swap(i, j);
        }
    }
}
